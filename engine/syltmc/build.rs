//! The harness reads the positions of tokens and errors from the repository's `Span`. Whether its parts are public
//! fields (as in the pinned tree) or accessor methods of the same names is decided here from the source the crate
//! links against, so that an encapsulating refactoring of `Span` does not stop every check from building.
use std::path::PathBuf;

fn main() {
    println!("cargo:rustc-check-cfg=cfg(span_fields)");
    let manifest = PathBuf::from(std::env::var("CARGO_MANIFEST_DIR").unwrap()).join("Cargo.toml");
    println!("cargo:rerun-if-changed={}", manifest.display());
    let text = std::fs::read_to_string(&manifest).unwrap_or_default();
    let mut dir = None;
    for line in text.lines() {
        if line.trim_start().starts_with("sylt-tokenizer") {
            if let Some(p) = line.split("path = \"").nth(1).and_then(|r| r.split('"').next()) {
                dir = Some(PathBuf::from(p));
            }
        }
    }
    let mut fields = true;
    if let Some(d) = dir {
        let src = d.join("src");
        println!("cargo:rerun-if-changed={}", src.display());
        let mut all = String::new();
        if let Ok(rd) = std::fs::read_dir(&src) {
            for e in rd.flatten() {
                if e.path().extension().map(|x| x == "rs").unwrap_or(false) {
                    println!("cargo:rerun-if-changed={}", e.path().display());
                    all.push_str(&std::fs::read_to_string(e.path()).unwrap_or_default());
                }
            }
        }
        if !all.is_empty() {
            let compact: String = all.split_whitespace().collect::<Vec<_>>().join(" ");
            fields = compact.contains("pub line_start: usize") || compact.contains("pub line_start : usize");
        }
    }
    if fields {
        println!("cargo:rustc-cfg=span_fields");
    }
}
