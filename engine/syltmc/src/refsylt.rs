//! RefSylt — reference big-step semantics of core Sylt on the harness's own AST.
//! Strict: every operation checks the tags of its operands (TagError) and every variable
//! read checks lexical binding and initialisation (ScopeError).

use crate::ast::*;
use std::cell::RefCell;
use std::collections::HashMap;
use std::rc::Rc;

#[derive(Clone)]
pub enum V {
    Int(i64),
    Float(f64),
    Str(Rc<str>),
    Bool(bool),
    Nil,
    /// the "value" of a block that ends in a non-expression statement
    Undef,
    Tuple(Rc<Vec<V>>),
    List(Rc<RefCell<Vec<V>>>),
    Blob(Rc<BlobV>),
    Variant(Rc<(String, V)>),
    Closure(Rc<Closure>),
    Builtin(&'static str),
}

pub struct BlobV {
    pub name: String,
    pub fields: RefCell<Vec<(String, V)>>,
}

pub struct Closure {
    pub f: std::sync::Arc<FnLit>,
    pub env: Env,
}

pub struct EnvNode {
    name: Name,
    cell: Rc<RefCell<Option<V>>>,
    next: Env,
}
pub type Env = Option<Rc<EnvNode>>;

fn bind(env: &Env, name: &str, v: Option<V>) -> (Env, Rc<RefCell<Option<V>>>) {
    let cell = Rc::new(RefCell::new(v));
    (Some(Rc::new(EnvNode { name: name.to_string(), cell: cell.clone(), next: env.clone() })), cell)
}

#[derive(Clone, Debug, PartialEq)]
pub enum End {
    Done,
    AssertFailed,
    Unreachable(u32),
    TagError(String),
    ScopeError(String),
    Budget,
    Unsupported(String),
    /// internal: break/continue/ret leaving an expression (if/case branch); never a final outcome
    FlowEscape,
}

#[derive(Clone, Debug, PartialEq)]
pub struct Trace {
    pub out: Vec<String>,
    pub end: End,
    /// the trace contains text whose form is not fixed by the language (NaN, multi-field blob, function)
    pub unstable_text: bool,
}

enum Flow {
    Next,
    Break,
    Continue,
    Ret(V),
}

pub struct Interp {
    globals: HashMap<Name, Rc<RefCell<Option<V>>>>,
    pub out: Vec<String>,
    pub steps: u64,
    pub budget: u64,
    depth: usize,
    pub max_depth: usize,
    /// compound / field assignment: read the target side before (true) or after (false) the value
    /// which assignment forms evaluate their right-hand side before their target (bit per form, see `form_bit`);
    /// 0 = every form reads its target first
    pub order_mask: u8,
    pub unstable_text: bool,
    /// evaluate global initialisers strictly in source order (C11 enumerates the orders itself)
    pub source_order: bool,
    fell_off_end: bool,
    pending: Option<Flow>,
}

type R<T> = Result<T, End>;

fn tag(v: &V) -> &'static str {
    match v {
        V::Int(_) => "int",
        V::Float(_) => "float",
        V::Str(_) => "str",
        V::Bool(_) => "bool",
        V::Nil => "nil",
        V::Undef => "no-value",
        V::Tuple(_) => "tuple",
        V::List(_) => "list",
        V::Blob(_) => "blob",
        V::Variant(_) => "variant",
        V::Closure(_) | V::Builtin(_) => "function",
    }
}

pub fn fmt_g14(f: f64) -> String {
    if f.is_nan() {
        return if f.is_sign_negative() { "-nan".into() } else { "nan".into() };
    }
    if f.is_infinite() {
        return if f < 0.0 { "-inf".into() } else { "inf".into() };
    }
    if f == 0.0 {
        return if f.is_sign_negative() { "-0".into() } else { "0".into() };
    }
    let e = format!("{:.13e}", f);
    let (mant, exp) = e.split_once('e').unwrap();
    let x: i32 = exp.parse().unwrap();
    if x < -4 || x >= 14 {
        let mut m = mant.to_string();
        if m.contains('.') {
            while m.ends_with('0') {
                m.pop();
            }
            if m.ends_with('.') {
                m.pop();
            }
        }
        format!("{}e{}{:02}", m, if x < 0 { '-' } else { '+' }, x.abs())
    } else {
        let decimals = (13 - x).max(0) as usize;
        let mut t = format!("{:.*}", decimals, f);
        if t.contains('.') {
            while t.ends_with('0') {
                t.pop();
            }
            if t.ends_with('.') {
                t.pop();
            }
        }
        t
    }
}

pub fn float_text(f: f64) -> String {
    let t = fmt_g14(f);
    if t.bytes().all(|b| b.is_ascii_digit() || b == b'-') {
        format!("{}.0", t)
    } else {
        t
    }
}

fn cmp_int_float(i: i64, f: f64) -> Option<std::cmp::Ordering> {
    use std::cmp::Ordering::*;
    if f.is_nan() {
        return None;
    }
    if f >= 9223372036854775808.0 {
        return Some(Less);
    }
    if f < -9223372036854775808.0 {
        return Some(Greater);
    }
    let fi = f.floor();
    let fi_i = fi as i64;
    match i.cmp(&fi_i) {
        Equal => {
            if f > fi {
                Some(Less)
            } else {
                Some(Equal)
            }
        }
        o => Some(o),
    }
}

impl Interp {
    pub fn new(budget: u64) -> Self {
        Interp {
            globals: HashMap::new(),
            out: Vec::new(),
            steps: 0,
            budget,
            depth: 0,
            max_depth: 60,
            order_mask: 0,
            unstable_text: false,
            source_order: false,
            fell_off_end: false,
            pending: None,
        }
    }

    fn tick(&mut self) -> R<()> {
        self.steps += 1;
        if self.steps > self.budget {
            Err(End::Budget)
        } else {
            Ok(())
        }
    }

    pub fn show(&mut self, v: &V) -> R<String> {
        Ok(match v {
            V::Int(i) => format!("{}", i),
            V::Float(f) => {
                if f.is_nan() {
                    self.unstable_text = true;
                }
                float_text(*f)
            }
            V::Str(s) => s.to_string(),
            V::Bool(b) => format!("{}", b),
            V::Nil => "nil".into(),
            V::Undef => return Err(End::TagError("use of the value of a block (or function) that has none".into())),
            V::Tuple(xs) => {
                let mut parts = Vec::new();
                for x in xs.iter() {
                    parts.push(self.show(x)?);
                }
                if parts.len() == 1 {
                    format!("({},)", parts[0])
                } else {
                    format!("({})", parts.join(", "))
                }
            }
            V::List(xs) => {
                let xs = xs.borrow().clone();
                let mut parts = Vec::new();
                for x in xs.iter() {
                    parts.push(self.show(x)?);
                }
                format!("[{}]", parts.join(", "))
            }
            V::Variant(v) => {
                let p = self.show(&v.1)?;
                format!("{} {}", v.0, p)
            }
            V::Blob(b) => {
                let fs = b.fields.borrow().clone();
                if fs.len() != 1 {
                    self.unstable_text = true;
                }
                let mut parts = Vec::new();
                for (k, x) in fs.iter() {
                    if matches!(x, V::Closure(_) | V::Builtin(_)) {
                        self.unstable_text = true;
                    }
                    let t = match x {
                        V::Closure(_) | V::Builtin(_) => "function".to_string(),
                        _ => self.show(x)?,
                    };
                    parts.push(format!(".{} = {}", k, t));
                }
                format!("blob {{{}}}", parts.join(", "))
            }
            V::Closure(_) | V::Builtin(_) => {
                self.unstable_text = true;
                "function".into()
            }
        })
    }

    // ----------------------------------------------------------------------------- operators
    fn equal(&mut self, a: &V, b: &V) -> R<bool> {
        self.tick()?;
        Ok(match (a, b) {
            (V::Int(x), V::Int(y)) => x == y,
            (V::Float(x), V::Float(y)) => x == y,
            (V::Str(x), V::Str(y)) => x == y,
            (V::Bool(x), V::Bool(y)) => x == y,
            (V::Nil, V::Nil) => true,
            (V::Tuple(x), V::Tuple(y)) => {
                if x.len() != y.len() {
                    return Err(End::TagError(format!("== on tuples of length {} and {}", x.len(), y.len())));
                }
                for (p, q) in x.iter().zip(y.iter()) {
                    if !self.equal(p, q)? {
                        return Ok(false);
                    }
                }
                true
            }
            (V::List(x), V::List(y)) => {
                let (x, y) = (x.borrow().clone(), y.borrow().clone());
                if x.len() != y.len() {
                    return Ok(false);
                }
                for (p, q) in x.iter().zip(y.iter()) {
                    if !self.equal(p, q)? {
                        return Ok(false);
                    }
                }
                true
            }
            (V::Blob(x), V::Blob(y)) => {
                if Rc::ptr_eq(x, y) {
                    return Ok(true);
                }
                let (fx, fy) = (x.fields.borrow().clone(), y.fields.borrow().clone());
                if fx.len() != fy.len() {
                    return Err(End::TagError("== on blobs with different field sets".into()));
                }
                for (k, p) in fx.iter() {
                    match fy.iter().find(|(k2, _)| k2 == k) {
                        Some((_, q)) => {
                            if matches!(p, V::Closure(_)) || matches!(q, V::Closure(_)) {
                                return Err(End::Unsupported("equality of function-valued fields".into()));
                            }
                            if !self.equal(p, q)? {
                                return Ok(false);
                            }
                        }
                        None => return Err(End::TagError("== on blobs with different field sets".into())),
                    }
                }
                true
            }
            (V::Variant(x), V::Variant(y)) => {
                if x.0 != y.0 {
                    false
                } else {
                    self.equal(&x.1, &y.1)?
                }
            }
            (V::Closure(_), _) | (_, V::Closure(_)) | (V::Builtin(_), _) | (_, V::Builtin(_)) => {
                return Err(End::Unsupported("function equality".into()))
            }
            _ => return Err(End::TagError(format!("== on {} and {}", tag(a), tag(b)))),
        })
    }

    /// strict less-than; `or_equal` gives <=
    fn less(&mut self, a: &V, b: &V, or_equal: bool) -> R<bool> {
        use std::cmp::Ordering::*;
        self.tick()?;
        let ord = match (a, b) {
            (V::Int(x), V::Int(y)) => Some(x.cmp(y)),
            (V::Float(x), V::Float(y)) => x.partial_cmp(y),
            (V::Int(x), V::Float(y)) => cmp_int_float(*x, *y),
            (V::Float(x), V::Int(y)) => cmp_int_float(*y, *x).map(|o| o.reverse()),
            (V::Str(x), V::Str(y)) => Some(x.as_bytes().cmp(y.as_bytes())),
            (V::Tuple(x), V::Tuple(y)) => {
                if x.len() != y.len() {
                    return Err(End::TagError("< on tuples of different length".into()));
                }
                for (p, q) in x.iter().zip(y.iter()) {
                    // first differing element decides
                    let same = match (p, q) {
                        (V::Int(i), V::Float(f)) | (V::Float(f), V::Int(i)) => cmp_int_float(*i, *f) == Some(Equal),
                        _ => self.equal(p, q)?,
                    };
                    if !same {
                        return self.less(p, q, false);
                    }
                }
                return Ok(or_equal);
            }
            _ => return Err(End::TagError(format!("< on {} and {}", tag(a), tag(b)))),
        };
        Ok(match ord {
            Some(Less) => true,
            Some(Equal) => or_equal,
            _ => false,
        })
    }

    fn arith(&mut self, op: BinOp, a: &V, b: &V) -> R<V> {
        self.tick()?;
        Ok(match (op, a, b) {
            (BinOp::Add, V::Int(x), V::Int(y)) => V::Int(x.wrapping_add(*y)),
            (BinOp::Sub, V::Int(x), V::Int(y)) => V::Int(x.wrapping_sub(*y)),
            (BinOp::Mul, V::Int(x), V::Int(y)) => V::Int(x.wrapping_mul(*y)),
            (BinOp::Add, V::Float(x), V::Float(y)) => V::Float(x + y),
            (BinOp::Sub, V::Float(x), V::Float(y)) => V::Float(x - y),
            (BinOp::Mul, V::Float(x), V::Float(y)) => V::Float(x * y),
            (BinOp::Add, V::Str(x), V::Str(y)) => V::Str(format!("{}{}", x, y).into()),
            (BinOp::Div, V::Int(x), V::Int(y)) => V::Float(*x as f64 / *y as f64),
            (BinOp::Div, V::Int(x), V::Float(y)) => V::Float(*x as f64 / *y),
            (BinOp::Div, V::Float(x), V::Int(y)) => V::Float(*x / *y as f64),
            (BinOp::Div, V::Float(x), V::Float(y)) => V::Float(*x / *y),
            (_, V::Tuple(x), V::Tuple(y)) => {
                if x.len() != y.len() {
                    return Err(End::TagError(format!("{} on tuples of different length", op.text())));
                }
                let mut out = Vec::new();
                for (p, q) in x.iter().zip(y.iter()) {
                    out.push(self.arith(op, p, q)?);
                }
                V::Tuple(Rc::new(out))
            }
            (BinOp::Div, V::Tuple(x), V::Int(_) | V::Float(_)) => {
                let mut out = Vec::new();
                for p in x.iter() {
                    out.push(self.arith(op, p, b)?);
                }
                V::Tuple(Rc::new(out))
            }
            _ => return Err(End::TagError(format!("{} on {} and {}", op.text(), tag(a), tag(b)))),
        })
    }

    fn neg(&mut self, a: &V) -> R<V> {
        Ok(match a {
            V::Int(x) => V::Int(x.wrapping_neg()),
            V::Float(x) => V::Float(-x),
            V::Tuple(xs) => {
                let mut out = Vec::new();
                for x in xs.iter() {
                    out.push(self.neg(x)?);
                }
                V::Tuple(Rc::new(out))
            }
            _ => return Err(End::TagError(format!("unary - on {}", tag(a)))),
        })
    }

    // ----------------------------------------------------------------------------- variables
    fn lookup(&self, env: &Env, name: &str) -> R<Rc<RefCell<Option<V>>>> {
        let mut e = env;
        while let Some(n) = e {
            if n.name == name {
                return Ok(n.cell.clone());
            }
            e = &n.next;
        }
        match self.globals.get(name) {
            Some(c) => Ok(c.clone()),
            None => Err(End::ScopeError(format!("name {:?} is not bound here", name))),
        }
    }

    fn read(&self, env: &Env, name: &str) -> R<V> {
        let c = self.lookup(env, name)?;
        let v = c.borrow().clone();
        v.ok_or_else(|| End::ScopeError(format!("{:?} read before it is initialised", name)))
    }

    // ----------------------------------------------------------------------------- expressions
    fn truth(&self, v: &V, what: &str) -> R<bool> {
        match v {
            V::Bool(b) => Ok(*b),
            _ => Err(End::TagError(format!("{} is {} not bool", what, tag(v)))),
        }
    }

    pub fn eval(&mut self, e: &Expr, env: &Env) -> R<V> {
        self.tick()?;
        Ok(match e {
            Expr::Int(i) => V::Int(*i),
            Expr::Float(f) => V::Float(*f),
            Expr::Str(s) => V::Str(s.as_str().into()),
            Expr::Bool(b) => V::Bool(*b),
            Expr::Nil => V::Nil,
            Expr::Var(n) => self.read(env, n)?,
            Expr::NsVar(_, n) => {
                let c = self.globals.get(n.as_str()).cloned().ok_or_else(|| End::ScopeError(format!("no global {:?}", n)))?;
                let v = c.borrow().clone();
                v.ok_or_else(|| End::ScopeError(format!("{:?} read before it is initialised", n)))?
            }
            Expr::Paren(x) => self.eval(x, env)?,
            Expr::Raw(t) => return Err(End::Unsupported(format!("raw text {:?}", t))),
            Expr::Bin(BinOp::And, a, b) => {
                let x = self.eval(a, env)?;
                if !self.truth(&x, "operand of `and`")? {
                    V::Bool(false)
                } else {
                    let y = self.eval(b, env)?;
                    V::Bool(self.truth(&y, "operand of `and`")?)
                }
            }
            Expr::Bin(BinOp::Or, a, b) => {
                let x = self.eval(a, env)?;
                if self.truth(&x, "operand of `or`")? {
                    V::Bool(true)
                } else {
                    let y = self.eval(b, env)?;
                    V::Bool(self.truth(&y, "operand of `or`")?)
                }
            }
            Expr::Bin(op, a, b) => {
                let x = self.eval(a, env)?;
                let y = self.eval(b, env)?;
                self.binop(*op, &x, &y)?
            }
            Expr::Un(UnOp::Neg, a) => {
                let x = self.eval(a, env)?;
                self.neg(&x)?
            }
            Expr::Un(UnOp::Not, a) => {
                let x = self.eval(a, env)?;
                V::Bool(!self.truth(&x, "operand of `not`")?)
            }
            Expr::Call(f, args, _) => {
                let fv = self.eval(f, env)?;
                let mut avs = Vec::with_capacity(args.len());
                for a in args {
                    avs.push(self.eval(a, env)?);
                }
                self.call(&fv, avs)?
            }
            Expr::Tuple(xs) => {
                let mut out = Vec::new();
                for x in xs {
                    out.push(self.eval(x, env)?);
                }
                V::Tuple(Rc::new(out))
            }
            Expr::List(xs) => {
                let mut out = Vec::new();
                for x in xs {
                    out.push(self.eval(x, env)?);
                }
                V::List(Rc::new(RefCell::new(out)))
            }
            Expr::Index(a, i) => {
                let x = self.eval(a, env)?;
                match &x {
                    V::Tuple(xs) => match xs.get(*i as usize) {
                        Some(v) if *i >= 0 => v.clone(),
                        _ => return Err(End::TagError(format!("tuple index {} out of range", i))),
                    },
                    _ => return Err(End::TagError(format!("constant index on {}", tag(&x)))),
                }
            }
            Expr::Field(a, f) => {
                let x = self.eval(a, env)?;
                self.get_field(&x, f)?
            }
            Expr::Blob(name, fs) => {
                let (env2, self_cell) = bind(env, "self", None);
                let mut vals = Vec::new();
                for (k, fe) in fs {
                    let v = if matches!(fe, Expr::Fn(_)) { self.eval(fe, &env2)? } else { self.eval(fe, env)? };
                    vals.push((k.clone(), v));
                }
                let b = V::Blob(Rc::new(BlobV { name: name.clone(), fields: RefCell::new(vals) }));
                *self_cell.borrow_mut() = Some(b.clone());
                b
            }
            Expr::Variant(_, v, p) => {
                let pv = match p {
                    Some(p) => self.eval(p, env)?,
                    None => V::Nil,
                };
                V::Variant(Rc::new((v.clone(), pv)))
            }
            Expr::If(bs, el) => {
                for (c, b) in bs {
                    let cv = self.eval(c, env)?;
                    if self.truth(&cv, "if condition")? {
                        return self.block_value(b, env);
                    }
                }
                match el {
                    Some(b) => return self.block_value(b, env),
                    None => V::Undef,
                }
            }
            Expr::Case(sc, arms, el) => {
                let sv = self.eval(sc, env)?;
                let var = match &sv {
                    V::Variant(v) => v.clone(),
                    _ => return Err(End::TagError(format!("case on {}", tag(&sv)))),
                };
                for a in arms {
                    if a.variant == var.0 {
                        let env2 = match &a.bind {
                            Some(n) => bind(env, n, Some(var.1.clone())).0,
                            None => env.clone(),
                        };
                        return self.block_value(&a.body, &env2);
                    }
                }
                match el {
                    Some(b) => return self.block_value(b, env),
                    None => V::Undef,
                }
            }
            Expr::Fn(f) => V::Closure(Rc::new(Closure { f: f.clone(), env: env.clone() })),
        })
    }

    fn get_field(&mut self, x: &V, f: &str) -> R<V> {
        match x {
            V::Blob(b) => match b.fields.borrow().iter().find(|(k, _)| k == f) {
                Some((_, v)) => Ok(v.clone()),
                None => Err(End::TagError(format!("blob {} has no field {:?}", b.name, f))),
            },
            _ => Err(End::TagError(format!("field access .{} on {}", f, tag(x)))),
        }
    }

    fn binop(&mut self, op: BinOp, x: &V, y: &V) -> R<V> {
        if matches!(x, V::Undef) || matches!(y, V::Undef) {
            return Err(End::TagError("use of the value of a block (or function) that has none".into()));
        }
        Ok(match op {
            BinOp::Add | BinOp::Sub | BinOp::Mul | BinOp::Div => self.arith(op, x, y)?,
            BinOp::Eq => V::Bool(self.equal(x, y)?),
            BinOp::Ne => V::Bool(!self.equal(x, y)?),
            BinOp::Lt => V::Bool(self.less(x, y, false)?),
            BinOp::Le => V::Bool(self.less(x, y, true)?),
            BinOp::Gt => V::Bool(self.less(y, x, false)?),
            BinOp::Ge => V::Bool(self.less(y, x, true)?),
            BinOp::AssertEq => {
                if self.equal(x, y)? {
                    V::Bool(true)
                } else {
                    return Err(End::AssertFailed);
                }
            }
            BinOp::And | BinOp::Or => unreachable!(),
        })
    }

    pub fn call(&mut self, f: &V, args: Vec<V>) -> R<V> {
        self.tick()?;
        match f {
            V::Builtin(name) => self.builtin(name, args),
            V::Closure(c) => {
                if c.f.params.len() != args.len() {
                    return Err(End::TagError(format!("call with {} arguments of a function taking {}", args.len(), c.f.params.len())));
                }
                if self.depth >= self.max_depth {
                    return Err(End::Budget);
                }
                let mut env = c.env.clone();
                for ((n, _), v) in c.f.params.iter().zip(args.into_iter()) {
                    if matches!(v, V::Undef) {
                        return Err(End::TagError("use of the value of a block (or function) that has none".into()));
                    }
                    env = bind(&env, n, Some(v)).0;
                }
                self.depth += 1;
                let r = self.fn_body(&c.f.body, &env);
                self.depth -= 1;
                // a function declared to return a value that runs off its end has no value to give
                match (&r, &c.f.ret) {
                    (Ok(V::Nil), RetAnn::Ty(t)) if *t != Ty::Void && self.fell_off_end => {
                        self.fell_off_end = false;
                        Ok(V::Undef)
                    }
                    _ => r,
                }
            }
            _ => Err(End::TagError(format!("call of {}", tag(f)))),
        }
    }

    fn fn_body(&mut self, body: &[Stmt], env: &Env) -> R<V> {
        let mut env = env.clone();
        let n = body.len();
        for (i, s) in body.iter().enumerate() {
            if i + 1 == n {
                if let Stmt::Expr(e) = s {
                    let v = match self.eval(e, &env) {
                        Err(End::FlowEscape) => match self.pending.take().expect("pending flow") {
                            Flow::Ret(v) => v,
                            _ => return Err(End::TagError("break/continue outside a loop of this function".into())),
                        },
                        r => r?,
                    };
                    self.fell_off_end = matches!(v, V::Undef);
                    return Ok(if matches!(v, V::Undef) { V::Nil } else { v });
                }
            }
            match self.exec(s, &mut env)? {
                Flow::Next => {}
                Flow::Ret(v) => {
                    self.fell_off_end = false;
                    return Ok(v);
                }
                Flow::Break | Flow::Continue => return Err(End::TagError("break/continue outside a loop of this function".into())),
            }
        }
        self.fell_off_end = true;
        Ok(V::Nil)
    }

    fn builtin(&mut self, name: &str, args: Vec<V>) -> R<V> {
        match (name, args.as_slice()) {
            ("print", [v]) => {
                let t = self.show(v)?;
                self.out.push(t);
                Ok(V::Nil)
            }
            ("as_str", [v]) => Ok(V::Str(self.show(v)?.into())),
            ("list_push", [V::List(l), v]) => {
                l.borrow_mut().push(v.clone());
                Ok(V::Nil)
            }
            ("xx_len", [V::List(l)]) => Ok(V::Int(l.borrow().len() as i64)),
            _ => Err(End::TagError(format!("external {} applied to {:?}", name, args.iter().map(tag).collect::<Vec<_>>()))),
        }
    }

    // ----------------------------------------------------------------------------- statements
    /// runs a block in its own scope; value = value of a trailing expression statement
    fn block_value(&mut self, b: &[Stmt], env: &Env) -> R<V> {
        // control flow out of value blocks is carried by a side channel
        let mut env = env.clone();
        let n = b.len();
        for (i, s) in b.iter().enumerate() {
            if i + 1 == n {
                if let Stmt::Expr(e) = s {
                    return self.eval(e, &env);
                }
            }
            match self.exec(s, &mut env)? {
                Flow::Next => {}
                f => {
                    self.pending = Some(f);
                    return Err(End::FlowEscape);
                }
            }
        }
        Ok(V::Undef)
    }

    fn exec_block(&mut self, b: &[Stmt], env: &Env) -> R<Flow> {
        let mut env = env.clone();
        for s in b {
            match self.exec(s, &mut env)? {
                Flow::Next => {}
                f => return Ok(f),
            }
        }
        Ok(Flow::Next)
    }

    fn exec(&mut self, s: &Stmt, env: &mut Env) -> R<Flow> {
        match self.exec_inner(s, env) {
            Err(End::FlowEscape) => Ok(self.pending.take().expect("pending flow")),
            r => r,
        }
    }

    fn exec_inner(&mut self, s: &Stmt, env: &mut Env) -> R<Flow> {
        self.tick()?;
        match s {
            Stmt::Def { name, value, .. } => {
                if matches!(value, Expr::Fn(_)) {
                    let (e2, cell) = bind(env, name, None);
                    *env = e2;
                    let v = self.eval(value, env)?;
                    *cell.borrow_mut() = Some(v);
                } else {
                    let v = self.eval(value, env)?;
                    if matches!(v, V::Undef) {
                        // storing "no value": reading it later is the error, as in a checked run
                        let (e2, _) = bind(env, name, Some(V::Undef));
                        *env = e2;
                    } else {
                        let (e2, _) = bind(env, name, Some(v));
                        *env = e2;
                    }
                }
                Ok(Flow::Next)
            }
            Stmt::Assign { target, op, value } => {
                self.assign(target, *op, value, env)?;
                Ok(Flow::Next)
            }
            Stmt::Expr(e) => {
                self.eval(e, env)?;
                Ok(Flow::Next)
            }
            Stmt::Loop(c, b) => {
                loop {
                    self.tick()?;
                    if let Some(c) = c {
                        let cv = self.eval(c, env)?;
                        if !self.truth(&cv, "loop condition")? {
                            break;
                        }
                    }
                    match self.exec_block(b, env)? {
                        Flow::Next | Flow::Continue => {}
                        Flow::Break => break,
                        Flow::Ret(v) => return Ok(Flow::Ret(v)),
                    }
                }
                Ok(Flow::Next)
            }
            Stmt::Break => Ok(Flow::Break),
            Stmt::Continue => Ok(Flow::Continue),
            Stmt::Ret(None) => Ok(Flow::Ret(V::Nil)),
            Stmt::Ret(Some(e)) => {
                let v = self.eval(e, env)?;
                Ok(Flow::Ret(v))
            }
            Stmt::Unreachable(id) => Err(End::Unreachable(*id)),
            Stmt::Block(b) => self.exec_block(b, env),
            Stmt::Raw(t) => Err(End::Unsupported(format!("raw statement {:?}", t))),
        }
    }

    fn assign(&mut self, target: &Expr, op: Option<BinOp>, value: &Expr, env: &Env) -> R<()> {
        match target {
            Expr::Var(n) => {
                let cell = self.lookup(env, n)?;
                let new = match op {
                    None => self.eval(value, env)?,
                    Some(op) => {
                        if self.order_mask & form_bit(target, true) == 0 {
                            let cur = cell.borrow().clone().ok_or_else(|| End::ScopeError(format!("{:?} used before initialisation", n)))?;
                            let v = self.eval(value, env)?;
                            self.binop(op, &cur, &v)?
                        } else {
                            let v = self.eval(value, env)?;
                            let cur = cell.borrow().clone().ok_or_else(|| End::ScopeError(format!("{:?} used before initialisation", n)))?;
                            self.binop(op, &cur, &v)?
                        }
                    }
                };
                if matches!(new, V::Undef) {
                    return Err(End::TagError("use of the value of a block (or function) that has none".into()));
                }
                if cell.borrow().is_none() {
                    return Err(End::ScopeError(format!("{:?} assigned before it is initialised", n)));
                }
                *cell.borrow_mut() = Some(new);
                Ok(())
            }
            Expr::Field(obj, f) => {
                let (container, v) = if self.order_mask & form_bit(target, op.is_some()) == 0 {
                    let c = self.eval(obj, env)?;
                    let cur = if op.is_some() { Some(self.get_field(&c, f)?) } else { None };
                    let v = self.eval(value, env)?;
                    let v = match (op, cur) {
                        (Some(op), Some(cur)) => self.binop(op, &cur, &v)?,
                        _ => v,
                    };
                    (c, v)
                } else {
                    let v = self.eval(value, env)?;
                    let c = self.eval(obj, env)?;
                    let v = match op {
                        Some(op) => {
                            let cur = self.get_field(&c, f)?;
                            self.binop(op, &cur, &v)?
                        }
                        None => v,
                    };
                    (c, v)
                };
                if matches!(v, V::Undef) {
                    return Err(End::TagError("use of the value of a block (or function) that has none".into()));
                }
                match &container {
                    V::Blob(b) => {
                        let mut fs = b.fields.borrow_mut();
                        match fs.iter_mut().find(|(k, _)| k == f) {
                            Some(slot) => {
                                slot.1 = v;
                                Ok(())
                            }
                            None => Err(End::TagError(format!("assignment to missing field {:?}", f))),
                        }
                    }
                    _ => Err(End::TagError(format!("field assignment on {}", tag(&container)))),
                }
            }
            Expr::Paren(x) => self.assign(x, op, value, env),
            _ => Err(End::Unsupported("assignment target".into())),
        }
    }

    // ----------------------------------------------------------------------------- programs
    /// Evaluates the top level in source order (every global initialiser), then calls `start`.
    pub fn run_program(&mut self, p: &Program) -> End {
        // declare every global first (functions may refer to later globals)
        for t in &p.tops {
            match t {
                Top::Def { name, .. } | Top::External { name, .. } => {
                    self.globals.insert(name.clone(), Rc::new(RefCell::new(None)));
                }
                _ => {}
            }
        }
        // globals are initialised in an order consistent with their dependencies (top-level order is
        // irrelevant in Sylt): a static topological order over the names an initialiser mentions,
        // following global functions it mentions; ties and cycles fall back to source order
        let order = if self.source_order { (0..p.tops.len()).collect() } else { init_order(p) };
        for t in order.iter().map(|i| &p.tops[*i]) {
            match t {
                Top::External { name, .. } => {
                    let b: &'static str = match name.as_str() {
                        "print" => "print",
                        "as_str" => "as_str",
                        "list_push" => "list_push",
                        "xx_len" => "xx_len",
                        _ => return End::Unsupported(format!("external {}", name)),
                    };
                    *self.globals[name].borrow_mut() = Some(V::Builtin(b));
                }
                Top::Def { name, value, .. } => {
                    let v = match self.eval(value, &None) {
                        Ok(v) => v,
                        Err(End::FlowEscape) => return End::TagError("control flow escapes a global initialiser".into()),
                        Err(e) => return e,
                    };
                    *self.globals[name].borrow_mut() = Some(v);
                }
                Top::Raw(t) => {
                    let tt = t.trim();
                    if !(tt.is_empty() || tt.starts_with("//") || tt.starts_with("use ") || tt.starts_with("from ")) {
                        return End::Unsupported(format!("raw top-level {:?}", t));
                    }
                }
                Top::Blob { .. } | Top::Enum { .. } => {}
            }
        }
        let start = match self.globals.get("start").and_then(|c| c.borrow().clone()) {
            Some(s) => s,
            None => return End::ScopeError("no start".into()),
        };
        match self.call(&start, vec![]) {
            Ok(_) => End::Done,
            Err(e) => e,
        }
    }
}

pub fn run_in_source_order(p: &Program, budget: u64) -> Trace {
    let mut it = Interp::new(budget);
    it.source_order = true;
    let end = it.run_program(p);
    Trace { out: it.out, end, unstable_text: it.unstable_text }
}

/// the assignment forms whose evaluation order the language does not fix: compound assignment to a variable,
/// plain / compound assignment to a field of a value (`p.x`), plain / compound assignment through a longer chain
pub fn form_bit(target: &Expr, compound: bool) -> u8 {
    fn depth(e: &Expr) -> usize {
        match e {
            Expr::Field(o, _) => 1 + depth(o),
            Expr::Paren(x) => depth(x),
            _ => 0,
        }
    }
    match (depth(target), compound) {
        (0, _) => 1,
        (1, false) => 2,
        (1, true) => 4,
        (_, false) => 8,
        (_, true) => 16,
    }
}
pub const ORDER_MASKS: u8 = 32;

pub fn run(p: &Program, budget: u64, target_first: bool) -> Trace {
    run_with_order(p, budget, if target_first { 0 } else { ORDER_MASKS - 1 })
}

pub fn run_with_order(p: &Program, budget: u64, order_mask: u8) -> Trace {
    let mut it = Interp::new(budget);
    it.order_mask = order_mask;
    let end = it.run_program(p);
    Trace { out: it.out, end, unstable_text: it.unstable_text }
}

/// Reference trace; None when the program's meaning depends on the order in which an
/// assignment reads its target and evaluates its right-hand side (not fixed by the language).
pub fn reference(p: &Program, budget: u64) -> (Trace, bool) {
    let a = run(p, budget, true);
    if !has_target_sensitive_assign(p) {
        return (a, false);
    }
    let b = run(p, budget, false);
    let ambiguous = a != b;
    (a, ambiguous)
}

/// the traces of every choice of evaluation order per assignment form (see `form_bit`), without repetitions
pub fn reference_all_orders(p: &Program, budget: u64) -> Vec<Trace> {
    let mut out: Vec<Trace> = Vec::new();
    for mask in 0..ORDER_MASKS {
        let t = run_with_order(p, budget, mask);
        if !out.contains(&t) {
            out.push(t);
        }
    }
    out
}

fn has_target_sensitive_assign(p: &Program) -> bool {
    // cheap syntactic test: any compound assignment or field assignment at all
    fn in_expr(e: &Expr) -> bool {
        match e {
            Expr::Bin(_, a, b) => in_expr(a) || in_expr(b),
            Expr::Un(_, a) | Expr::Paren(a) | Expr::Index(a, _) | Expr::Field(a, _) => in_expr(a),
            Expr::Call(f, args, _) => in_expr(f) || args.iter().any(in_expr),
            Expr::Tuple(xs) | Expr::List(xs) => xs.iter().any(in_expr),
            Expr::Blob(_, fs) => fs.iter().any(|(_, x)| in_expr(x)),
            Expr::Variant(_, _, Some(x)) => in_expr(x),
            Expr::If(bs, el) => bs.iter().any(|(c, b)| in_expr(c) || in_block(b)) || el.as_ref().map(|b| in_block(b)).unwrap_or(false),
            Expr::Case(s, arms, el) => in_expr(s) || arms.iter().any(|a| in_block(&a.body)) || el.as_ref().map(|b| in_block(b)).unwrap_or(false),
            Expr::Fn(f) => in_block(&f.body),
            _ => false,
        }
    }
    fn in_block(b: &[Stmt]) -> bool {
        b.iter().any(|s| match s {
            Stmt::Assign { target, op, value } => op.is_some() || !matches!(target, Expr::Var(_)) || in_expr(value),
            Stmt::Def { value, .. } => in_expr(value),
            Stmt::Expr(e) | Stmt::Ret(Some(e)) => in_expr(e),
            Stmt::Loop(c, b) => c.as_ref().map(in_expr).unwrap_or(false) || in_block(b),
            Stmt::Block(b) => in_block(b),
            _ => false,
        })
    }
    p.tops.iter().any(|t| match t {
        Top::Def { value, .. } => in_expr(value),
        _ => false,
    })
}

fn mentioned(e: &Expr, out: &mut Vec<String>) {
    match e {
        Expr::Var(n) => {
            if !out.contains(n) {
                out.push(n.clone());
            }
        }
        Expr::NsVar(_, n) => {
            if !out.contains(n) {
                out.push(n.clone());
            }
        }
        Expr::Bin(_, a, b) => {
            mentioned(a, out);
            mentioned(b, out);
        }
        Expr::Un(_, a) | Expr::Paren(a) | Expr::Index(a, _) | Expr::Field(a, _) => mentioned(a, out),
        Expr::Call(c, args, _) => {
            mentioned(c, out);
            args.iter().for_each(|a| mentioned(a, out));
        }
        Expr::Tuple(xs) | Expr::List(xs) => xs.iter().for_each(|x| mentioned(x, out)),
        Expr::Blob(_, fs) => fs.iter().for_each(|(_, x)| mentioned(x, out)),
        Expr::Variant(_, _, Some(x)) => mentioned(x, out),
        Expr::If(bs, el) => {
            for (c, b) in bs {
                mentioned(c, out);
                mentioned_block(b, out);
            }
            if let Some(b) = el {
                mentioned_block(b, out);
            }
        }
        Expr::Case(sc, arms, el) => {
            mentioned(sc, out);
            for a in arms {
                mentioned_block(&a.body, out);
            }
            if let Some(b) = el {
                mentioned_block(b, out);
            }
        }
        Expr::Fn(f) => mentioned_block(&f.body, out),
        _ => {}
    }
}

fn mentioned_block(b: &[Stmt], out: &mut Vec<String>) {
    for s in b {
        match s {
            Stmt::Def { value, .. } => mentioned(value, out),
            Stmt::Assign { target, value, .. } => {
                mentioned(target, out);
                mentioned(value, out);
            }
            Stmt::Expr(e) | Stmt::Ret(Some(e)) => mentioned(e, out),
            Stmt::Loop(c, b) => {
                if let Some(c) = c {
                    mentioned(c, out);
                }
                mentioned_block(b, out);
            }
            Stmt::Block(b) => mentioned_block(b, out),
            _ => {}
        }
    }
}

/// indices of the tops in initialisation order
fn init_order(p: &Program) -> Vec<usize> {
    let name_of = |t: &Top| -> Option<String> {
        match t {
            Top::Def { name, .. } | Top::External { name, .. } => Some(name.clone()),
            _ => None,
        }
    };
    let index_of = |n: &str| p.tops.iter().position(|t| name_of(t).as_deref() == Some(n));
    // names mentioned by each global (a function literal mentions what its body mentions)
    let deps: Vec<Vec<usize>> = p
        .tops
        .iter()
        .map(|t| match t {
            Top::Def { value, .. } => {
                let mut names = Vec::new();
                mentioned(value, &mut names);
                names.iter().filter_map(|n| index_of(n)).collect()
            }
            _ => Vec::new(),
        })
        .collect();
    let is_fn = |i: usize| matches!(&p.tops[i], Top::Def { value: Expr::Fn(_), .. });
    let mut order = Vec::new();
    let mut state = vec![0u8; p.tops.len()]; // 0 new, 1 visiting, 2 done
    fn visit(i: usize, deps: &[Vec<usize>], is_fn: &dyn Fn(usize) -> bool, state: &mut Vec<u8>, order: &mut Vec<usize>) {
        if state[i] != 0 {
            return;
        }
        state[i] = 1;
        for d in &deps[i] {
            // a function literal is "initialised" by creating the closure: what its body mentions is
            // needed only by whoever calls it, so the edge is followed through, but a function never
            // waits for its own dependants
            if state[*d] == 0 {
                visit(*d, deps, is_fn, state, order);
            }
        }
        state[i] = 2;
        order.push(i);
    }
    // externals and function literals first (creating a closure evaluates nothing)
    for i in 0..p.tops.len() {
        if matches!(&p.tops[i], Top::External { .. }) || is_fn(i) {
            state[i] = 2;
            order.push(i);
        }
    }
    for i in 0..p.tops.len() {
        if matches!(&p.tops[i], Top::Def { .. }) && state[i] == 0 {
            // dependencies through functions: expand transitively
            visit_value(i, &deps, &is_fn, &mut state, &mut order);
        }
    }
    fn visit_value(i: usize, deps: &[Vec<usize>], is_fn: &dyn Fn(usize) -> bool, state: &mut Vec<u8>, order: &mut Vec<usize>) {
        if state[i] != 0 {
            return;
        }
        state[i] = 1;
        // all value globals reachable through mentioned names (following functions)
        let mut seen = vec![false; deps.len()];
        let mut stack: Vec<usize> = deps[i].clone();
        let mut needed = Vec::new();
        while let Some(d) = stack.pop() {
            if seen[d] {
                continue;
            }
            seen[d] = true;
            if is_fn(d) {
                stack.extend(deps[d].iter().cloned());
            } else if d != i {
                needed.push(d);
            }
        }
        needed.sort();
        for d in needed {
            if state[d] == 0 {
                visit_value(d, deps, is_fn, state, order);
            }
        }
        state[i] = 2;
        order.push(i);
    }
    let _ = visit;
    for i in 0..p.tops.len() {
        if state[i] == 0 {
            order.push(i);
        }
    }
    order
}
