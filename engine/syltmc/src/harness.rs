//! Harness around the real compiler: in-memory file map, panic capture, error summaries,
//! deterministic hash seeds (a `getrandom` symbol std picks up for SipHash keys).

use std::cell::Cell;
use std::collections::BTreeMap;
use std::panic::{catch_unwind, AssertUnwindSafe};
use std::path::{Path, PathBuf};
use sylt_common::error::Error;

// ---------------------------------------------------------------------------------------
// seed control: std asks `getrandom` once per thread for the SipHash keys of every HashMap
// created on that thread. We answer from a per-thread seed so that runs are reproducible.
// ---------------------------------------------------------------------------------------
thread_local! {
    pub static THREAD_SEED: Cell<u64> = const { Cell::new(0x9E37_79B9_7F4A_7C15) };
    pub static GETRANDOM_CALLS: Cell<u64> = const { Cell::new(0) };
}

fn splitmix(x: &mut u64) -> u64 {
    *x = x.wrapping_add(0x9E37_79B9_7F4A_7C15);
    let mut z = *x;
    z = (z ^ (z >> 30)).wrapping_mul(0xBF58_476D_1CE4_E5B9);
    z = (z ^ (z >> 27)).wrapping_mul(0x94D0_49BB_1331_11EB);
    z ^ (z >> 31)
}

/// Interposes libc's `getrandom`: deterministic bytes derived from the thread's seed.
#[no_mangle]
pub unsafe extern "C" fn getrandom(buf: *mut u8, len: usize, _flags: u32) -> isize {
    let mut s = THREAD_SEED.with(|c| c.get());
    let calls = GETRANDOM_CALLS.with(|c| {
        let v = c.get();
        c.set(v + 1);
        v
    });
    s ^= calls.wrapping_mul(0xD6E8_FEB8_6659_FD93);
    let mut i = 0;
    while i < len {
        let v = splitmix(&mut s).to_le_bytes();
        let mut j = 0;
        while j < 8 && i < len {
            *buf.add(i) = v[j];
            i += 1;
            j += 1;
        }
    }
    len as isize
}

pub fn set_thread_seed(seed: u64) {
    THREAD_SEED.with(|c| c.set(seed));
}

// ---------------------------------------------------------------------------------------

#[derive(Clone, Debug, PartialEq, Eq, Hash, PartialOrd, Ord)]
pub struct ErrSummary {
    pub kind: &'static str,
    pub file: String,
    pub line: usize,
    pub line_end: usize,
    pub col_start: usize,
    pub col_end: usize,
    /// Debug text with span numbers (deterministic, no file access)
    pub dbg: String,
    /// Display text when rendering was requested
    pub rendered: Option<String>,
}

#[derive(Clone, Debug, PartialEq, Eq)]
pub enum Outcome {
    Ok(Vec<u8>),
    Err { errs: Vec<ErrSummary>, bytes_written: usize },
    Panic { msg: String, bytes_written: usize },
}

impl Outcome {
    pub fn is_ok(&self) -> bool {
        matches!(self, Outcome::Ok(_))
    }
    pub fn is_err(&self) -> bool {
        matches!(self, Outcome::Err { .. })
    }
    pub fn lua(&self) -> Option<&[u8]> {
        match self {
            Outcome::Ok(b) => Some(b),
            _ => None,
        }
    }
    pub fn short(&self) -> String {
        match self {
            Outcome::Ok(b) => format!("Ok({} bytes)", b.len()),
            Outcome::Err { errs, bytes_written } => format!(
                "Err[{}] bytes_written={} first={}",
                errs.len(),
                bytes_written,
                errs.first().map(|e| format!("{}@{}:{}", e.kind, e.file, e.line)).unwrap_or_default()
            ),
            Outcome::Panic { msg, .. } => format!("Panic({})", msg),
        }
    }
}

pub type Files = BTreeMap<String, String>;

pub fn one_file(src: &str) -> Files {
    let mut m = Files::new();
    m.insert("/p/main.sy".to_string(), src.to_string());
    m
}

pub const MAIN: &str = "/p/main.sy";

fn file_name(f: &sylt_common::FileOrLib) -> String {
    match f {
        sylt_common::FileOrLib::File(p) => p.display().to_string(),
        sylt_common::FileOrLib::Lib(l) => format!("<lib:{}>", l),
    }
}

/// (line_start, line_end, col_start, col_end) of a span, whether `Span` exposes them as fields or as accessors of the
/// same names (build.rs looks at the source this crate links against)
#[cfg(span_fields)]
pub fn span_parts(s: &sylt_tokenizer::Span) -> (usize, usize, usize, usize) {
    (s.line_start, s.line_end, s.col_start, s.col_end)
}
#[cfg(not(span_fields))]
pub fn span_parts(s: &sylt_tokenizer::Span) -> (usize, usize, usize, usize) {
    (s.line_start(), s.line_end(), s.col_start(), s.col_end())
}

/// a span's parts as plain fields
#[derive(Clone, Copy, Debug)]
pub struct Sp {
    pub line_start: usize,
    pub line_end: usize,
    pub col_start: usize,
    pub col_end: usize,
}
pub fn sp_of(s: &sylt_tokenizer::Span) -> Sp {
    let (line_start, line_end, col_start, col_end) = span_parts(s);
    Sp { line_start, line_end, col_start, col_end }
}

pub fn summarise(e: &Error, render: bool) -> ErrSummary {
    let (kind, file, span) = match e {
        Error::NoFileGiven => ("NoFileGiven", String::new(), None),
        Error::FileNotFound(p) => ("FileNotFound", p.display().to_string(), None),
        Error::IOError(_) => ("IOError", String::new(), None),
        Error::GitConflictError { file, span } => ("GitConflictError", file_name(file), Some(*span)),
        Error::SyntaxError { file, span, .. } => ("SyntaxError", file_name(file), Some(*span)),
        Error::CompileError { file, span, .. } => ("CompileError", file_name(file), Some(*span)),
        Error::TypeError { file, span, .. } => ("TypeError", file_name(file), Some(*span)),
        Error::RuntimeError => ("RuntimeError", String::new(), None),
        Error::LuaError(_) => ("LuaError", String::new(), None),
    };
    let rendered = if render {
        Some(match catch_unwind(AssertUnwindSafe(|| format!("{}", e))) {
            Ok(s) => s,
            Err(p) => format!("!!RENDER-PANIC!! {}", panic_text(&p)),
        })
    } else {
        None
    };
    let dbg = match catch_unwind(AssertUnwindSafe(|| format!("{:?}", e))) {
        Ok(s) => s,
        Err(p) => format!("!!DEBUG-PANIC!! {}", panic_text(&p)),
    };
    ErrSummary {
        kind,
        file,
        line: span.map(|s| span_parts(&s).0).unwrap_or(0),
        line_end: span.map(|s| span_parts(&s).1).unwrap_or(0),
        col_start: span.map(|s| span_parts(&s).2).unwrap_or(0),
        col_end: span.map(|s| span_parts(&s).3).unwrap_or(0),
        dbg,
        rendered,
    }
}

pub fn panic_text(p: &Box<dyn std::any::Any + Send>) -> String {
    if let Some(s) = p.downcast_ref::<&str>() {
        s.to_string()
    } else if let Some(s) = p.downcast_ref::<String>() {
        s.clone()
    } else {
        "<non-string panic payload>".to_string()
    }
}

thread_local! {
    pub static LAST_PANIC_LOC: std::cell::RefCell<String> = const { std::cell::RefCell::new(String::new()) };
    /// paths asked of the reader during the last compile on this thread
    pub static READ_LOG: std::cell::RefCell<Vec<String>> = const { std::cell::RefCell::new(Vec::new()) };
}

pub fn install_quiet_panic_hook() {
    std::panic::set_hook(Box::new(|info| {
        let loc = info
            .location()
            .map(|l| format!("{}:{}", l.file(), l.line()))
            .unwrap_or_default();
        LAST_PANIC_LOC.with(|c| *c.borrow_mut() = loc);
    }));
}

pub struct CompileOpts<'a> {
    pub no_std: bool,
    pub require: Option<&'a str>,
    pub render: bool,
}

impl Default for CompileOpts<'_> {
    fn default() -> Self {
        CompileOpts { no_std: true, require: None, render: false }
    }
}

/// Run the real compiler on an in-memory project.
pub fn compile_with(files: &Files, main: &str, opts: &CompileOpts) -> Outcome {
    let mut args = sylt::Args::default();
    args.args = vec![main.to_string()];
    args.no_std = opts.no_std;
    args.require = opts.require.map(|s| s.to_string());
    READ_LOG.with(|l| l.borrow_mut().clear());
    let reader = |p: &Path| -> Result<String, Error> {
        let key = p.display().to_string();
        READ_LOG.with(|l| l.borrow_mut().push(key.clone()));
        match files.get(&key) {
            Some(s) => Ok(s.clone()),
            None => Err(Error::FileNotFound(PathBuf::from(p))),
        }
    };
    let mut out: Vec<u8> = Vec::new();
    let res = catch_unwind(AssertUnwindSafe(|| {
        sylt::compile_with_reader_to_writer(&args, reader, &mut out)
    }));
    match res {
        Ok(Ok(())) => Outcome::Ok(out),
        Ok(Err(errs)) => Outcome::Err {
            errs: errs.iter().map(|e| summarise(e, opts.render)).collect(),
            bytes_written: out.len(),
        },
        Err(p) => {
            let loc = LAST_PANIC_LOC.with(|c| c.borrow().clone());
            Outcome::Panic { msg: format!("{} @ {}", panic_text(&p), loc), bytes_written: out.len() }
        }
    }
}

/// lexical normalisation of a path against a virtual working directory
pub fn normalise_path(p: &str, cwd: &str) -> String {
    let joined = if p.starts_with('/') { p.to_string() } else { format!("{}/{}", cwd.trim_end_matches('/'), p) };
    let mut parts: Vec<&str> = Vec::new();
    for c in joined.split('/') {
        match c {
            "" | "." => {}
            ".." => {
                parts.pop();
            }
            x => parts.push(x),
        }
    }
    format!("/{}", parts.join("/"))
}

/// Compile with the main file named the way a user would type it (`main.sy`, `./main.sy`, `p/main.sy`) from a virtual
/// working directory; `files` is keyed by absolute path. Returns the outcome and the log of the paths the compiler
/// asked for (as spelled and normalised).
pub fn compile_spelled(files: &Files, main_spelled: &str, cwd: &str, no_std: bool) -> (Outcome, Vec<(String, String)>) {
    let mut args = sylt::Args::default();
    args.args = vec![main_spelled.to_string()];
    args.no_std = no_std;
    let log: std::cell::RefCell<Vec<(String, String)>> = std::cell::RefCell::new(Vec::new());
    let reader = |p: &Path| -> Result<String, Error> {
        let spelled = p.display().to_string();
        let key = normalise_path(&spelled, cwd);
        log.borrow_mut().push((spelled, key.clone()));
        match files.get(&key) {
            Some(s) => Ok(s.clone()),
            None => Err(Error::FileNotFound(PathBuf::from(p))),
        }
    };
    let mut out: Vec<u8> = Vec::new();
    let res = catch_unwind(AssertUnwindSafe(|| sylt::compile_with_reader_to_writer(&args, reader, &mut out)));
    let o = match res {
        Ok(Ok(())) => Outcome::Ok(out),
        Ok(Err(errs)) => Outcome::Err { errs: errs.iter().map(|e| summarise(e, false)).collect(), bytes_written: out.len() },
        Err(p) => {
            let loc = LAST_PANIC_LOC.with(|c| c.borrow().clone());
            Outcome::Panic { msg: format!("{} @ {}", panic_text(&p), loc), bytes_written: out.len() }
        }
    };
    (o, log.into_inner())
}

pub fn compile(files: &Files, main: &str, no_std: bool) -> Outcome {
    compile_with(files, main, &CompileOpts { no_std, require: None, render: false })
}

pub fn compile_src(src: &str) -> Outcome {
    compile(&one_file(src), MAIN, true)
}

pub fn read_log() -> Vec<String> {
    READ_LOG.with(|l| l.borrow().clone())
}

/// The runtime prefix every emitted chunk starts with (read from the working tree so that
/// an edited preamble is what gets executed).
pub fn preamble_text() -> &'static str {
    use std::sync::OnceLock;
    static P: OnceLock<String> = OnceLock::new();
    P.get_or_init(|| {
        // the emitted prefix is authoritative: compile a trivial program and cut at the marker
        let out = compile_src("start :: fn do\nend\n");
        let bytes = match out {
            Outcome::Ok(b) => b,
            other => panic!("machinery: trivial program does not compile: {}", other.short()),
        };
        let text = String::from_utf8(bytes).expect("machinery: emitted Lua is not UTF-8");
        let marker = "-- End Sylt preamble\n";
        let pos = text.find(marker).expect("machinery: preamble end marker not found");
        text[..pos + marker.len()].to_string()
    })
}

/// Split an emitted chunk into (preamble, program); None if the prefix is not the preamble.
pub fn split_chunk(lua: &[u8]) -> Option<(&[u8], &[u8])> {
    let p = preamble_text().as_bytes();
    if lua.len() >= p.len() && &lua[..p.len()] == p {
        Some((&lua[..p.len()], &lua[p.len()..]))
    } else {
        None
    }
}

pub fn fnv(s: &[u8]) -> u64 {
    let mut h: u64 = 0xcbf29ce484222325;
    for b in s {
        h ^= *b as u64;
        h = h.wrapping_mul(0x100000001b3);
    }
    h
}
