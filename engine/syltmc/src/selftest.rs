//! machinery self-test: printer ↔ real parser, RefSylt on a feature-dense program
use crate::ast::*;
use crate::harness::*;
use crate::refsylt;

pub fn sample() -> Program {
    let mut p = Program::default();
    p.tops.push(Top::External { name: "print".into(), ty: "fn *X -> void".into() });
    p.tops.push(Top::Blob { name: "P".into(), fields: vec![("x".into(), Ty::Int), ("bump".into(), Ty::Fn(vec![], Box::new(Ty::Void)))] });
    p.tops.push(Top::Enum { name: "E".into(), variants: vec![("A".into(), Some(Ty::Int)), ("B".into(), None), ("C".into(), Some(Ty::Tuple(vec![Ty::Int, Ty::Str])))] });
    p.tops.push(Top::Def { name: "g".into(), mutable: true, ty: None, value: int(0) });
    p.tops.push(top_fn("f", vec![("a", Some(Ty::Int)), ("b", Some(Ty::Int))], RetAnn::Ty(Ty::Int), vec![
        def("c", bin(BinOp::Add, var("a"), var("b"))),
        Stmt::Expr(bin(BinOp::Mul, var("c"), int(2))),
    ]));
    p.tops.push(top_fn("fact", vec![("n", Some(Ty::Int))], RetAnn::Ty(Ty::Int), vec![
        Stmt::Expr(if_e(bin(BinOp::Le, var("n"), int(1)), vec![Stmt::Expr(int(1))], Some(vec![Stmt::Expr(bin(BinOp::Mul, var("n"), callv("fact", vec![bin(BinOp::Sub, var("n"), int(1))])))]))),
    ]));
    let bump = lambda(vec![], RetAnn::Void, vec![Stmt::Assign { target: field(var("self"), "x"), op: Some(BinOp::Add), value: int(1) }]);
    p.tops.push(start_fn(vec![
        def("p", Expr::Blob("P".into(), vec![("x".into(), int(1)), ("bump".into(), bump)])),
        Stmt::Expr(call(field(var("p"), "bump"), vec![])),
        print_of(field(var("p"), "x")),
        def("z", if_e(bin(BinOp::Gt, var("g"), int(0)), vec![Stmt::Expr(int(10))], Some(vec![Stmt::Expr(int(20))]))),
        print_of(bin(BinOp::Add, var("z"), callv("f", vec![int(1), int(2)]))),
        def("e", Expr::Variant("E".into(), "A".into(), Some(Box::new(int(3))))),
        def("r", Expr::Case(Box::new(var("e")), vec![
            CaseArm { variant: "A".into(), bind: Some("v".into()), body: vec![print_of(var("v")), Stmt::Expr(bin(BinOp::Add, var("v"), int(1)))] },
            CaseArm { variant: "B".into(), bind: None, body: vec![Stmt::Expr(int(2))] },
        ], Some(vec![Stmt::Expr(int(3))]))),
        print_of(var("r")),
        Stmt::Loop(Some(bin(BinOp::Lt, var("g"), int(3))), vec![
            op_assign("g", BinOp::Add, int(1)),
            Stmt::Expr(if_e(bin(BinOp::Eq, var("g"), int(2)), vec![Stmt::Continue], None)),
            print_of(var("g")),
        ]),
        Stmt::Loop(None, vec![Stmt::Break]),
        Stmt::Block(vec![def("t", Expr::Tuple(vec![int(1), int(2)])), print_of(Expr::Index(Box::new(var("t")), 0))]),
        print_of(callv("fact", vec![int(5)])),
        print_of(Expr::List(vec![int(1), int(2)])),
        print_of(Expr::Tuple(vec![int(1)])),
        print_of(un(UnOp::Neg, bin(BinOp::Add, int(1), int(2)))),
        print_of(un(UnOp::Not, bin(BinOp::Eq, int(1), int(2)))),
        print_of(Expr::Variant("E".into(), "B".into(), None)),
        print_of(Expr::Variant("E".into(), "C".into(), Some(Box::new(Expr::Tuple(vec![int(1), s("z")]))))),
        Stmt::Expr(bin(BinOp::AssertEq, int(1), int(1))),
        print_of(bin(BinOp::Div, int(1), int(2))),
        print_of(bin(BinOp::Mul, Expr::Float(2.0), Expr::Float(0.5))),
        print_of(bin(BinOp::Add, s("a"), s("b"))),
        print_of(bin(BinOp::Lt, Expr::Tuple(vec![int(1), int(2)]), Expr::Tuple(vec![int(1), int(3)]))),
        Stmt::Unreachable(0),
    ]));
    p
}

pub fn run() -> i32 {
    let mut p = sample();
    number_unreachables(&mut p);
    let printed = print_program(&p);
    println!("{}", printed.text);
    let out = compile_src(&printed.text);
    println!("compile: {}", out.short());
    if let Outcome::Err { errs, .. } = &out {
        for e in errs {
            println!("  {}", e.dbg);
        }
    }
    let (t, amb) = refsylt::reference(&p, 100_000);
    println!("reference: {:?} ambiguous={} unreachable_lines={:?}", t, amb, printed.unreachable_lines);
    for f in [0.0, 1.0, 0.5, 1e15, 1e16, 9007199254740992.0, 0.1 + 0.2, 1e100, 2.0000000000018, -0.0, 1e-5, 123456.789e3, 1.0 / 3.0] {
        println!("  {:?} -> {}", f, refsylt::float_text(f));
    }
    if let Outcome::Ok(lua) = &out {
        let t0 = std::time::Instant::now();
        let r = crate::luarun::run_lua(lua, 1_000_000);
        println!("lua: {:?} ({} us)", r, t0.elapsed().as_micros());
        let t0 = std::time::Instant::now();
        for _ in 0..100 {
            let _ = crate::luarun::run_lua(lua, 1_000_000);
        }
        println!("100 runs: {} us each", t0.elapsed().as_micros() / 100);
        println!("traces equal: {}", r.out == t.out);
    }
    if out.is_ok() { 0 } else { 2 }
}

/// Compile every program of the repository's own test corpus and compare acceptance with the
/// `// error:` headers (runtime-only expectations `#` count as "compiles").
pub fn corpus() -> i32 {
    let mut files = Vec::new();
    crate::util::collect_sy(std::path::Path::new("/repo/tests"), &mut files);
    let mut bad = 0;
    let mut n = 0;
    let mut combined: u64 = 0;
    let mut max_locals = (0usize, String::new());
    for f in files {
        let name = f.file_name().unwrap().to_string_lossy().to_string();
        if name.starts_with('_') {
            continue;
        }
        let text = std::fs::read_to_string(&f).unwrap();
        let expected_compile_errors = text.lines().filter(|l| l.starts_with("// error:")).filter(|l| !l["// error:".len()..].trim().starts_with('#')).count();
        // real file system reader: the corpus uses imports
        let mut args = sylt::Args::default();
        args.args = vec![f.display().to_string()];
        let mut out = Vec::new();
        let res = std::panic::catch_unwind(std::panic::AssertUnwindSafe(|| sylt::compile_with_reader_to_writer(&args, sylt::read_file, &mut out)));
        n += 1;
        combined = combined.wrapping_mul(31).wrapping_add(crate::harness::fnv(&out));
        if let Ok(Ok(())) = &res {
            match crate::luarun::loads(&out) {
                Ok(c) => {
                    let m = c.max_active_locals();
                    if m > max_locals.0 {
                        max_locals = (m, f.display().to_string());
                    }
                }
                Err(e) => println!("DOES NOT LOAD {}: {:?}", f.display(), e),
            }
        }
        let got = match &res {
            Ok(Ok(())) => 0,
            Ok(Err(e)) => e.len(),
            Err(_) => usize::MAX,
        };
        if got != expected_compile_errors {
            bad += 1;
            println!("MISMATCH {}: expected {} compile errors, got {}", f.display(), expected_compile_errors, if got == usize::MAX { "panic".to_string() } else { got.to_string() });
        }
    }
    println!("max active locals in one function: {} in {}", max_locals.0, max_locals.1);
    println!("corpus: {} programs, {} mismatches, combined output hash {:016x}", n, bad, combined);
    if bad == 0 { 0 } else { 1 }
}
