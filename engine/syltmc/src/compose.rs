//! Context composer for planted faults (C03, C04, C05, C15): one-hole contexts closed under
//! composition, a fault snippet and its well-typed twin placed in every composition.

use crate::ast::*;

/// contexts around a statement list
#[derive(Clone, Copy)]
pub struct StmtCtx {
    pub name: &'static str,
    pub f: fn(Vec<Stmt>, usize) -> Vec<Stmt>,
    /// the hole is inside a loop body of the same function
    pub in_loop: bool,
    /// the hole is inside a nested function literal
    pub in_closure: bool,
    /// the context itself is legal inside a `pu` function
    pub pure_ok: bool,
}

fn e_a1() -> Expr {
    Expr::Variant("E".into(), "A".into(), Some(Box::new(int(1))))
}

pub const STMT_CTXS: &[StmtCtx] = &[
    StmtCtx { name: "id", f: |b, _| b, in_loop: false, in_closure: false, pure_ok: true },
    StmtCtx { name: "if-then", f: |b, _| vec![Stmt::Expr(if_e(Expr::Bool(true), b, None))], in_loop: false, in_closure: false, pure_ok: true },
    StmtCtx {
        name: "if-else",
        f: |b, d| vec![Stmt::Expr(if_e(Expr::Bool(false), vec![cdef(&format!("z{}", d), int(0))], Some(b)))],
        in_loop: false,
        in_closure: false,
        pure_ok: true,
    },
    StmtCtx {
        name: "elif",
        f: |b, d| vec![Stmt::Expr(Expr::If(vec![(Expr::Bool(false), vec![cdef(&format!("z{}", d), int(0))]), (Expr::Bool(true), b)], None))],
        in_loop: false,
        in_closure: false,
        pure_ok: true,
    },
    StmtCtx {
        name: "loop-body",
        f: |mut b, _| {
            b.push(Stmt::Break);
            vec![Stmt::Loop(None, b)]
        },
        in_loop: true,
        in_closure: false,
        pure_ok: true,
    },
    StmtCtx {
        name: "cond-loop-body",
        f: |mut b, d| {
            let n = format!("i{}", d);
            let mut body = vec![op_assign(&n, BinOp::Add, int(1))];
            body.append(&mut b);
            vec![def(&n, int(0)), Stmt::Loop(Some(bin(BinOp::Lt, var(&n), int(1))), body)]
        },
        in_loop: true,
        in_closure: false,
        pure_ok: false,
    },
    StmtCtx { name: "block", f: |b, _| vec![Stmt::Block(b)], in_loop: false, in_closure: false, pure_ok: true },
    // the statements sit in the block of an if-expression that is the *condition* of a loop: not inside that loop
    StmtCtx {
        name: "loop-condition-block",
        f: |mut b, _| {
            b.push(Stmt::Expr(Expr::Bool(false)));
            vec![Stmt::Loop(Some(if_e(Expr::Bool(true), b, Some(vec![Stmt::Expr(Expr::Bool(false))]))), vec![Stmt::Break])]
        },
        in_loop: false,
        in_closure: false,
        pure_ok: true,
    },
    // ... in the block of an if-expression whose value initialises a constant
    StmtCtx {
        name: "value-block",
        f: |mut b, d| {
            b.push(Stmt::Expr(int(1)));
            vec![cdef(&format!("zv{}", d), if_e(Expr::Bool(true), b, Some(vec![Stmt::Expr(int(2))])))]
        },
        in_loop: false,
        in_closure: false,
        pure_ok: true,
    },
    StmtCtx {
        name: "closure",
        f: |b, d| {
            let n = format!("h{}", d);
            vec![cdef(&n, lambda(vec![], RetAnn::Void, b)), Stmt::Expr(callv(&n, vec![]))]
        },
        in_loop: false,
        in_closure: true,
        pure_ok: false,
    },
    // the statements follow an early `ret` guard / an unconditional `ret` inside a closure of their own: they are
    // still part of the program text and must be checked like any other statement
    StmtCtx {
        name: "closure-after-ret-guard",
        f: |b, d| {
            let n = format!("hg{}", d);
            let mut body = vec![Stmt::Expr(if_e(bin(BinOp::Eq, var("k"), int(8)), vec![Stmt::Ret(None)], None))];
            body.extend(b);
            vec![cdef(&n, lambda(vec![], RetAnn::Void, body)), Stmt::Expr(callv(&n, vec![]))]
        },
        in_loop: false,
        in_closure: true,
        pure_ok: false,
    },
    StmtCtx {
        name: "closure-dead-code-after-ret",
        f: |b, d| {
            let n = format!("hd{}", d);
            let mut body = vec![Stmt::Ret(None)];
            body.extend(b);
            vec![cdef(&n, lambda(vec![], RetAnn::Void, body)), Stmt::Expr(callv(&n, vec![]))]
        },
        in_loop: false,
        in_closure: true,
        pure_ok: false,
    },
    StmtCtx {
        name: "closure-with-param",
        f: |mut b, d| {
            let n = format!("h{}", d);
            let q = format!("q{}", d);
            b.push(Stmt::Expr(var(&q)));
            vec![
                cdef(&n, lambda(vec![(q.as_str(), Some(Ty::Int))], RetAnn::Ty(Ty::Int), b)),
                Stmt::Expr(callv(&n, vec![int(1)])),
            ]
        },
        in_loop: false,
        in_closure: true,
        pure_ok: false,
    },
    StmtCtx {
        name: "case-arm",
        f: |b, d| {
            let v = format!("v{}", d);
            vec![Stmt::Expr(Expr::Case(
                Box::new(e_a1()),
                vec![CaseArm { variant: "A".into(), bind: Some(v), body: b }],
                Some(vec![cdef(&format!("z{}", d), int(0))]),
            ))]
        },
        in_loop: false,
        in_closure: false,
        pure_ok: true,
    },
    StmtCtx {
        name: "case-else",
        f: |b, d| {
            vec![Stmt::Expr(Expr::Case(
                Box::new(e_a1()),
                vec![CaseArm { variant: "B".into(), bind: None, body: vec![cdef(&format!("z{}", d), int(0))] }],
                Some(b),
            ))]
        },
        in_loop: false,
        in_closure: false,
        pure_ok: true,
    },
    StmtCtx {
        name: "pu-closure-after-ret-guard",
        f: |b, d| {
            let n = format!("hp{}", d);
            let q = format!("qp{}", d);
            let mut body = vec![Stmt::Expr(if_e(bin(BinOp::Eq, var(&q), int(8)), vec![Stmt::Ret(Some(int(0)))], None))];
            body.extend(b);
            body.push(Stmt::Expr(var(&q)));
            let f = Expr::Fn(std::sync::Arc::new(FnLit { params: vec![(q.clone(), Some(Ty::Int))], ret: RetAnn::Ty(Ty::Int), body, pure: true }));
            vec![cdef(&n, f), cdef(&format!("yp{}", d), callv(&n, vec![int(1)]))]
        },
        in_loop: false,
        in_closure: true,
        pure_ok: true,
    },
    StmtCtx {
        name: "pu-closure",
        f: |mut b, d| {
            let n = format!("h{}", d);
            let q = format!("q{}", d);
            b.push(Stmt::Expr(var(&q)));
            let f = Expr::Fn(std::sync::Arc::new(FnLit { params: vec![(q.clone(), Some(Ty::Int))], ret: RetAnn::Ty(Ty::Int), body: b, pure: true }));
            vec![cdef(&n, f), cdef(&format!("y{}", d), callv(&n, vec![int(1)]))]
        },
        in_loop: false,
        in_closure: true,
        pure_ok: true,
    },
];

/// contexts around an expression
#[derive(Clone, Copy)]
pub struct ExprCtx {
    pub name: &'static str,
    /// type the hole requires: "any" (any storable type), "int", "bool"
    pub ty: &'static str,
    pub f: fn(Expr, usize) -> Vec<Stmt>,
}

pub const EXPR_CTXS: &[ExprCtx] = &[
    ExprCtx { name: "unused-statement", ty: "any", f: |e, _| vec![Stmt::Expr(e), print_of(int(0))] },
    ExprCtx { name: "unused-last-statement", ty: "any", f: |e, _| vec![print_of(int(0)), Stmt::Expr(e)] },
    ExprCtx { name: "definition", ty: "any", f: |e, d| vec![def(&format!("x{}", d), e)] },
    ExprCtx { name: "const-definition", ty: "any", f: |e, d| vec![cdef(&format!("x{}", d), e)] },
    ExprCtx { name: "print-argument", ty: "any", f: |e, _| vec![print_of(e)] },
    ExprCtx { name: "list-element", ty: "any", f: |e, d| vec![def(&format!("x{}", d), Expr::List(vec![e]))] },
    ExprCtx { name: "tuple-element", ty: "any", f: |e, d| vec![def(&format!("x{}", d), Expr::Tuple(vec![int(1), e]))] },
    ExprCtx { name: "variant-payload", ty: "int", f: |e, d| vec![def(&format!("x{}", d), Expr::Variant("E".into(), "A".into(), Some(Box::new(Expr::Paren(Box::new(e))))))] },
    ExprCtx { name: "blob-field", ty: "int", f: |e, d| vec![def(&format!("x{}", d), Expr::Blob("P".into(), vec![("x".into(), e)]))] },
    ExprCtx { name: "typed-argument", ty: "int", f: |e, _| vec![Stmt::Expr(callv("idi", vec![e]))] },
    ExprCtx { name: "second-argument", ty: "int", f: |e, _| vec![Stmt::Expr(callv("f2", vec![int(1), e]))] },
    ExprCtx { name: "operand-plus", ty: "int", f: |e, _| vec![print_of(bin(BinOp::Add, Expr::Paren(Box::new(e)), int(1)))] },
    ExprCtx { name: "operand-eq", ty: "any", f: |e, d| vec![def(&format!("x{}", d), Expr::Paren(Box::new(e.clone()))), print_of(bin(BinOp::Eq, var(&format!("x{}", d)), Expr::Paren(Box::new(e))))] },
    ExprCtx { name: "assignment-rhs", ty: "int", f: |e, _| vec![assign("m", e)] },
    ExprCtx { name: "if-condition", ty: "bool", f: |e, _| vec![Stmt::Expr(if_e(e, vec![print_of(int(1))], None))] },
    ExprCtx { name: "loop-condition", ty: "bool", f: |e, _| vec![Stmt::Loop(Some(e), vec![Stmt::Break])] },
    ExprCtx { name: "and-operand", ty: "bool", f: |e, _| vec![print_of(bin(BinOp::And, Expr::Bool(true), Expr::Paren(Box::new(e))))] },
    ExprCtx { name: "if-branch-value", ty: "any", f: |e, d| vec![def(&format!("x{}", d), if_e(Expr::Bool(true), vec![Stmt::Expr(e.clone())], Some(vec![Stmt::Expr(e)])))] },
    ExprCtx {
        name: "closure-result",
        ty: "any",
        f: |e, d| {
            let n = format!("r{}", d);
            vec![cdef(&n, lambda(vec![], RetAnn::Implied, vec![Stmt::Expr(e)])), def(&format!("x{}", d), callv(&n, vec![]))]
        },
    },
    ExprCtx {
        name: "ret-value",
        ty: "any",
        f: |e, d| {
            let n = format!("r{}", d);
            vec![cdef(&n, lambda(vec![], RetAnn::Implied, vec![Stmt::Ret(Some(e))])), def(&format!("x{}", d), callv(&n, vec![]))]
        },
    },
];

#[derive(Clone, Copy, Debug, PartialEq)]
pub enum Placement {
    StartBody,
    CalledFn,
    UncalledFn,
    Method,
    /// body of a global `pu` function called from start
    PureFn,
    /// body of a `pu` closure defined and called in start
    PureClosure,
    /// expression snippets only: `gg :: <expr>` at top level
    GlobalInit,
}

pub const PLACEMENTS: &[Placement] = &[Placement::StartBody, Placement::CalledFn, Placement::UncalledFn, Placement::Method];

pub fn prelude() -> Vec<Top> {
    vec![
        Top::External { name: "print".into(), ty: "fn *X -> void".into() },
        Top::Blob { name: "P".into(), fields: vec![("x".into(), Ty::Int)] },
        Top::Blob { name: "M".into(), fields: vec![("go".into(), Ty::Fn(vec![], Box::new(Ty::Void)))] },
        Top::Enum { name: "E".into(), variants: vec![("A".into(), Some(Ty::Int)), ("B".into(), None)] },
        top_fn("idi", vec![("q", Some(Ty::Int))], RetAnn::Ty(Ty::Int), vec![Stmt::Expr(var("q"))]),
        top_fn("idb", vec![("q", Some(Ty::Bool))], RetAnn::Ty(Ty::Bool), vec![Stmt::Expr(var("q"))]),
        top_fn("ids", vec![("q", Some(Ty::Str))], RetAnn::Ty(Ty::Str), vec![Stmt::Expr(var("q"))]),
        top_fn("f2", vec![("a", Some(Ty::Int)), ("b", Some(Ty::Int))], RetAnn::Ty(Ty::Int), vec![Stmt::Expr(var("a"))]),
        Top::Def { name: "idp".into(), mutable: false, ty: None, value: Expr::Fn(std::sync::Arc::new(FnLit { params: vec![("q".to_string(), Some(Ty::Int))], ret: RetAnn::Ty(Ty::Int), body: vec![Stmt::Expr(var("q"))], pure: true })) },
        top_fn("app", vec![("cb", Some(Ty::PuFn(vec![Ty::Int], Box::new(Ty::Int))))], RetAnn::Ty(Ty::Int), vec![Stmt::Expr(callv("cb", vec![int(1)]))]),
        Top::Blob { name: "PF".into(), fields: vec![("f".into(), Ty::PuFn(vec![Ty::Int], Box::new(Ty::Int)))] },
        Top::Def { name: "k".into(), mutable: false, ty: None, value: int(7) },
        Top::Def { name: "m".into(), mutable: true, ty: None, value: int(0) },
        // a mutable global that holds a pure function
        Top::Def { name: "mfp".into(), mutable: true, ty: None, value: Expr::Fn(std::sync::Arc::new(FnLit { params: vec![("q".to_string(), Some(Ty::Int))], ret: RetAnn::Ty(Ty::Int), body: vec![Stmt::Expr(var("q"))], pure: true })) },
    ]
}

/// wrap `stmts` through the context path (innermost first) and place the result
pub fn build(prelude: &[Top], path: &[usize], placement: Placement, stmts: Vec<Stmt>) -> Program {
    let mut b = stmts;
    for (d, ci) in path.iter().enumerate() {
        b = (STMT_CTXS[*ci].f)(b, d + 1);
    }
    let mut tops = prelude.to_vec();
    match placement {
        Placement::StartBody => tops.push(start_fn(b)),
        Placement::CalledFn => {
            tops.push(top_fn("work", vec![], RetAnn::Void, b));
            tops.push(start_fn(vec![Stmt::Expr(callv("work", vec![]))]));
        }
        Placement::UncalledFn => {
            tops.push(top_fn("work", vec![], RetAnn::Void, b));
            tops.push(start_fn(vec![print_of(int(0))]));
        }
        Placement::Method => {
            tops.push(start_fn(vec![
                def("mm", Expr::Blob("M".into(), vec![("go".into(), lambda(vec![], RetAnn::Void, b))])),
                Stmt::Expr(call(field(var("mm"), "go"), vec![])),
            ]));
        }
        Placement::PureFn => {
            let mut body = b;
            body.push(Stmt::Expr(var("q")));
            let f = Expr::Fn(std::sync::Arc::new(FnLit { params: vec![("q".to_string(), Some(Ty::Int))], ret: RetAnn::Ty(Ty::Int), body, pure: true }));
            tops.push(Top::Def { name: "work".into(), mutable: false, ty: None, value: f });
            tops.push(start_fn(vec![print_of(callv("work", vec![int(1)]))]));
        }
        Placement::PureClosure => {
            let mut body = b;
            body.push(Stmt::Expr(var("q")));
            let f = Expr::Fn(std::sync::Arc::new(FnLit { params: vec![("q".to_string(), Some(Ty::Int))], ret: RetAnn::Ty(Ty::Int), body, pure: true }));
            tops.push(start_fn(vec![cdef("pc", f), print_of(callv("pc", vec![int(1)]))]));
        }
        Placement::GlobalInit => unreachable!(),
    }
    Program { tops }
}

pub fn build_global_init(prelude: &[Top], e: Expr) -> Program {
    let mut tops = prelude.to_vec();
    tops.push(Top::Def { name: "gg".into(), mutable: false, ty: None, value: e });
    tops.push(start_fn(vec![print_of(int(0))]));
    Program { tops }
}

pub fn path_name(path: &[usize]) -> String {
    path.iter().rev().map(|c| STMT_CTXS[*c].name).collect::<Vec<_>>().join(">")
}

/// all context paths of length <= depth (each entry indexes STMT_CTXS; "id" only as the empty path)
pub fn paths(depth: usize) -> Vec<Vec<usize>> {
    let mut out = vec![vec![]];
    let mut frontier = vec![vec![]];
    for _ in 0..depth {
        let mut next = Vec::new();
        for p in &frontier {
            for ci in 1..STMT_CTXS.len() {
                let mut q: Vec<usize> = p.clone();
                q.push(ci);
                next.push(q);
            }
        }
        out.extend(next.iter().cloned());
        frontier = next;
    }
    out
}
