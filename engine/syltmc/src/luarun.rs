//! Running emitted chunks under MiniLua (the stand-in for lua5.3) and classifying the result.

use crate::harness::*;
use std::sync::OnceLock;

#[derive(Clone, Debug, PartialEq)]
pub enum LuaEnd {
    Done,
    AssertFailed,
    /// `<!>` reached; the line number inside the message
    Unreachable(usize),
    /// other `!!CRASH!!` (unimplemented std function)
    Crash(String),
    /// any other run-time error: message
    RuntimeError(String),
    Budget,
    StackOverflow,
    LoadError(String),
    /// the emitted text does not start with the runtime preamble
    NoPreamble,
}

#[derive(Clone, Debug, PartialEq)]
pub struct LuaRun {
    pub out: Vec<String>,
    pub end: LuaEnd,
}

fn preamble_chunk() -> &'static minilua::Chunk {
    static C: OnceLock<minilua::Chunk> = OnceLock::new();
    C.get_or_init(|| match minilua::load(preamble_text().as_bytes(), "preamble") {
        Ok(c) => c,
        Err(e) => {
            eprintln!("MACHINERY: the runtime preamble does not load under MiniLua: line {}: {}", e.line, e.msg);
            std::process::exit(2);
        }
    })
}

pub fn load_program(lua: &[u8]) -> Result<minilua::Chunk, LuaEnd> {
    let (_, prog) = match split_chunk(lua) {
        Some(x) => x,
        None => return Err(LuaEnd::NoPreamble),
    };
    minilua::load(prog, "stdin").map_err(|e| LuaEnd::LoadError(format!("line {}: {}", e.line, e.msg)))
}

/// load only (C06 oracle)
pub fn loads(lua: &[u8]) -> Result<minilua::Chunk, LuaEnd> {
    let _ = preamble_chunk();
    load_program(lua)
}

pub fn classify(e: &minilua::LuaError) -> LuaEnd {
    match e.kind {
        minilua::ErrorKind::Budget => LuaEnd::Budget,
        minilua::ErrorKind::StackOverflow => LuaEnd::StackOverflow,
        _ => {
            let m = &e.msg;
            if m.contains("Assert failed!") {
                LuaEnd::AssertFailed
            } else if m.contains("!!CRASH!!") && m.to_lowercase().contains("unreachable") {
                // a reached `<!>`: the source line is the last number of the message, whatever its wording
                let p = m.find("!!CRASH!!").unwrap();
                let last = m[p..].split(|c: char| !c.is_ascii_digit()).filter(|x| !x.is_empty()).last().map(|x| x.to_string());
                LuaEnd::Unreachable(last.and_then(|d| d.parse().ok()).unwrap_or(0))
            } else if m.contains("!!CRASH!!") {
                LuaEnd::Crash(m.clone())
            } else if m.contains("stack overflow") {
                LuaEnd::StackOverflow
            } else {
                LuaEnd::RuntimeError(m.clone())
            }
        }
    }
}

pub fn run_chunk(prog: &minilua::Chunk, budget: u64) -> LuaRun {
    let mut lua = minilua::Lua::new();
    lua.enable_compat_5_2();
    lua.set_budget(budget);
    lua.set_max_call_depth(150);
    if let Err(e) = lua.run(preamble_chunk()) {
        eprintln!("MACHINERY: the runtime preamble fails under MiniLua: {}", e.msg);
        std::process::exit(2);
    }
    let end = match lua.run(prog) {
        Ok(()) => LuaEnd::Done,
        Err(e) => classify(&e),
    };
    let out = lua.take_output();
    let text = String::from_utf8_lossy(&out).to_string();
    let mut lines: Vec<String> = text.split('\n').map(|s| s.to_string()).collect();
    if lines.last().map(|l| l.is_empty()).unwrap_or(false) {
        lines.pop();
    }
    LuaRun { out: lines, end }
}

pub fn run_lua(lua: &[u8], budget: u64) -> LuaRun {
    match loads(lua) {
        Ok(c) => run_chunk(&c, budget),
        Err(e) => LuaRun { out: vec![], end: e },
    }
}
