//! Planted-fault engines (C03, C04, C05): every fault snippet in every composed context must be
//! rejected with an error and no output; its well-typed twin in the same context must be accepted.

use crate::ast::*;
use crate::compose::*;
use crate::harness::*;
use crate::report::{Failure, Run, Stats};
use serde_json::json;
use std::sync::atomic::AtomicBool;

#[derive(Clone, Copy, Debug)]
pub enum Kind {
    /// expression of the given hole type ("any" | "int" | "bool")
    E(&'static str),
    /// statement(s)
    S,
    /// statement(s) that must sit directly in a function body that is not inside any loop
    SNoLoop,
    /// statement(s) placed inside a `pu` function (pure placements, pure-legal contexts only)
    SPure,
}

use std::borrow::Cow;

#[derive(Clone, Debug)]
pub struct Snip {
    pub id: Cow<'static, str>,
    pub kind: Kind,
    pub fault: Cow<'static, str>,
    pub twin: Cow<'static, str>,
}

impl Snip {
    pub fn owned(id: String, kind: Kind, fault: String, twin: String) -> Snip {
        Snip { id: Cow::Owned(id), kind, fault: Cow::Owned(fault), twin: Cow::Owned(twin) }
    }
}

pub const fn e(id: &'static str, ty: &'static str, fault: &'static str, twin: &'static str) -> Snip {
    Snip { id: Cow::Borrowed(id), kind: Kind::E(ty), fault: Cow::Borrowed(fault), twin: Cow::Borrowed(twin) }
}
pub const fn st(id: &'static str, fault: &'static str, twin: &'static str) -> Snip {
    Snip { id: Cow::Borrowed(id), kind: Kind::S, fault: Cow::Borrowed(fault), twin: Cow::Borrowed(twin) }
}
pub const fn sp(id: &'static str, fault: &'static str, twin: &'static str) -> Snip {
    Snip { id: Cow::Borrowed(id), kind: Kind::SPure, fault: Cow::Borrowed(fault), twin: Cow::Borrowed(twin) }
}
pub const fn snl(id: &'static str, fault: &'static str, twin: &'static str) -> Snip {
    Snip { id: Cow::Borrowed(id), kind: Kind::SNoLoop, fault: Cow::Borrowed(fault), twin: Cow::Borrowed(twin) }
}

pub const C03_SNIPS: &[Snip] = &[
    e("int+str", "int", "1 + \"a\"", "1 + 2"),
    e("str+int", "any", "\"a\" + 1", "\"a\" + \"b\""),
    e("str-str", "any", "\"a\" - \"b\"", "\"a\" + \"b\""),
    e("str*str", "any", "\"a\" * \"b\"", "\"a\" + \"b\""),
    e("int*float", "int", "2 * 1.5", "2 * 3"),
    e("int==float", "bool", "1 == 1.0", "1 == 1"),
    e("int!=str", "bool", "1 != \"a\"", "1 != 2"),
    e("int<str", "bool", "1 < \"a\"", "1 < 2"),
    e("str<=int", "bool", "\"a\" <= 1", "\"a\" <= \"b\""),
    e("bool<bool", "bool", "true < false", "1 < 2"),
    e("not-int", "bool", "not 1", "not true"),
    e("int-and-bool", "bool", "1 and true", "false and true"),
    e("bool-or-str", "bool", "true or \"a\"", "true or false"),
    e("neg-str", "any", "-\"a\"", "\"a\""),
    e("neg-bool", "bool", "-true", "true"),
    e("tuple-len-add", "any", "(1, 2) + (1,)", "(1, 2) + (1, 2)"),
    e("tuple-elem-add", "any", "(1, 2) + (1, \"a\")", "(1, 2) + (1, 2)"),
    e("list+list", "any", "[1] + [2]", "[1]"),
    e("too-few-args", "int", "f2(1)", "f2(1, 2)"),
    e("too-many-args", "int", "f2(1, 2, 3)", "f2(1, 2)"),
    e("wrong-arg-type", "int", "f2(\"a\", 1)", "f2(1, 2)"),
    e("wrong-arg-type-2", "int", "idi(true)", "idi(1)"),
    e("hetero-list", "any", "[1, \"a\"]", "[1, 2]"),
    e("hetero-list-nested", "any", "[(1, 2), (1, \"a\")]", "[(1, 2), (1, 3)]"),
    e("call-int", "int", "1()", "1"),
    e("call-str", "any", "\"a\"(1)", "\"a\""),
    e("call-tuple", "any", "(1, 2)()", "(1, 2)"),
    e("field-type", "any", "P { x: \"a\" }", "P { x: 1 }"),
    e("variant-payload-type", "any", "(E.A \"a\")", "(E.A 1)"),
    e("if-cond-int", "int", "(if 1 do 1 else 2 end)", "(if true do 1 else 2 end)"),
    e("if-branches-differ", "int", "(if true do 1 else \"a\" end)", "(if true do 1 else 2 end)"),
    e("div-str", "any", "1 / \"a\"", "1 / 2"),
    e("index-non-tuple", "int", "k[0]", "(k, 1)[0]"),
    e("field-of-int", "int", "k.x", "P { x: k }.x"),
    e("lambda-arg", "int", "(fn q: int -> int\n q + 1\n end)(\"a\")", "(fn q: int -> int\n q + 1\n end)(1)"),
    e("lambda-body", "any", "fn q: int -> int\n q + \"a\"\n end", "fn q: int -> int\n q + 1\n end"),
    st("annot-var", "w: int = \"a\"", "w: int = 1"),
    st("annot-list", "w: [int] = [1.0]", "w: [int] = [1]"),
    st("annot-tuple", "w: (int, str) = (1, 2)", "w: (int, str) = (1, \"a\")"),
    st("annot-fn", "w: fn int -> int = fn q: str -> int\n 1\n end", "w: fn int -> int = fn q: int -> int\n 1\n end"),
    st("ret-contradiction", "w :: fn q: int -> str\n q\n end", "w :: fn q: int -> int\n q\n end"),
    st("ret-two-types", "w :: fn q: int ->\n if q == 0 do ret 1 end\n ret \"a\"\n end", "w :: fn q: int ->\n if q == 0 do ret 1 end\n ret 2\n end"),
    st("ret-in-if-contradiction", "w :: fn q: int -> int\n if q == 0 do ret \"a\" end\n ret 2\n end", "w :: fn q: int -> int\n if q == 0 do ret 1 end\n ret 2\n end"),
    st("ret-in-else-contradiction", "w :: fn q: int -> int\n if q == 0 do ret 1 else do ret \"a\" end\n end", "w :: fn q: int -> int\n if q == 0 do ret 1 else do ret 3 end\n end"),
    st("ret-in-loop-contradiction", "w :: fn q: int -> int\n loop do ret \"a\" end\n ret 2\n end", "w :: fn q: int -> int\n loop do ret 1 end\n ret 2\n end"),
    st("ret-in-case-contradiction", "w :: fn q: int -> int\n case E.B do\n B -> ret \"a\" end\n else end\n end\n ret 2\n end", "w :: fn q: int -> int\n case E.B do\n B -> ret 1 end\n else end\n end\n ret 2\n end"),
    st("ret-in-case-else-contradiction", "w :: fn q: int -> int\n case E.B do\n A v -> do end\n else do\n ret \"a\"\n end\n end\n ret 2\n end", "w :: fn q: int -> int\n case E.B do\n A v -> do end\n else do\n ret 1\n end\n end\n ret 2\n end"),
    st("ret-in-elif-contradiction", "w :: fn q: int -> int\n if q == 0 do\n zz :: 1\n elif q == 1 do\n ret \"a\"\n end\n ret 2\n end", "w :: fn q: int -> int\n if q == 0 do\n zz :: 1\n elif q == 1 do\n ret 1\n end\n ret 2\n end"),
    st("ret-in-nested-block-contradiction", "w :: fn q: int -> int\n do\n loop q > 0 do\n if q == 1 do\n ret \"a\"\n end\n break\n end\n end\n ret 2\n end", "w :: fn q: int -> int\n do\n loop q > 0 do\n if q == 1 do\n ret 1\n end\n break\n end\n end\n ret 2\n end"),
    st("ret-in-and-operand-branch", "w :: fn q: int -> int\n zz :: q == 0 and (if q == 1 do\n ret \"a\"\n else do\n true\n end)\n ret 2\n end", "w :: fn q: int -> int\n zz :: q == 0 and (if q == 1 do\n ret 1\n else do\n true\n end)\n ret 2\n end"),
    st("ret-in-argument-branch", "w :: fn q: int -> int\n print((if q == 1 do\n ret \"a\"\n else do\n 5\n end))\n ret 2\n end", "w :: fn q: int -> int\n print((if q == 1 do\n ret 1\n else do\n 5\n end))\n ret 2\n end"),
    st("ret-void-fn-value", "w :: fn q: int do\n if q == 0 do ret 1 end\n end", "w :: fn q: int do\n if q == 0 do ret end\n end"),
    st("param-contradiction", "w :: fn q: str -> int\n q + 1\n end", "w :: fn q: int -> int\n q + 1\n end"),
    st("void-in-var", "w := print(1)", "print(1)"),
    st("void-if-in-var", "w := if true do print(1) end", "if true do print(1) end"),
    st("void-arg", "print(print(1))", "print(1)"),
    st("loop-cond-str", "loop \"a\" do break end", "loop true do break end"),
    st("if-cond-int-stmt", "if 1 do print(1) end", "if true do print(1) end"),
    st("assign-wrong-type", "m = \"a\"", "m = 1"),
    st("assign-wrong-type-local", "w := 1\nw = \"a\"", "w := 1\nw = 2"),
    st("opassign-wrong-type", "m += \"a\"", "m += 1"),
    st("opassign-str-minus", "w := \"a\"\nw -= \"b\"", "w := \"a\"\nw += \"b\""),
    st("field-assign-type", "w := P { x: 1 }\nw.x = \"a\"", "w := P { x: 1 }\nw.x = 2"),
    st("use-then-contradict", "w := [1]\nu: [str] = w", "w := [1]\nu: [int] = w"),
    st("assert-mixed", "1 <=> \"a\"", "1 <=> 1"),
    st("case-on-int", "case 1 do\n A q -> print(q) end\n else print(0) end\n end", "case E.A 1 do\n A q -> print(q) end\n else print(0) end\n end"),
];

fn snippet_stmts(text: &str) -> Vec<Stmt> {
    vec![Stmt::Raw(text.to_string())]
}

pub struct Case {
    pub snip: usize,
    pub path: Vec<usize>,
    pub placement: Placement,
    pub ectx: Option<usize>,
}

pub fn programs(snips: &[Snip], prelude: &[Top], c: &Case) -> (Program, Program) {
    let sn = &snips[c.snip];
    let mk = |text: &str| -> Program {
        match (sn.kind, c.ectx) {
            (Kind::E(_), Some(ei)) => {
                let stmts = (EXPR_CTXS[ei].f)(Expr::Raw(text.to_string()), 0);
                build(prelude, &c.path, c.placement, stmts)
            }
            (Kind::E(_), None) => build_global_init(prelude, Expr::Raw(text.to_string())),
            (_, _) => {
                let mut b = snippet_stmts(text);
                if !matches!(sn.kind, Kind::SNoLoop) {
                    b.push(Stmt::Raw("zq :: 0".into()));
                }
                build(prelude, &c.path, c.placement, b)
            }
        }
    };
    (mk(&sn.fault), mk(&sn.twin))
}

pub fn enumerate(snips: &[Snip], depth: usize, path_filter: &dyn Fn(&Snip, &[usize]) -> bool) -> Vec<Case> {
    let ps = paths(depth);
    let mut out = Vec::new();
    for (si, sn) in snips.iter().enumerate() {
        if let Kind::E(_) = sn.kind {
            out.push(Case { snip: si, path: vec![], placement: Placement::GlobalInit, ectx: None });
        }
        for p in &ps {
            if !path_filter(sn, p) {
                continue;
            }
            let pure = matches!(sn.kind, Kind::SPure);
            if pure && p.iter().any(|c| !STMT_CTXS[*c].pure_ok) {
                continue;
            }
            // `pu` closures are legal around statements that are themselves pure (break / continue)
            if !pure && !matches!(sn.kind, Kind::SNoLoop) && p.iter().any(|c| STMT_CTXS[*c].name.starts_with("pu-closure")) {
                continue;
            }
            if matches!(sn.kind, Kind::SNoLoop) {
                // everything inside a `pu` closure must itself be legal in pure code
                if let Some(j) = p.iter().rposition(|c| STMT_CTXS[*c].name.starts_with("pu-closure")) {
                    if p[..j].iter().any(|c| !STMT_CTXS[*c].pure_ok) {
                        continue;
                    }
                }
            }
            if matches!(sn.kind, Kind::SNoLoop) && p.iter().any(|c| STMT_CTXS[*c].in_loop) {
                // only loops of the *same* function count; a closure in between re-opens the question,
                // which the engine-specific filter decides
            }
            let placements: &[Placement] = if pure { &[Placement::PureFn, Placement::PureClosure] } else { PLACEMENTS };
            for pl in placements {
                match sn.kind {
                    Kind::E(ty) => {
                        for (ei, ec) in EXPR_CTXS.iter().enumerate() {
                            if ec.ty == "any" || ec.ty == ty {
                                out.push(Case { snip: si, path: p.clone(), placement: *pl, ectx: Some(ei) });
                            }
                        }
                    }
                    _ => out.push(Case { snip: si, path: p.clone(), placement: *pl, ectx: None }),
                }
            }
        }
    }
    out
}

pub struct Judged {
    pub fail: Option<(String, String)>,
    pub control_ok: bool,
    pub fault_outcome: String,
    pub fault_text: String,
}

pub fn judge_texts(fault_text: &str, twin_text: &str) -> Judged {
    let fo = compile_src(fault_text);
    let to = compile_src(twin_text);
    let control_ok = to.is_ok();
    let mut fail = None;
    // the accepted twin must also be loadable Lua (second observation of C05; C06's invariant)
    if let Outcome::Ok(lua) = &to {
        if let Err(e) = crate::luarun::loads(lua) {
            return Judged { fail: Some(("accepted-twin-does-not-load".to_string(), format!("{:?}\n{}", e, twin_text))), control_ok, fault_outcome: "twin-does-not-load".into(), fault_text: twin_text.to_string() };
        }
    }
    let fault_outcome;
    match &fo {
        Outcome::Ok(_) => {
            // an accepted fault is a violation whatever happens to the control (a rejected control only makes a
            // *rejection* of the fault uninformative)
            fault_outcome = "accepted".to_string();
            fail = Some(("accepted-fault".to_string(), format!("the compiler accepted{}:\n{}", if control_ok { "" } else { " (and rejected the permitted twin)" }, fault_text)));
        }
        Outcome::Panic { msg, .. } => {
            fault_outcome = "panic".to_string();
            fail = Some(("panic-on-fault".to_string(), format!("panic {} on:\n{}", msg, fault_text)));
        }
        Outcome::Err { errs, bytes_written } => {
            if errs.is_empty() {
                fault_outcome = "empty-error-list".to_string();
                fail = Some(("rejected-without-error".to_string(), fault_text.to_string()));
            } else if *bytes_written > 0 {
                fault_outcome = "bytes-written".to_string();
                fail = Some(("lua-written-on-error".to_string(), format!("{} bytes of Lua were written although compilation failed:\n{}", bytes_written, fault_text)));
            } else {
                fault_outcome = format!("rejected:{}", errs[0].kind);
            }
        }
    }
    Judged { fail, control_ok, fault_outcome, fault_text: fault_text.to_string() }
}

/// `name` occurs in `text` as a whole identifier
fn mentions(text: &str, name: &str) -> bool {
    let mut from = 0;
    while let Some(p) = text[from..].find(name) {
        let s = from + p;
        let e = s + name.len();
        let before_ok = s == 0 || !text[..s].chars().last().map(|c| c.is_alphanumeric() || c == '_').unwrap_or(false);
        let after_ok = e >= text.len() || !text[e..].chars().next().map(|c| c.is_alphanumeric() || c == '_').unwrap_or(false);
        if before_ok && after_ok {
            return true;
        }
        from = e;
    }
    false
}

pub fn run_faults(run: &mut Run, snips: &[Snip], prelude: fn() -> Vec<Top>, depth: usize, engine: &'static str,
                  path_filter: &(dyn Fn(&Snip, &[usize]) -> bool + Sync),
                  preds: &(dyn Fn(&Snip, &Case) -> Vec<String> + Sync)) {
    let cases = enumerate(snips, depth, path_filter);
    let stop = AtomicBool::new(false);
    let _ = &stop;
    let accs = crate::pool::par_items(&cases, 64, |_| Stats::new(), |acc, i, c| {
        let mut prelude = prelude();
        // helper definitions (raw tops) that the snippet does not mention are left out
        let sn0 = &snips[c.snip];
        prelude.retain(|t| match t {
            Top::Raw(text) => {
                let name = text.split(" ::").next().unwrap_or("");
                mentions(&sn0.fault, name) || mentions(&sn0.twin, name) || (name == "FB" && (mentions(&sn0.fault, "FA") || mentions(&sn0.fault, "FE"))) || (name.starts_with("hop") && !name.starts_with("hop2_") && mentions(&sn0.fault, &format!("hop2_{}", &name[3..])))
            }
            _ => true,
        });
        let (fp, tp) = programs(snips, &prelude, c);
        let ft = print_program(&fp).text;
        let tt = print_program(&tp).text;
        let j = judge_texts(&ft, &tt);
        acc.evaluations += 2;
        let sn = &snips[c.snip];
        if !j.control_ok && j.fail.is_none() {
            acc.count("control_rejected(case not counted)", 1);
            acc.count(&format!("control_rejected@{}/{:?}/{}", path_name(&c.path), c.placement, c.ectx.map(|e| EXPR_CTXS[e].name).unwrap_or("-")), 1);
            if acc.samples.len() < 3 {
                acc.sample(json!({"control_rejected": tt}));
            }
            return;
        }
        if j.fault_outcome == "rejected:SyntaxError" {
            acc.count("fault_is_syntax_error(machinery)", 1);
            acc.count(&format!("syntax_error:{}", sn.id), 1);
            return;
        }
        acc.nontrivial(fnv(ft.as_bytes()));
        acc.outcome(&j.fault_outcome);
        if std::env::var("VERIF_VERBOSE").is_ok() {
            acc.count(&format!("verified:{}", sn.id), 1);
        }
        if i % 7919 == 0 {
            acc.sample(json!({"snippet": sn.id, "context": path_name(&c.path), "placement": format!("{:?}", c.placement), "expr_ctx": c.ectx.map(|e| EXPR_CTXS[e].name), "program": ft}));
        }
        if let Some((sig, detail)) = j.fail {
            let mut files = serde_json::Map::new();
            files.insert(MAIN.to_string(), json!(ft));
            acc.fail(Failure {
                sig,
                preds: preds(sn, c),
                detail,
                case: json!({"engine": engine, "snippet": sn.id, "context": path_name(&c.path), "placement": format!("{:?}", c.placement),
                             "expr_ctx": c.ectx.map(|e| EXPR_CTXS[e].name), "files": files, "twin": tt}),
                size: ft.len() + c.path.len() * 1000,
            });
        }
    });
    run.stats = Stats::merge_all(accs);
    run.bounds = json!({"context_depth": depth, "statement_contexts": STMT_CTXS.iter().map(|c| c.name).collect::<Vec<_>>(),
        "expression_contexts": EXPR_CTXS.iter().map(|c| c.name).collect::<Vec<_>>(), "snippets": snips.iter().map(|s| s.id.to_string()).collect::<Vec<_>>(), "cases": cases.len()});
}

/// operator mismatches between two literals: (id, operator, left, right, well-typed left, well-typed right)
const OP_MISMATCHES: &[(&str, &str, &str, &str, &str, &str)] = &[
    ("int+str", "+", "1", "\"a\"", "1", "2"),
    ("str+int", "+", "\"a\"", "1", "\"a\"", "\"b\""),
    ("str-str", "-", "\"a\"", "\"b\"", "3", "2"),
    ("str*str", "*", "\"a\"", "\"b\"", "3", "2"),
    ("int*float", "*", "2", "1.5", "2", "3"),
    ("int/str", "/", "1", "\"a\"", "1", "2"),
    ("int==float", "==", "1", "1.0", "1", "1"),
    ("int!=str", "!=", "1", "\"a\"", "1", "2"),
    ("int<str", "<", "1", "\"a\"", "1", "2"),
    ("bool<bool", "<", "true", "false", "1", "2"),
    ("int-and-bool", "and", "1", "true", "false", "true"),
    ("bool-or-str", "or", "true", "\"a\"", "true", "false"),
];
const UN_MISMATCHES: &[(&str, &str, &str, &str)] = &[("not-int", "not ", "1", "true"), ("neg-str", "-", "\"a\"", "1"), ("neg-bool", "-", "true", "1")];

/// the hand-written snippets plus, for every operator mismatch, the same mismatch reached through one hop that the
/// checker has to infer through: an untyped helper function (literal and variable arguments), two variables, the
/// elements of a tuple, a local untyped closure, the generic identity; and mismatches between the instances of one
/// named generic (`*T` in two parameters, in a parameter and the result, inside a function-typed parameter)
pub fn c03_snips() -> Vec<Snip> {
    let mut out: Vec<Snip> = C03_SNIPS.to_vec();
    for (j, (id, op, l, r, ol, or)) in OP_MISMATCHES.iter().enumerate() {
        let e_any = |id: String, f: String, t: String| Snip::owned(id, Kind::E("any"), f, t);
        let stm = |id: String, f: String, t: String| Snip::owned(id, Kind::S, f, t);
        out.push(e_any(format!("{}:via-untyped-fn", id), format!("hop{}({}, {})", j, l, r), format!("hop{}({}, {})", j, ol, or)));
        out.push(stm(format!("{}:via-untyped-fn-variables", id), format!("vl := {}\nvr := {}\nprint(hop{}(vl, vr))", l, r, j), format!("vl := {}\nvr := {}\nprint(hop{}(vl, vr))", ol, or, j)));
        out.push(stm(format!("{}:via-untyped-fn-constants", id), format!("vl :: {}\nvr :: {}\nprint(hop{}(vl, vr))", l, r, j), format!("vl :: {}\nvr :: {}\nprint(hop{}(vl, vr))", ol, or, j)));
        out.push(stm(format!("{}:via-variables", id), format!("vl := {}\nvr := {}\nprint(vl {} vr)", l, r, op), format!("vl := {}\nvr := {}\nprint(vl {} vr)", ol, or, op)));
        out.push(stm(format!("{}:via-tuple-elements", id), format!("tt := ({}, {})\nprint(tt[0] {} tt[1])", l, r, op), format!("tt := ({}, {})\nprint(tt[0] {} tt[1])", ol, or, op)));
        out.push(stm(format!("{}:via-local-closure", id), format!("hh :: fn a, b ->\n a {} b\n end\nprint(hh({}, {}))", op, l, r), format!("hh :: fn a, b ->\n a {} b\n end\nprint(hh({}, {}))", op, ol, or)));
        out.push(stm(format!("{}:via-local-closure-variables", id), format!("hh :: fn a, b ->\n a {} b\n end\nvl := {}\nvr := {}\nprint(hh(vl, vr))", op, l, r), format!("hh :: fn a, b ->\n a {} b\n end\nvl := {}\nvr := {}\nprint(hh(vl, vr))", op, ol, or)));
        out.push(e_any(format!("{}:via-generic-identity", id), format!("(ident({}) {} {})", l, op, r), format!("(ident({}) {} {})", ol, op, or)));
        out.push(stm(format!("{}:via-two-hops", id), format!("vl := {}\nvr := {}\nprint(hop2_{}(vl, vr))", l, r, j), format!("vl := {}\nvr := {}\nprint(hop2_{}(vl, vr))", ol, or, j)));
    }
    for (j, (id, op, x, ok)) in UN_MISMATCHES.iter().enumerate() {
        out.push(Snip::owned(format!("{}:via-untyped-fn", id), Kind::E("any"), format!("uop{}({})", j, x), format!("uop{}({})", j, ok)));
        out.push(Snip::owned(format!("{}:via-untyped-fn-variable", id), Kind::S, format!("vl := {}\nprint(uop{}(vl))", x, j), format!("vl := {}\nprint(uop{}(vl))", ok, j)));
        out.push(Snip::owned(format!("{}:via-variable", id), Kind::S, format!("vl := {}\nprint({}vl)", x, op), format!("vl := {}\nprint({}vl)", ok, op)));
    }
    let g = |id: &str, kind: Kind, f: &str, t: &str| Snip::owned(format!("generic:{}", id), kind, f.to_string(), t.to_string());
    out.push(g("pick-mixed", Kind::E("any"), "pick(1, \"two\")", "pick(1, 2)"));
    out.push(g("pick-mixed-lists", Kind::E("any"), "pick([1], [\"a\"])", "pick([1], [2])"));
    out.push(g("pick-mixed-variables", Kind::S, "vl := 1\nvr := \"two\"\nprint(pick(vl, vr))", "vl := 1\nvr := 2\nprint(pick(vl, vr))"));
    out.push(g("pick-result-annotation", Kind::S, "w: int = pick(\"a\", \"b\")", "w: int = pick(1, 2)"));
    out.push(g("ident-result-annotation", Kind::S, "w: str = ident(1)", "w: str = ident(\"a\")"));
    out.push(g("ident-result-operand", Kind::E("int"), "(ident(\"a\") + 1)", "(ident(2) + 1)"));
    out.push(g("apply-parameter-of-callback", Kind::E("any"), "apply(1, shout)", "apply(1, idi)"));
    out.push(g("apply-result-of-callback", Kind::E("int"), "(apply(\"a\", shout) + 1)", "(apply(1, idi) + 1)"));
    out.push(g("second-of-tuple", Kind::E("int"), "(second((1, \"a\")) + 1)", "(second((\"a\", 1)) + 1)"));
    out.push(g("same-elements", Kind::E("any"), "same([1], \"a\")", "same([1], 2)"));
    // operators on composites assembled from untyped parameters (the constraint sits on a tuple / list whose
    // elements are still unknown when the helper is checked)
    for (j, (id, op, l, r, ol, or)) in OP_MISMATCHES.iter().enumerate() {
        if ["+", "-", "*", "==", "!=", "<"].contains(op) {
            out.push(Snip::owned(format!("{}:via-tuples-of-parameters", id), Kind::E("any"), format!("hopt{}(1, {}, 2, {})", j, l, r), format!("hopt{}(1, {}, 2, {})", j, ol, or)));
            out.push(Snip::owned(format!("{}:via-tuple-with-unknown-element-fixed-later", id), Kind::S, format!("ww :: fn x do\n t := (x, 1)\n zz :: t {} ({}, 2)\n t = ({}, 1)\nend", op, l, r), format!("ww :: fn x do\n t := (x, 1)\n zz :: t {} ({}, 2)\n t = ({}, 1)\nend", op, ol, or)));
        }
    }
    // a field given twice in one blob literal: every given value is evaluated, so every one must have the field's type
    let rep = |id: &str, kind: Kind, f: &str, t: &str| Snip::owned(format!("repeated-field:{}", id), kind, f.to_string(), t.to_string());
    out.push(rep("first-value-wrong-type", Kind::E("any"), "P { x: \"one\", x: 1 }", "P { x: 2, x: 1 }"));
    out.push(rep("first-value-wrong-operator", Kind::E("any"), "P { x: 1 + \"a\", x: 1 }", "P { x: 1 + 2, x: 1 }"));
    out.push(rep("first-value-wrong-call", Kind::E("any"), "P { x: f2(1), x: 1 }", "P { x: f2(1, 2), x: 1 }"));
    out.push(rep("last-value-wrong-type", Kind::E("any"), "P { x: 1, x: \"one\" }", "P { x: 1, x: 2 }"));
    // field / payload / parameter types that name a type declared further down the file
    let fwd = |id: &str, kind: Kind, f: &str, t: &str| Snip::owned(format!("later-declared-type:{}", id), kind, f.to_string(), t.to_string());
    out.push(fwd("blob-field", Kind::E("any"), "FA { b: 1 }", "FA { b: FB { x: 1 } }"));
    out.push(fwd("variant-payload", Kind::E("any"), "(FE.V 1)", "(FE.V FB { x: 1 })"));
    out.push(fwd("field-of-field", Kind::E("int"), "(FA { b: FB { x: 1 } }.b.nope + 1)", "(FA { b: FB { x: 1 } }.b.x + 1)"));
    out.push(fwd("field-assignment", Kind::S, "w := FA { b: FB { x: 1 } }\nw.b = 2", "w := FA { b: FB { x: 1 } }\nw.b = FB { x: 2 }"));
    out.push(fwd("recursive-enum-payload", Kind::E("any"), "(FL.Cons (1, 2))", "(FL.Cons (1, FL.Nil))"));
    // depth and count: the mismatch sits N levels inside a tuple / list type, at the end of a chain of N accesses on an
    // untyped parameter, or between two variables that have each been an operand N times before
    for n in SCALE_LADDER {
        let nest = |open: &str, close: &str, core: &str| format!("{}{}{}", open.repeat(n), core, close.repeat(n));
        out.push(Snip::owned(format!("deep:{}:annotated-tuple", n), Kind::S, format!("w: {} : {}", nest("(", ",)", "int"), nest("(", ",)", "\"s\"")), format!("w: {} : {}", nest("(", ",)", "int"), nest("(", ",)", "1"))));
        out.push(Snip::owned(format!("deep:{}:annotated-list", n), Kind::S, format!("w: {} : {}", nest("[", "]", "int"), nest("[", "]", "\"s\"")), format!("w: {} : {}", nest("[", "]", "int"), nest("[", "]", "1"))));
        out.push(Snip::owned(format!("deep:{}:tuples-compared", n), Kind::S, format!("print({} == {})", nest("(", ",)", "1"), nest("(", ",)", "\"s\"")), format!("print({} == {})", nest("(", ",)", "1"), nest("(", ",)", "2"))));
        let idx = "[0]".repeat(n);
        out.push(Snip::owned(
            format!("deep:{}:index-chain-on-untyped-parameter", n),
            Kind::S,
            format!("hh :: fn a ->\n a{} + 1\n end\nprint(hh({}))", idx, nest("(", ", 2)", "\"s\"")),
            format!("hh :: fn a ->\n a{} + 1\n end\nprint(hh({}))", idx, nest("(", ", 2)", "5")),
        ));
        if n <= 40 {
            let uses: String = (0..n).map(|i| format!("ta += tot * {}\ntc = tc + (lin + \"{}\")\n", i + 1, i)).collect();
            out.push(Snip::owned(
                format!("count:{}:two-variables-used-as-operands-before", n),
                Kind::S,
                format!("tot := 3\nlin := \"s\"\nta := 0\ntc := \"\"\n{}print(tot * lin)", uses),
                format!("tot := 3\nlin := \"s\"\nta := 0\ntc := \"\"\n{}print(tot * ta)", uses),
            ));
        }
    }
    out
}

/// nesting depths / counts around the usual thresholds
pub const SCALE_LADDER: [usize; 10] = [2, 8, 9, 16, 17, 18, 32, 33, 34, 65];

pub fn c03_prelude() -> Vec<Top> {
    let mut v = prelude();
    for (j, (_, op, ..)) in OP_MISMATCHES.iter().enumerate() {
        v.push(Top::Raw(format!("hop{} :: fn a, b ->\n    a {} b\nend", j, op)));
        v.push(Top::Raw(format!("hop2_{} :: fn a, b ->\n    hop{}(a, b)\nend", j, j)));
        if ["+", "-", "*", "==", "!=", "<"].contains(op) {
            v.push(Top::Raw(format!("hopt{} :: fn a, b, c, d ->\n    (a, b) {} (c, d)\nend", j, op)));
        }
    }
    for (j, (_, op, ..)) in UN_MISMATCHES.iter().enumerate() {
        v.push(Top::Raw(format!("uop{} :: fn a ->\n    {}a\nend", j, op)));
    }
    v.push(Top::Raw("pick :: fn a: *T, b: *T -> *T\n    a\nend".into()));
    v.push(Top::Raw("ident :: fn a: *T -> *T\n    a\nend".into()));
    v.push(Top::Raw("apply :: fn a: *T, f: fn *T -> *U -> *U\n    f(a)\nend".into()));
    v.push(Top::Raw("shout :: fn q: str -> str\n    q\nend".into()));
    v.push(Top::Raw("second :: fn t: (*A, *B) -> *B\n    t[1]\nend".into()));
    v.push(Top::Raw("same :: fn l: [*T], x: *T -> *T\n    x\nend".into()));
    // FA and FE name FB before FB is declared; FL names itself
    v.push(Top::Raw("FA :: blob { b: FB }".into()));
    v.push(Top::Raw("FE :: enum\n    V FB,\n    W,\nend".into()));
    v.push(Top::Raw("FB :: blob { x: int }".into()));
    v.push(Top::Raw("FL :: enum\n    Cons (int, FL),\n    Nil,\nend".into()));
    v
}

pub fn run_c03(run: &mut Run) {
    let depth = if run.thorough() { 3 } else { 2 };
    let snips = c03_snips();
    // derived snippets (one inference hop) go one context level less deep than the hand-written ones
    run_faults(run, &snips, c03_prelude, depth, "faults", &|sn, path| !sn.id.contains(':') || path.len() < depth, &|sn, c| {
        let mut v = vec![format!("snippet:{}", sn.id)];
        if let Some(e) = c.ectx {
            v.push(format!("snippet:{}@{}", sn.id, EXPR_CTXS[e].name));
        }
        v
    });
    crate::engines::stdfaults::run_std(&mut run.stats, crate::engines::stdfaults::C03_STD, false, "faults");
    run.rule = "every fault snippet x every composition of statement contexts up to the depth bound x every placement x every type-compatible expression context; plus 48 mismatches against standard-library signatures (arguments, results, callbacks, payloads of returned Maybe values) x 7 contexts with std bundled; a case counts only if its well-typed twin compiles in the same context; distinct by program text".into();
    run.assumptions = vec![
        "each snippet is a definite mismatch between literals / declared types, directly or through exactly one (for `via-two-hops`: two) unannotated hop: an untyped helper function, variables, tuple elements, a local closure, the generic identity, instances of one named generic".into(),
        "cases whose control does not compile are not counted (0 on the unchanged tree)".into(),
    ];
}

pub fn replay(case: &serde_json::Value) -> Option<(String, String)> {
    let ft = case["files"][MAIN].as_str()?;
    let tt = case["twin"].as_str()?;
    if case["no_std"].as_bool() == Some(false) {
        return crate::engines::stdfaults::judge_std(ft, tt).0;
    }
    judge_texts(ft, tt).fail
}

pub const C04_SNIPS: &[Snip] = &[
    // constants are immutable
    st("assign-global-const", "k = 1", "m = 1"),
    st("opassign-global-const", "k += 1", "m += 1"),
    st("assign-local-const", "w :: 1\nw = 2", "w := 1\nw = 2"),
    st("opassign-local-const", "w :: 1\nw *= 2", "w := 1\nw *= 2"),
    st("assign-typed-const", "w: int : 1\nw = 2", "w: int = 1\nw = 2"),
    st("assign-param", "w :: fn q: int do\n q = 2\n end", "w :: fn q: int do\n u := q\n u = 2\n end"),
    st("opassign-param", "w :: fn q: int do\n q -= 2\n end", "w :: fn q: int do\n u := q\n u -= 2\n end"),
    st("assign-case-binding", "case E.A 1 do\n A q -> do\n q = 2\n end\n else do end\n end", "case E.A 1 do\n A q -> do\n u := q\n u = 2\n end\n else do end\n end"),
    st("assign-const-alias", "d :: k\nd = 2", "d := k\nd = 2"),
    st("assign-const-from-closure", "w :: 1\nhh :: fn do\n w = 2\n end", "w := 1\nhh :: fn do\n w = 2\n end"),
    st("assign-const-in-nested-block", "w :: 1\ndo\n if true do\n w = 2\n end\nend", "w := 1\ndo\n if true do\n w = 2\n end\nend"),
    st("assign-const-function", "hh :: fn do end\nhh = fn do end", "hh := fn do end\nhh = fn do end"),
    st("assign-global-function", "idi = fn q: int -> int\n q\n end", "zz :: fn q: int -> int\n q\n end"),
    st("assign-const-tuple", "w :: (1, 2)\nw = (2, 3)", "w := (1, 2)\nw = (2, 3)"),
    st("assign-param-of-lambda", "print((fn q: int -> int\n q = 3\n q\n end)(1))", "print((fn q: int -> int\n u := q\n u = 3\n u\n end)(1))"),
    // inside pure functions
    sp("pure-assign-global", "m = 1", "zz :: k"),
    sp("pure-opassign-global", "m += 1", "zz :: k + 1"),
    sp("pure-mutable-decl", "w := 1", "w :: 1"),
    sp("pure-typed-mutable-decl", "w: int = 1", "w: int : 1"),
    sp("pure-read-mutable-global", "zz :: m", "zz :: k"),
    sp("pure-read-mutable-global-in-expr", "zz :: k + m * 2", "zz :: k + k * 2"),
    sp("pure-read-mutable-in-condition", "if m == 0 do\n zz :: 1\nend", "if k == 0 do\n zz :: 1\nend"),
    sp("pure-call-external", "print(1)", "zz :: idp(1)"),
    sp("pure-call-impure-global", "zz :: idi(1)", "zz :: idp(1)"),
    sp("pure-call-impure-as-argument", "zz :: idp(idi(1))", "zz :: idp(idp(1))"),
    sp("pure-call-fn-literal", "zz :: (fn -> int\n 1\n end)()", "zz :: (pu -> int\n 1\n end)()"),
    sp("pure-call-local-fn", "hh :: fn -> int\n 1\n end\nzz :: hh()", "hh :: pu -> int\n 1\n end\nzz :: hh()"),
    sp("pure-assign-own-param", "q = 2", "zz :: q"),
    sp("pure-field-assign", "pb :: P { x: 1 }\npb.x = 2", "pb :: P { x: 1 }\nzz :: pb.x"),
    sp("pure-assign-in-fn-closure", "hh :: fn do\n m = 1\n end", "hh :: fn do\n zz :: k\n end"),
    sp("pure-read-mutable-in-pu-closure", "hh :: pu -> int\n m\n end", "hh :: pu -> int\n k\n end"),
    // self-contained purity declarations, anywhere
    st("pure-param-fn-called", "w :: pu cb: fn -> int -> int\n cb()\n end", "w :: pu cb: pu -> int -> int\n cb()\n end"),
    st("pure-blob-param-assigned", "w :: pu b: P -> int\n b.x = 2\n 1\n end", "w :: pu b: P -> int\n b.x\n end"),
    st("impure-for-pu-annotation", "w: pu int -> int : idi", "w: pu int -> int : idp"),
    st("impure-literal-for-pu-annotation", "w: pu int -> int : fn q: int -> int\n q\n end", "w: pu int -> int : pu q: int -> int\n q\n end"),
    st("impure-argument-for-pu-param", "zz :: app(idi)", "zz :: app(idp)"),
    st("impure-literal-argument-for-pu-param", "zz :: app(fn q: int -> int\n q\n end)", "zz :: app(pu q: int -> int\n q\n end)"),
    st("impure-field-for-pu-field", "zz :: PF { f: idi }", "zz :: PF { f: idp }"),
    st("impure-return-for-pu-return", "w :: fn -> pu int -> int\n idi\n end", "w :: fn -> pu int -> int\n idp\n end"),
    st("impure-laundered-one-hop", "hh: fn int -> int : idi\nw: pu int -> int : hh", "hh: fn int -> int : idp\nw: pu int -> int : hh"),
    st("impure-laundered-two-hops", "hh: fn int -> int : idi\nh2: fn int -> int : hh\nw: pu int -> int : h2", "hh: fn int -> int : idp\nh2: fn int -> int : hh\nw: pu int -> int : h2"),
    st("impure-laundered-through-param", "la :: fn cb: fn int -> int -> int\n app(cb)\n end\nzz :: la(idi)", "la :: fn cb: fn int -> int -> int\n app(cb)\n end\nzz :: la(idp)"),
    st("impure-laundered-called-in-pure", "hh: fn int -> int : idi\nw :: pu -> int\n hh(1)\n end", "hh: pu int -> int : idp\nw :: pu -> int\n hh(1)\n end"),
];

/// the hand-written snippets plus captured state: a `pu` closure (directly, nested in another `pu` closure, nested in
/// an `fn` closure) written in an impure function reads / assigns a mutable local of that function, in every read form
pub fn c04_snips() -> Vec<Snip> {
    let mut out: Vec<Snip> = C04_SNIPS.to_vec();
    let decls = [("local", "ml := 0", "ml :: 0"), ("typed-local", "ml: int = 0", "ml: int : 0")];
    let uses: [(&str, &str); 10] = [
        ("read", "zz :: ml"),
        ("read-in-expression", "zz :: k + ml * 2"),
        ("read-as-argument", "zz :: idp(ml)"),
        ("read-in-tuple", "zz :: (ml, 1)"),
        ("read-in-condition", "if ml == 0 do\n  zy :: 1\n end"),
        ("read-in-blob-field", "zz :: P { x: ml }"),
        ("read-as-result", "ml"),
        ("read-in-list", "zz :: [ml]"),
        ("assign", "ml = 1"),
        ("op-assign", "ml += 1"),
    ];
    let shells: [(&str, &str); 4] = [
        ("pu-closure", "hh :: pu -> int\n {U}\n 1\n end"),
        ("pu-in-pu-closure", "hh :: pu -> int\n gg :: pu -> int\n  {U}\n  1\n end\n gg()\n end"),
        ("pu-in-fn-closure", "hh :: fn -> int\n gg :: pu -> int\n  {U}\n  1\n end\n gg()\n end"),
        ("pu-closure-in-branch", "if k == 7 do\n hh :: pu -> int\n  {U}\n  1\n end\nend"),
    ];
    // a declaration inside a nested scope shadows an outer name; after the scope the outer name is meant again
    let scopes: [(&str, &str); 8] = [
        ("if-branch", "if k == 7 do\n {D}\nend"),
        ("else-branch", "if k == 8 do\n zy :: 0\nelse do\n {D}\nend"),
        ("elif-branch", "if k == 8 do\n zy :: 0\nelif k == 7 do\n {D}\nend"),
        ("case-arm", "case (E.A 1) do\n A q -> do\n  {D}\n end\n else do end\nend"),
        ("case-else", "case E.B do\n A q -> do end\n else do\n  {D}\n end\nend"),
        ("loop-body", "loop do\n {D}\n break\nend"),
        ("do-block", "do\n {D}\nend"),
        ("single-statement-do-block-in-branch", "if k == 7 do\n do\n  {D}\n end\nend"),
    ];
    for (sn, sc) in scopes {
        out.push(Snip::owned(format!("assign-constant-after-shadowing-scope:{}", sn), Kind::S, format!("w :: 1\n{}\nw = 3", sc.replace("{D}", "w := 2")), format!("w := 1\n{}\nw = 3", sc.replace("{D}", "w := 2"))));
        out.push(Snip::owned(format!("opassign-global-constant-after-shadowing-scope:{}", sn), Kind::S, format!("{}\nk += 3", sc.replace("{D}", "k := 2")), format!("{}\nm += 3", sc.replace("{D}", "m := 2"))));
        if sn != "loop-body" {
            out.push(Snip::owned(format!("pure-read-mutable-after-shadowing-scope:{}", sn), Kind::SPure, format!("{}\nzz :: m", sc.replace("{D}", "m :: 5")), format!("{}\nzz :: k", sc.replace("{D}", "k :: 5"))));
        }
    }
    // the shadowing declaration is the binder of the construct itself (a case binding, a closure parameter, both at once)
    // rather than a statement inside it; after the construct the global is meant again
    let binders: [(&str, &str); 5] = [
        ("case-binding-first-arm", "case (E.A 1) do\n A {N} -> do end\n else do end\nend"),
        ("case-binding-arm-not-taken", "case E.B do\n A {N} -> do end\n else do end\nend"),
        ("case-binding-with-body", "case (E.A 1) do\n A {N} -> do\n  zy :: {N}\n end\n else do end\nend"),
        ("closure-parameter", "hh :: pu {N}: int -> int\n {N}\n end"),
        ("case-binding-inside-branch", "if k == 7 do\n case (E.A 1) do\n  A {N} -> do end\n  else do end\n end\nend"),
    ];
    for (bn, bc) in binders {
        out.push(Snip::owned(format!("pure-read-mutable-after-binder-of-that-name:{}", bn), Kind::SPure, format!("{}\nzz :: m", bc.replace("{N}", "m")), format!("{}\nzz :: k", bc.replace("{N}", "k"))));
        out.push(Snip::owned(format!("pure-assign-global-after-binder-of-that-name:{}", bn), Kind::SPure, format!("{}\nm = 1", bc.replace("{N}", "m")), format!("{}\nzz :: k", bc.replace("{N}", "k"))));
        out.push(Snip::owned(format!("assign-global-constant-after-binder-of-that-name:{}", bn), Kind::S, format!("{}\nk = 3", bc.replace("{N}", "k")), format!("{}\nm = 3", bc.replace("{N}", "m"))));
    }
    // a mutable variable that holds a (pure) function is still a mutable variable
    out.push(Snip::owned("mutable-function-variable:called".into(), Kind::SPure, "zz :: mfp(1)".into(), "zz :: idp(1)".into()));
    out.push(Snip::owned("mutable-function-variable:read".into(), Kind::SPure, "zz :: mfp".into(), "zz :: idp".into()));
    out.push(Snip::owned("mutable-function-variable:captured-local".into(), Kind::S, "lf := pu q: int -> int\n q\n end\nhh :: pu -> int\n lf(1)\n end".into(), "lf :: pu q: int -> int\n q\n end\nhh :: pu -> int\n lf(1)\n end".into()));
    out.push(Snip::owned("repeated-field:impure-call-in-first-value".into(), Kind::SPure, "zz :: P { x: idi(1), x: 0 }".into(), "zz :: P { x: idp(1), x: 0 }".into()));
    out.push(Snip::owned("repeated-field:mutable-read-in-first-value".into(), Kind::SPure, "zz :: P { x: m, x: 0 }".into(), "zz :: P { x: k, x: 0 }".into()));
    for (dn, dm, dc) in decls {
        for (un, u) in uses {
            for (sn, sh) in shells {
                // the twin declares the captured variable as a constant and only reads it
                let twin_use = if un.contains("assign") { "zz :: ml" } else { u };
                let u_fault = if un == "read-as-result" { "ml + 0".to_string() } else { u.to_string() };
                let u_twin = if un == "read-as-result" { "ml + 0".to_string() } else { twin_use.to_string() };
                let (f, t) = if un == "read-as-result" {
                    (sh.replace(" {U}\n 1\n", &format!(" {}\n", u_fault)).replace("  {U}\n  1\n", &format!("  {}\n", u_fault)), sh.replace(" {U}\n 1\n", &format!(" {}\n", u_twin)).replace("  {U}\n  1\n", &format!("  {}\n", u_twin)))
                } else {
                    (sh.replace("{U}", &u_fault), sh.replace("{U}", &u_twin))
                };
                out.push(Snip::owned(format!("captured-{}:{}:{}", dn, un, sn), Kind::S, format!("{}\n{}", dm, f), format!("{}\n{}", dc, t)));
            }
        }
    }
    // depth: an impure function where a pure one is declared, N levels inside a tuple / list type
    for n in SCALE_LADDER {
        let nest = |open: &str, close: &str, core: &str| format!("{}{}{}", open.repeat(n), core, close.repeat(n));
        out.push(Snip::owned(format!("deep:{}:impure-for-pu-in-tuple", n), Kind::S, format!("w: {} : {}", nest("(", ",)", "pu int -> int"), nest("(", ",)", "idi")), format!("w: {} : {}", nest("(", ",)", "pu int -> int"), nest("(", ",)", "idp"))));
        out.push(Snip::owned(format!("deep:{}:impure-for-pu-in-list", n), Kind::S, format!("w: {} : {}", nest("[", "]", "pu int -> int"), nest("[", "]", "idi")), format!("w: {} : {}", nest("[", "]", "pu int -> int"), nest("[", "]", "idp"))));
        out.push(Snip::owned(
            format!("deep:{}:impure-passed-for-pu-parameter", n),
            Kind::S,
            format!("hh :: fn q: {} do\nend\nhh({})", nest("(", ",)", "pu int -> int"), nest("(", ",)", "idi")),
            format!("hh :: fn q: {} do\nend\nhh({})", nest("(", ",)", "pu int -> int"), nest("(", ",)", "idp")),
        ));
    }
    out
}

pub fn run_c04(run: &mut Run) {
    let depth = if run.thorough() { 3 } else { 2 };
    let snips = c04_snips();
    run_faults(run, &snips, prelude, depth, "faults", &|_, _| true, &|sn, _| {
        let mut v = vec![format!("snippet:{}", sn.id)];
        if sn.id.starts_with("impure-laundered") {
            v.push("impure-function-reaches-pu-type-through-fn-annotated-binding".to_string());
        }
        v
    });
    crate::engines::stdfaults::run_std(&mut run.stats, crate::engines::stdfaults::C04_STD, true, "faults");
    run.rule = "16 library cases inside pu functions (impure callbacks for the library's pure higher-order functions, calls of impure library functions) x 4 pure contexts with std bundled; every forbidden construct (assignment to constants; impurity inside pu functions; impure values for pu types) x every composition of statement contexts up to the depth bound x every placement (pure placements and pure-legal contexts for the in-pure group); counted only if the permitted twin compiles in the same context; distinct by program text".into();
    run.assumptions = vec!["cases whose control does not compile are not counted (0 on the unchanged tree)".into()];
}

// ------------------------------------------------------------------------------------------
// C05 — shape rules
// ------------------------------------------------------------------------------------------
const BFIELDS: &[(&str, &str, &str, &str)] = &[("a", "int", "1", "2"), ("b", "str", "\"s\"", "\"t\""), ("c", "(int, int)", "(1, 2)", "(3, 4)")];
const EVARIANTS: &[(&str, Option<(&str, &str)>)] = &[("A", Some(("int", "1"))), ("B", None), ("C", Some(("str", "\"s\"")))];

pub fn c05_prelude() -> Vec<Top> {
    let mut tops = prelude();
    for mask in 1..8u32 {
        let fs: Vec<_> = BFIELDS.iter().enumerate().filter(|(i, _)| mask >> i & 1 == 1).map(|(_, f)| *f).collect();
        let name: String = fs.iter().map(|f| f.0).collect();
        tops.push(Top::Raw(format!("B{} :: blob {{ {} }}", name, fs.iter().map(|f| format!("{}: {}", f.0, f.1)).collect::<Vec<_>>().join(", "))));
        // generic twin: the first field's type is a parameter
        let g: Vec<String> = fs.iter().enumerate().map(|(i, f)| if i == 0 { format!("{}: *T", f.0) } else { format!("{}: {}", f.0, f.1) }).collect();
        tops.push(Top::Raw(format!("G{} :: blob(*T) {{ {} }}", name, g.join(", "))));
        let vs: Vec<_> = EVARIANTS.iter().enumerate().filter(|(i, _)| mask >> i & 1 == 1).map(|(_, v)| *v).collect();
        let ename: String = vs.iter().map(|v| v.0.to_lowercase()).collect();
        let body = |generic: bool| -> String {
            vs.iter()
                .enumerate()
                .map(|(i, v)| match v.1 {
                    Some((t, _)) => format!("    {} {},", v.0, if generic && i == 0 { "*V" } else { t }),
                    None => format!("    {},", v.0),
                })
                .collect::<Vec<_>>()
                .join("\n")
        };
        tops.push(Top::Raw(format!("E{} :: enum\n{}\nend", ename, body(false))));
        if vs[0].1.is_some() {
            tops.push(Top::Raw(format!("H{} :: enum(*V)\n{}\nend", ename, body(true))));
        }
    }
    tops.push(Top::Raw("XB :: externblob { v: int }".into()));
    tops.push(Top::Raw("MO :: blob { a: int, mk: fn -> int }".into()));
    tops.push(Top::Raw("MI :: blob { b: int, get: fn -> int }".into()));
    tops
}

/// the positions an ill-shaped expression is tried in besides `zz :: X`: value unused, element of a tuple / list,
/// argument of a generic / untyped function, scrutinee of an else-only case, value of a branch, operand of ==
fn use_positions(id: &str, x: &str, twin: &str, is_enum: bool, out: &mut Vec<Snip>) {
    let mut forms: Vec<(&str, String)> = vec![
        ("discarded", "{X}".into()),
        ("tuple-element", "zz :: ({X}, 1)".into()),
        ("list-element", "zz :: [{X}]".into()),
        ("generic-argument", "print({X})".into()),
        ("untyped-argument", "w :: fn q do end\nw({X})".into()),
        ("branch-value-unused", "if k == 7 do\n {X}\nend".into()),
        ("equality-operand", "zz :: {X} == {X}".into()),
        ("closure-result", "w :: fn ->\n {X}\n end".into()),
    ];
    if is_enum {
        forms.push(("else-only-case-scrutinee", "case {X} do\n else do end\nend".into()));
    }
    for (fname, form) in forms {
        out.push(Snip::owned(format!("{}@{}", id, fname), Kind::S, form.replace("{X}", x), form.replace("{X}", twin)));
    }
}

pub fn c05_snips() -> Vec<Snip> {
    let mut out = Vec::new();
    let push = |out: &mut Vec<Snip>, id: String, fault: String, twin: String| out.push(Snip::owned(id, Kind::S, fault, twin));
    for mask in 1..8u32 {
        let fs: Vec<_> = BFIELDS.iter().enumerate().filter(|(i, _)| mask >> i & 1 == 1).map(|(_, f)| *f).collect();
        let name: String = fs.iter().map(|f| f.0).collect();
        for prefix in ["B", "G"] {
            let ty = format!("{}{}", prefix, name);
            let full = fs.iter().map(|f| format!("{}: {}", f.0, f.2)).collect::<Vec<_>>().join(", ");
            let lit = format!("{} {{ {} }}", ty, full);
            let f0 = fs[0].0;
            for (i, f) in fs.iter().enumerate() {
                let less = fs.iter().enumerate().filter(|(j, _)| *j != i).map(|(_, f)| format!("{}: {}", f.0, f.2)).collect::<Vec<_>>().join(", ");
                push(&mut out, format!("missing-field:{}.{}", ty, f.0), format!("zz :: {} {{ {} }}", ty, less), format!("zz :: {}", lit));
            }
            push(&mut out, format!("unknown-field:{}", ty), format!("zz :: {} {{ {}, nope: 1 }}", ty, full), format!("zz :: {}", lit));
            push(&mut out, format!("absent-field-on-literal:{}", ty), format!("zz :: {}.nope", lit), format!("zz :: {}.{}", lit, f0));
            if mask == 3 || mask == 1 {
                use_positions(&format!("unknown-field:{}", ty), &format!("{} {{ {}, nope: 1 }}", ty, full), &lit, false, &mut out);
                use_positions(&format!("absent-field-on-literal:{}", ty), &format!("{}.nope", lit), &format!("{}.{}", lit, f0), false, &mut out);
                if mask == 3 {
                    let less = fs.iter().skip(1).map(|f| format!("{}: {}", f.0, f.2)).collect::<Vec<_>>().join(", ");
                    use_positions(&format!("missing-field:{}", ty), &format!("{} {{ {} }}", ty, less), &lit, false, &mut out);
                }
            }
            push(&mut out, format!("absent-field-on-variable:{}", ty), format!("w :: {}\nzz :: w.nope", lit), format!("w :: {}\nzz :: w.{}", lit, f0));
            push(&mut out, format!("absent-field-assign:{}", ty), format!("w := {}\nw.nope = 1", lit), format!("w := {}\nw.{} = {}", lit, f0, fs[0].3));
            push(&mut out, format!("absent-field-deferred:{}", ty), format!("w :: fn q ->\n q.nope\n end\nzz :: w({})", lit), format!("w :: fn q ->\n q.{}\n end\nzz :: w({})", f0, lit));
            if prefix == "B" {
                push(&mut out, format!("absent-field-on-parameter:{}", ty), format!("w :: fn q: {} do\n zz :: q.nope\n end", ty), format!("w :: fn q: {} do\n zz :: q.{}\n end", ty, f0));
                // other blob of different shape supplied where this one is declared
                let other = if name == "a" { "Bb { b: \"s\" }".to_string() } else { "Ba { a: 1 }".to_string() };
                push(&mut out, format!("wrong-blob-for-annotation:{}", ty), format!("w: {} : {}", ty, other), format!("w: {} : {}", ty, lit));
            }
        }
        let vs: Vec<_> = EVARIANTS.iter().enumerate().filter(|(i, _)| mask >> i & 1 == 1).map(|(_, v)| *v).collect();
        let ename: String = vs.iter().map(|v| v.0.to_lowercase()).collect();
        for prefix in ["E", "H"] {
            if prefix == "H" && vs[0].1.is_none() {
                continue;
            }
            let ty = format!("{}{}", prefix, ename);
            let cons = |v: &(&str, Option<(&str, &str)>)| match v.1 {
                Some((_, val)) => format!("({}.{} {})", ty, v.0, val),
                None => format!("{}.{}", ty, v.0),
            };
            let v0 = cons(&vs[0]);
            push(&mut out, format!("unknown-variant:{}", ty), format!("zz :: {}.Nope", ty), format!("zz :: {}", v0));
            push(&mut out, format!("unknown-variant-payload:{}", ty), format!("zz :: ({}.Nope 1)", ty), format!("zz :: {}", v0));
            if mask == 3 || mask == 1 || mask == 2 {
                use_positions(&format!("unknown-variant:{}", ty), &format!("{}.Nope", ty), &v0, true, &mut out);
                use_positions(&format!("unknown-variant-payload:{}", ty), &format!("({}.Nope 1)", ty), &v0, true, &mut out);
            }
            let arm = |v: &(&str, Option<(&str, &str)>)| match v.1 {
                Some(_) => format!(" {} y -> do end", v.0),
                None => format!(" {} -> do end", v.0),
            };
            push(&mut out, format!("match-unknown-variant:{}", ty),
                format!("case {} do\n Nope -> do end\n else do end\nend", v0),
                format!("case {} do\n{}\n else do end\nend", v0, arm(&vs[0])));
            let all_arms = vs.iter().map(|v| arm(v)).collect::<Vec<_>>().join("\n");
            push(&mut out, format!("case-superset:{}", ty),
                format!("case {} do\n{}\n Nope -> do end\nend", v0, all_arms),
                format!("case {} do\n{}\nend", v0, all_arms));
            if vs.len() >= 2 {
                for skip in 0..vs.len() {
                    let arms = vs.iter().enumerate().filter(|(i, _)| *i != skip).map(|(_, v)| arm(v)).collect::<Vec<_>>().join("\n");
                    push(&mut out, format!("case-subset:{}-{}", ty, vs[skip].0),
                        format!("case {} do\n{}\nend", v0, arms),
                        format!("case {} do\n{}\nend", v0, all_arms));
                }
            }
            if vs.len() >= 2 {
                // an arm listed twice instead of another one
                for dup in 0..vs.len() {
                    let arms = vs.iter().enumerate().map(|(i, v)| if i == (dup + 1) % vs.len() { arm(&vs[dup]) } else { arm(v) }).collect::<Vec<_>>().join("\n");
                    push(&mut out, format!("case-duplicate-arm:{}-{}", ty, vs[dup].0),
                        format!("case {} do\n{}\nend", v0, arms),
                        format!("case {} do\n{}\nend", v0, all_arms));
                }
                // deferred through an unannotated parameter
                let arms = vs.iter().enumerate().map(|(i, v)| if i == 1 { arm(&vs[0]) } else { arm(v) }).collect::<Vec<_>>().join("\n");
                push(&mut out, format!("case-duplicate-arm-deferred:{}", ty),
                    format!("w :: fn q do\n case q do\n{}\n end\nend\nw({})", arms, v0),
                    format!("w :: fn q do\n case q do\n{}\n end\nend\nw({})", all_arms, v0));
            }
            // through a variable and through an annotated parameter
            push(&mut out, format!("case-superset-on-variable:{}", ty),
                format!("w :: {}\ncase w do\n{}\n Nope -> do end\nend", v0, all_arms),
                format!("w :: {}\ncase w do\n{}\nend", v0, all_arms));
        }
    }
    use_positions("tuple-index-len", "(1, 2)[2]", "(1, 2)[1]", false, &mut out);
    use_positions("tuple-index-nested", "((1, 2), 3)[0][2]", "((1, 2), 3)[0][1]", false, &mut out);
    // tuples
    for (id, f, t) in [
        ("tuple-index-len", "zz :: (1, 2)[2]", "zz :: (1, 2)[1]"),
        ("tuple-index-far", "zz :: (1, 2)[5]", "zz :: (1, 2)[0]"),
        ("tuple-index-one", "zz :: (1,)[1]", "zz :: (1,)[0]"),
        ("tuple-index-empty", "zz :: ()[0]", "zz :: (1,)[0]"),
        ("tuple-index-nested", "zz :: ((1, 2), 3)[0][2]", "zz :: ((1, 2), 3)[0][1]"),
        ("tuple-index-variable", "w :: (1, \"a\")\nzz :: w[2]", "w :: (1, \"a\")\nzz :: w[1]"),
        ("tuple-index-parameter", "w :: fn q: (int, int) do\n zz :: q[2]\n end", "w :: fn q: (int, int) do\n zz :: q[1]\n end"),
        ("tuple-index-deferred", "w :: fn q ->\n q[2]\n end\nzz :: w((1, 2))", "w :: fn q ->\n q[1]\n end\nzz :: w((1, 2))"),
        ("tuple-len-eq", "zz :: (1, 2) == (1, 2, 3)", "zz :: (1, 2) == (1, 2)"),
        ("tuple-len-add", "zz :: (1, 2) + (1, 2, 3)", "zz :: (1, 2) + (1, 2)"),
        ("tuple-len-lt", "zz :: (1, 2) < (1,)", "zz :: (1, 2) < (1, 3)"),
        ("tuple-len-annotation", "w: (int, int) : (1, 2, 3)", "w: (int, int) : (1, 2)"),
        ("tuple-len-assign", "w := (1, 2)\nw = (1, 2, 3)", "w := (1, 2)\nw = (3, 4)"),
        ("tuple-len-argument", "w :: fn q: (int, int) do end\nw((1,))", "w :: fn q: (int, int) do end\nw((1, 2))"),
        ("externblob-instance", "zz :: XB { v: 1 }", "zz :: P { x: 1 }"),
        ("externblob-instance-empty", "zz :: XB { }", "zz :: P { x: 1 }"),
        // `self` of an inner blob literal must not outlive that literal: the outer method's self has no field `b`
        ("absent-field-on-self-after-inner-blob-literal", "mo :: MO { a: 1, mk: fn -> int\n mi :: MI { b: 2, get: fn -> int\n  self.b\n end }\n self.b\nend }", "mo :: MO { a: 1, mk: fn -> int\n mi :: MI { b: 2, get: fn -> int\n  self.b\n end }\n self.a\nend }"),
        ("absent-field-on-self-after-inner-blob-literal-in-branch", "mo :: MO { a: 1, mk: fn -> int\n if true do\n  mi :: MI { b: 2, get: fn -> int\n   self.b\n  end }\n end\n self.b\nend }", "mo :: MO { a: 1, mk: fn -> int\n if true do\n  mi :: MI { b: 2, get: fn -> int\n   self.b\n  end }\n end\n self.a\nend }"),
        ("absent-field-on-self-in-later-value-field", "mo :: MO { a: 1, mk: fn -> int\n mi :: MI { get: fn -> int\n  self.b\n end, b: self.b }\n mi.b\nend }", "mo :: MO { a: 1, mk: fn -> int\n mi :: MI { get: fn -> int\n  self.b\n end, b: self.a }\n mi.b\nend }"),
        ("absent-field-on-self", "mo :: MO { a: 1, mk: fn -> int\n self.nope\nend }", "mo :: MO { a: 1, mk: fn -> int\n self.a\nend }"),
    ] {
        out.push(Snip::owned(id.to_string(), Kind::S, f.to_string(), t.to_string()));
    }
    for (id, f) in [("break-outside-loop", "break"), ("continue-outside-loop", "continue")] {
        out.push(Snip::owned(id.to_string(), Kind::SNoLoop, f.to_string(), format!("loop do\n {}\n break\nend", f)));
        out.push(Snip::owned(format!("{}-in-if", id), Kind::SNoLoop, format!("if true do\n {}\nend", f), format!("loop do\n if true do\n  {}\n end\n break\nend", f)));
    }
    out
}

/// a `break`/`continue` snippet is a fault only when no loop of the same function encloses it
fn no_enclosing_loop_in_same_function(path: &[usize]) -> bool {
    for c in path {
        let ctx = &STMT_CTXS[*c];
        if ctx.in_closure {
            return true;
        }
        if ctx.in_loop {
            return false;
        }
    }
    true
}

/// whole-program faults about the entry point: (id, files, main) with a twin
/// long chains of declarations that mention each other (each type has a field / payload of the next), written
/// top-down and bottom-up, with a shape fault right behind the head, two links in, and at the far end
pub fn long_declaration_cases() -> Vec<(String, Files, Files)> {
    let mut v = Vec::new();
    for n in [3usize, 9, 17, 33, 65, 129, 255, 256, 257, 258, 300] {
        for top_down in [true, false] {
            for enums in [false, true] {
                let decl = |i: usize| -> String {
                    if enums {
                        if i + 1 == n { format!("T{} :: enum\n    V int,\n    W,\nend\n", i) } else { format!("T{} :: enum\n    V T{},\n    W,\nend\n", i, i + 1) }
                    } else if i + 1 == n {
                        format!("T{} :: blob {{\n    v: int,\n}}\n", i)
                    } else {
                        format!("T{} :: blob {{\n    next: T{},\n}}\n", i, i + 1)
                    }
                };
                let order: Vec<usize> = if top_down { (0..n).collect() } else { (0..n).rev().collect() };
                let decls: String = order.iter().map(|i| decl(*i)).collect();
                let program = |user: &str| one_file(&format!("print: fn *X -> void : external\n{}{}\nstart :: fn do\n    print(1)\nend\n", decls, user));
                let mut cases: Vec<(String, String, String)> = Vec::new();
                if enums {
                    // constructing / matching a variant that does not exist, at the head, two links in, at the end
                    for k in [0usize, 2.min(n - 1), n - 1] {
                        cases.push((format!("unknown-variant-constructed-at-{}", k), format!("f :: fn do\n    print(T{}.Nope)\nend", k), format!("f :: fn do\n    print(T{}.W)\nend", k)));
                        cases.push((
                            format!("case-lists-unknown-variant-at-{}", k),
                            format!("f :: fn a: T{} do\n    case a do\n        V q -> print(1) end\n        W -> print(2) end\n        Nope -> print(3) end\n    end\nend", k),
                            format!("f :: fn a: T{} do\n    case a do\n        V q -> print(1) end\n        W -> print(2) end\n    end\nend", k),
                        ));
                        cases.push((
                            format!("case-without-else-misses-a-variant-at-{}", k),
                            format!("f :: fn a: T{} do\n    case a do\n        V q -> print(1) end\n    end\nend", k),
                            format!("f :: fn a: T{} do\n    case a do\n        V q -> print(1) end\n        W -> print(2) end\n    end\nend", k),
                        ));
                    }
                } else {
                    for hops in [0usize, 1, 2.min(n - 1), n - 1] {
                        let path = ".next".repeat(hops);
                        let good = if hops + 1 == n { "v" } else { "next" };
                        cases.push((format!("absent-field-after-{}-links", hops), format!("f :: fn a: T0 do\n    print(a{}.bogus)\nend", path), format!("f :: fn a: T0 do\n    print(a{}.{})\nend", path, good)));
                    }
                    cases.push(("missing-field-in-literal-of-the-last".into(), format!("f :: fn do\n    print(T{} {{ }})\nend", n - 1), format!("f :: fn do\n    print(T{} {{ v: 1 }})\nend", n - 1)));
                    cases.push(("unknown-field-in-literal-of-the-last".into(), format!("f :: fn do\n    print(T{} {{ v: 1, w: 2 }})\nend", n - 1), format!("f :: fn do\n    print(T{} {{ v: 1 }})\nend", n - 1)));
                    cases.push(("wrong-blob-for-the-field-of-the-last-but-one".into(), format!("f :: fn do\n    print(T{} {{ next: T{} {{ v: 1 }} }}.next.w)\nend", n - 2, n - 1), format!("f :: fn do\n    print(T{} {{ next: T{} {{ v: 1 }} }}.next.v)\nend", n - 2, n - 1)));
                }
                for (id, fault, twin) in cases {
                    v.push((format!("chain-of-{}-{}-{}:{}", n, if enums { "enums" } else { "blobs" }, if top_down { "top-down" } else { "bottom-up" }, id), program(&fault), program(&twin)));
                }
            }
        }
    }
    v
}

pub fn start_cases() -> Vec<(String, Files, Files)> {
    let ok = "print: fn *X -> void : external\nstart :: fn do\n    print(1)\nend\n".to_string();
    let mut v = Vec::new();
    let one = |s: &str| one_file(s);
    let mk = |body: &str| format!("print: fn *X -> void : external\n{}\n", body);
    for (id, body) in [
        ("start-missing", "other :: fn do\n    print(1)\nend"),
        ("start-not-a-function", "start :: 1"),
        ("start-returns-int", "start :: fn -> int\n    1\nend"),
        ("start-takes-param", "start :: fn a do\n    print(a)\nend"),
        ("start-takes-typed-param", "start :: fn a: int do\n    print(a)\nend"),
        ("start-is-a-blob", "start :: blob { x: int }"),
        ("start-returns-str-implied", "start :: fn ->\n    \"a\"\nend"),
        ("start-misspelled", "Start :: fn do\n    print(1)\nend"),
        ("start-nested-only", "outer :: fn do\n    start :: fn do\n        print(1)\n    end\n    start()\nend"),
    ] {
        v.push((id.to_string(), one(&mk(body)), one(&ok)));
    }
    // start only in an imported file
    let mut f = Files::new();
    f.insert(MAIN.to_string(), "use other\nprint: fn *X -> void : external\nhelper :: fn do\n    print(1)\nend\n".to_string());
    f.insert("/p/other.sy".to_string(), "print: fn *X -> void : external\nstart :: fn do\n    print(2)\nend\n".to_string());
    let mut t = Files::new();
    t.insert(MAIN.to_string(), "use other\nprint: fn *X -> void : external\nstart :: fn do\n    other.helper()\nend\n".to_string());
    t.insert("/p/other.sy".to_string(), "print: fn *X -> void : external\nhelper :: fn do\n    print(2)\nend\n".to_string());
    v.push(("start-only-in-import".to_string(), f, t));
    v
}

pub fn run_c05(run: &mut Run) {
    let depth = if run.thorough() { 3 } else { 2 };
    let snips = c05_snips();
    run_faults(run, &snips, c05_prelude, depth, "faults", &|sn, p| match sn.kind {
        Kind::SNoLoop => no_enclosing_loop_in_same_function(p),
        _ => true,
    }, &|sn, c| {
        let mut v = vec![format!("snippet:{}", sn.id)];
        if matches!(sn.kind, Kind::SNoLoop) && c.path.iter().any(|x| STMT_CTXS[*x].in_loop) {
            v.push("break-or-continue-in-closure-inside-loop".to_string());
        }
        v
    });
    // entry-point rules: whole programs
    for (id, files, twin) in start_cases().into_iter().chain(long_declaration_cases()) {
        run.stats.evaluations += 2;
        let fo = compile(&files, MAIN, true);
        let to = compile(&twin, MAIN, true);
        if !to.is_ok() {
            run.stats.count("control_rejected(case not counted)", 1);
            continue;
        }
        run.stats.nontrivial(fnv(format!("{:?}", files).as_bytes()));
        let fail = match &fo {
            Outcome::Ok(_) => Some(("accepted-fault".to_string(), format!("accepted: {:?}", files))),
            Outcome::Panic { msg, .. } => Some(("panic-on-fault".to_string(), format!("panic {}: {:?}", msg, files))),
            Outcome::Err { errs, bytes_written } => {
                if errs.is_empty() || *bytes_written > 0 {
                    Some(("rejected-without-error-or-with-output".to_string(), format!("{:?}", files)))
                } else {
                    None
                }
            }
        };
        run.stats.outcome(&format!("{}:{}", if id.starts_with("chain-of-") { "long-declaration-chain" } else { "start-rule" }, if fail.is_some() { "FAIL" } else { "rejected" }));
        if let Some((sig, detail)) = fail {
            let mut fm = serde_json::Map::new();
            for (k, v) in &files {
                fm.insert(k.clone(), json!(v));
            }
            let mut tm = serde_json::Map::new();
            for (k, v) in &twin {
                tm.insert(k.clone(), json!(v));
            }
            run.stats.fail(Failure { sig, preds: vec![format!("snippet:{}", id)], detail, case: json!({"engine": "faults-files", "files": fm, "twin_files": tm}), size: 10 });
        }
    }
    crate::engines::stdfaults::run_std(&mut run.stats, crate::engines::stdfaults::C05_STD, false, "faults");
    run.rule = "20 shape faults on values handed out by the standard library (payloads of pop / get / last / find / dict.get, callback parameters of map / filter / fold, the library's Maybe) x 7 contexts with std bundled; every blob declaration with a non-empty field set over {a,b,c} and every enum with a non-empty variant set over {A,B,C}, plain and generic, x every shape fault (missing/unknown/absent field, unknown/unmatched/extra variant, tuple index and length, externblob instance, break/continue outside a loop of the same function) x every composition of statement contexts up to the depth bound x every placement, plus the entry-point rules as whole programs, plus chains of 3 .. 300 blob / enum declarations each mentioning the next (written top-down and bottom-up) with a shape fault at the head, two links in and at the far end; counted only if the permitted twin compiles; distinct by program text".into();
    run.assumptions = vec!["cases whose control does not compile are not counted".into(), "that accepted programs load as Lua is checked by C06 on the same families".into()];
}

pub fn replay_files(case: &serde_json::Value) -> Option<(String, String)> {
    let mut files = Files::new();
    for (k, v) in case["files"].as_object()? {
        files.insert(k.clone(), v.as_str()?.to_string());
    }
    match compile(&files, MAIN, true) {
        Outcome::Ok(_) => Some(("accepted-fault".into(), format!("accepted: {:?}", files))),
        Outcome::Panic { msg, .. } => Some(("panic-on-fault".into(), msg)),
        Outcome::Err { errs, bytes_written } => {
            if errs.is_empty() || bytes_written > 0 {
                Some(("rejected-without-error-or-with-output".into(), String::new()))
            } else {
                None
            }
        }
    }
}
