//! C20 — driver contract: the built `sylt` binary over the whole configuration space
//! (output mode x --require x --no-std x -v x program class x output path state), with the
//! MiniLua CLI as `lua` on PATH; a small reference function states the contract.

use crate::harness::*;
use crate::report::{Failure, Run, Stats};
use serde_json::json;
use std::path::{Path, PathBuf};
use std::process::Command;

#[derive(Clone, Copy, Debug, PartialEq)]
enum Mode {
    Run,
    OutFile,
    OutStdout,
}

#[derive(Clone, Copy, Debug, PartialEq)]
enum PathState {
    Absent,
    Existing,
    MissingDir,
    IsDirectory,
}

struct Prog {
    id: &'static str,
    text: Option<&'static str>,
    uses_std: bool,
    /// further files next to the main file
    extra: &'static [(&'static str, &'static str)],
    /// by construction the project must be rejected with at least this many errors (independent of what the
    /// in-process compile of the same tree says)
    must_reject: Option<usize>,
}

/// the fixed classes plus programs with many errors (an exit status is one byte: 256 errors must not read as success)
fn progs() -> &'static Vec<Prog> {
    static ALL: std::sync::OnceLock<Vec<Prog>> = std::sync::OnceLock::new();
    ALL.get_or_init(|| {
        let mut v: Vec<Prog> = PROGS.iter().map(|p| Prog { id: p.id, text: p.text, uses_std: p.uses_std, extra: p.extra, must_reject: p.must_reject }).collect();
        for n in [255usize, 256, 257, 512] {
            let mut t = String::new();
            for i in 0..n {
                t.push_str(&format!("f{} :: fn do\n    s := 1 + )\nend\n", i));
            }
            t.push_str("start :: fn do\nend\n");
            let id: &'static str = Box::leak(format!("{}-syntax-errors", n).into_boxed_str());
            let text: &'static str = Box::leak(t.into_boxed_str());
            v.push(Prog { id, text: Some(text), uses_std: false, extra: &[], must_reject: Some(n) });
        }
        v
    })
}

const PROGS: &[Prog] = &[
    Prog { id: "clean", text: Some("start :: fn do\n    x := 1 + 2\n    x <=> 3\nend\n"), uses_std: false, extra: &[], must_reject: None },
    Prog { id: "assert-fails", text: Some("start :: fn do\n    1 <=> 2\nend\n"), uses_std: false, extra: &[], must_reject: None },
    Prog { id: "unreachable", text: Some("start :: fn do\n    <!>\nend\n"), uses_std: false, extra: &[], must_reject: None },
    Prog { id: "rejected-1-error", text: Some("start :: fn do\n    x := 1 + \"a\"\nend\n"), uses_std: false, extra: &[], must_reject: None },
    Prog { id: "rejected-2-errors", text: Some("f :: fn do\n    nope1\nend\nstart :: fn do\n    nope2\nend\n"), uses_std: false, extra: &[], must_reject: None },
    Prog { id: "syntax-error", text: Some("start :: fn do\n    x := 1 +\nend\n"), uses_std: false, extra: &[], must_reject: None },
    Prog { id: "std-clean", text: Some("start :: fn do\n    l := [1, 2]\n    list.push(l, 3)\n    list.len(l) <=> 3\n    print(l)\nend\n"), uses_std: true, extra: &[], must_reject: None },
    Prog { id: "std-assert-fails", text: Some("start :: fn do\n    print(\"before\")\n    list.len([1]) <=> 2\nend\n"), uses_std: true, extra: &[], must_reject: None },
    Prog { id: "missing-file", text: None, uses_std: false, extra: &[], must_reject: None },
    // several files
    Prog { id: "two-files-clean", text: Some("use helper\nstart :: fn do\n    helper.twice(2) <=> 4\nend\n"), uses_std: false, extra: &[("helper.sy", "twice :: fn x: int -> int\n    x * 2\nend\n")], must_reject: None },
    Prog { id: "error-only-in-imported-file", text: Some("use helper\nstart :: fn do\n    helper.twice(2) <=> 4\nend\n"), uses_std: false, extra: &[("helper.sy", "twice :: fn x: int -> int\n    x * \"a\"\nend\n")], must_reject: Some(1) },
    Prog { id: "syntax-errors-in-importer-and-imported", text: Some("use helper\nstart :: fn do\n    x := 1 +\nend\n"), uses_std: false, extra: &[("helper.sy", "y := )\n")], must_reject: Some(2) },
    Prog { id: "syntax-errors-in-a-chain-of-three", text: Some("use helper\nstart :: fn do\n    x := 1 +\nend\n"), uses_std: false, extra: &[("helper.sy", "use deeper\ny := )\n"), ("deeper.sy", "z := (\n")], must_reject: Some(3) },
    Prog { id: "start-only-in-imported-module", text: Some("use helper\nx :: helper.twice(1)\n"), uses_std: false, extra: &[("helper.sy", "twice :: fn x: int -> int\n    x * 2\nend\nstart :: fn do\n    twice(1) <=> 2\nend\n")], must_reject: Some(1) },
    Prog { id: "start-with-wrong-type", text: Some("start :: fn x: int do\nend\n"), uses_std: false, extra: &[], must_reject: Some(1) },
    // several errors, each on a line that carries multi-byte text before the offending place
    Prog { id: "errors-after-non-ascii-text", text: Some("fa :: fn do\n    s := \"é\" + )\nend\nfb :: fn do\n    s := \"åäö€\" + )\nend\nfc :: fn do\n    s := \"😀😀\" + )\nend\nstart :: fn do\n    t := \"ü€😀é\" + ) // ünï\nend\n"), uses_std: false, extra: &[], must_reject: Some(4) },
    Prog { id: "errors-after-tabs-and-non-ascii-text", text: Some("fa :: fn do\n\ts := \"é€\" + )\nend\nstart :: fn do\n\t\tt := \"😀\" + ) // €\nend\n"), uses_std: false, extra: &[], must_reject: Some(2) },
    // one rejected program per stage of the compiler that can refuse a program: dependency ordering (a cycle of functions only,
    // a cycle of values), duplicate definitions, an import that names no file, assignment to a constant
    Prog { id: "rejected-dependency-cycle-of-functions", text: Some("even :: fn n: int -> bool do\n    if n == 0 do ret true end\n    ret odd(n - 1)\nend\nodd :: fn n: int -> bool do\n    if n == 0 do ret false end\n    ret even(n - 1)\nend\nstart :: fn do\n    even(4) <=> true\nend\n"), uses_std: false, extra: &[], must_reject: Some(1) },
    Prog { id: "rejected-dependency-cycle-of-values", text: Some("a :: b + 1\nb :: a + 1\nstart :: fn do\n    a <=> 1\nend\n"), uses_std: false, extra: &[], must_reject: Some(1) },
    Prog { id: "rejected-duplicate-definitions", text: Some("a :: 1\na :: 2\nstart :: fn do\nend\n"), uses_std: false, extra: &[], must_reject: Some(1) },
    Prog { id: "rejected-import-of-a-missing-file", text: Some("use nothere\nstart :: fn do\nend\n"), uses_std: false, extra: &[], must_reject: Some(1) },
    Prog { id: "rejected-assignment-to-a-constant", text: Some("start :: fn do\n    x :: 1\n    x = 2\nend\n"), uses_std: false, extra: &[], must_reject: Some(1) },
    // a program that does not use std but has locals named like std namespaces
    Prog { id: "std-free-locals-named-like-std-modules", text: Some("P :: blob { value: int }\nf :: fn set: P, list: P -> int\n    set.value + list.value\nend\nstart :: fn do\n    dict :: P { value: 1 }\n    f(dict, P { value: 2 }) <=> 3\n    dict.value <=> 1\nend\n"), uses_std: false, extra: &[], must_reject: None },
];

/// the pre-existing output file is longer than any compiled program, so a missing truncation shows
fn old_content() -> String {
    "-- OLD CONTENT that must disappear completely\n".repeat(20_000)
}

struct Obs {
    code: Option<i32>,
    stdout: Vec<u8>,
    stderr: Vec<u8>,
}

fn run_sylt(bin: &Path, pathdir: &Path, cwd: &Path, args: &[String]) -> Obs {
    let o = Command::new(bin)
        .args(args)
        .current_dir(cwd)
        .env("PATH", pathdir)
        .env("NO_COLOR", "1")
        .env("MINILUA_COMPAT_5_2", "1")
        .output()
        .expect("run sylt");
    Obs { code: o.status.code(), stdout: o.stdout, stderr: o.stderr }
}

pub fn run(run: &mut Run) {
    let bin = crate::engines::c16::sylt_bin();
    let lua = crate::report::verif_root().join("target/release/lua");
    if !bin.exists() || !lua.exists() {
        eprintln!("MACHINERY: {} or {} not built", bin.display(), lua.display());
        std::process::exit(2);
    }
    let root = crate::report::verif_root().join("scratch").join(format!("c20-{}", std::process::id()));
    let _ = std::fs::remove_dir_all(&root);
    std::fs::create_dir_all(root.join("bin")).unwrap();
    std::fs::create_dir_all(root.join("src")).unwrap();
    std::fs::create_dir_all(root.join("out")).unwrap();
    std::fs::create_dir_all(root.join("out/adir")).unwrap();
    let _ = std::os::unix::fs::symlink(&lua, root.join("bin/lua"));
    for p in progs().iter() {
        if let Some(t) = p.text {
            // projects with further files live in a directory of their own
            if p.extra.is_empty() {
                std::fs::write(root.join("src").join(format!("{}.sy", p.id)), t).unwrap();
            } else {
                std::fs::create_dir_all(root.join("src").join(p.id)).unwrap();
                std::fs::write(root.join("src").join(p.id).join("main.sy"), t).unwrap();
                for (n, x) in p.extra {
                    std::fs::write(root.join("src").join(p.id).join(n), x).unwrap();
                }
            }
        }
    }
    let thorough = run.thorough();
    let mut st = Stats::new();
    let pathdir = root.join("bin");
    let preamble = preamble_text().to_string();
    let mut seq = 0u64;
    for p in progs().iter() {
        let src = if p.extra.is_empty() { root.join("src").join(format!("{}.sy", p.id)) } else { root.join("src").join(p.id).join("main.sy") };
        let all_files = |t: &str| -> Files {
            let mut files = Files::new();
            files.insert(src.display().to_string(), t.to_string());
            for (n, x) in p.extra {
                files.insert(src.parent().unwrap().join(n).display().to_string(), x.to_string());
            }
            files
        };
        for no_std in [false, true] {
            for require in [None, Some("mymod"), Some("lib.util"), Some("dir/mod.lua")] {
                for verbose in [false, true] {
                    if verbose && !thorough && require.is_some() {
                        continue;
                    }
                    // expected compile result (in-process, same flags)
                    let expect_compile: Option<Vec<u8>> = match p.text {
                        None => None,
                        Some(_) if p.must_reject.is_some() => None,
                        Some(t) => match compile_with(&all_files(t), &src.display().to_string(), &CompileOpts { no_std, require, render: false }) {
                            Outcome::Ok(b) => Some(b),
                            _ => None,
                        },
                    };
                    let n_errors = match p.text {
                        None => 1,
                        Some(t) => match compile_with(&all_files(t), &src.display().to_string(), &CompileOpts { no_std, require, render: false }) {
                            Outcome::Err { errs, .. } => errs.len().max(p.must_reject.unwrap_or(0)),
                            _ => p.must_reject.unwrap_or(0),
                        },
                    };
                    let mut base_args: Vec<String> = Vec::new();
                    if no_std {
                        base_args.push("--no-std".into());
                    }
                    if let Some(r) = require {
                        base_args.push("--require".into());
                        base_args.push(r.into());
                    }
                    if verbose {
                        base_args.push("-v".into());
                    }
                    let desc = |mode: Mode, ps: Option<PathState>| format!("{} mode={:?} no_std={} require={:?} verbose={} path={:?}", p.id, mode, no_std, require, verbose, ps);
                    let mut fail = |st: &mut Stats, sig: &str, d: String, detail: String, args: &[String]| {
                        st.outcome(&format!("FAIL:{}", sig));
                        st.fail(Failure {
                            sig: sig.to_string(),
                            preds: vec![format!("program:{}", p.id)],
                            detail: format!("{}\nargs: {:?}\n{}", d, args, detail),
                            case: json!({"engine": "c20", "program": p.id, "text": p.text, "args": args, "what": sig}),
                            size: args.len(),
                        });
                    };
                    // ---- -o - -------------------------------------------------------------
                    let mut a = base_args.clone();
                    a.extend(["-o".to_string(), "-".to_string(), src.display().to_string()]);
                    let o_stdout = run_sylt(&bin, &pathdir, &root, &a);
                    st.evaluations += 1;
                    let ok_expected = expect_compile.is_some();
                    if (o_stdout.code == Some(0)) != ok_expected {
                        fail(&mut st, "exit-status", desc(Mode::OutStdout, None), format!("exit {:?}, compilation {} expected", o_stdout.code, if ok_expected { "success" } else { "failure" }), &a);
                    } else {
                        st.outcome("exit-status-matches");
                    }
                    if let Some(bytes) = &expect_compile {
                        if &o_stdout.stdout != bytes {
                            fail(&mut st, "stdout-bytes-differ-from-library-compile", desc(Mode::OutStdout, None), format!("{} vs {} bytes", o_stdout.stdout.len(), bytes.len()), &a);
                        }
                        // --require: exactly one require, directly after the preamble
                        let text = String::from_utf8_lossy(&o_stdout.stdout).to_string();
                        // the argument is placed directly in a `require`, minus a `.lua` suffix
                        let module = require.map(|r| r.strip_suffix(".lua").unwrap_or(r)).unwrap_or("mymod");
                        // `require "M"`, `require 'M'`, `require("M")`, `require('M')` all name module M
                        let spellings: Vec<String> = vec![format!("require \"{}\"", module), format!("require '{}'", module), format!("require(\"{}\")", module), format!("require('{}')", module)];
                        let count: usize = spellings.iter().map(|n| text.matches(n.as_str()).count()).sum();
                        let needle = spellings.iter().find(|n| text.contains(n.as_str())).cloned().unwrap_or_else(|| spellings[0].clone());
                        let needle = needle.as_str();
                        let all_requires = text.lines().filter(|l| l.trim_start().starts_with("require")).count();
                        match require {
                            Some(_) => {
                                if all_requires != 1 || count != 1 || !text[preamble.len().min(text.len())..].starts_with(needle) || !text.starts_with(&preamble) {
                                    fail(&mut st, "require-placement", desc(Mode::OutStdout, None), format!("{} occurrences; text after the preamble starts with {:?}", count, text[preamble.len().min(text.len())..].chars().take(40).collect::<String>()), &a);
                                } else {
                                    st.outcome("require-once-after-preamble");
                                }
                            }
                            None => {
                                if all_requires != 0 {
                                    fail(&mut st, "require-without-flag", desc(Mode::OutStdout, None), String::new(), &a);
                                }
                            }
                        }
                    } else {
                        // every error is printed
                        let out = String::from_utf8_lossy(&o_stdout.stdout).to_string();
                        // a printed error = an unindented line that names a source location (`....sy:<line>`) or a
                        // missing file, whatever the wording of the heading
                        let headings = out
                            .lines()
                            .filter(|l| {
                                let unindented = !l.starts_with(' ') && !l.starts_with('\t');
                                let names_location = l.match_indices(".sy:").any(|(i, _)| l[i + 4..].chars().next().map(|c| c.is_ascii_digit()).unwrap_or(false));
                                unindented && (names_location || (l.contains("File '") && l.contains("not found")) || l.to_lowercase().contains("no such file"))
                            })
                            .count();
                        if headings < n_errors {
                            fail(&mut st, "errors-not-all-printed", desc(Mode::OutStdout, None), format!("{} errors expected, {} printed:\n{}", n_errors, headings, out), &a);
                        } else {
                            st.outcome("all-errors-printed");
                        }
                    }
                    // ---- -o FILE over path states -----------------------------------------
                    for ps in [PathState::Absent, PathState::Existing, PathState::MissingDir, PathState::IsDirectory] {
                        seq += 1;
                        let target: PathBuf = match ps {
                            PathState::Absent => root.join("out").join(format!("fresh{}.lua", seq)),
                            PathState::Existing => {
                                let t = root.join("out").join(format!("old{}.lua", seq));
                                std::fs::write(&t, old_content()).unwrap();
                                t
                            }
                            PathState::MissingDir => root.join("out/no/such/dir").join(format!("x{}.lua", seq)),
                            PathState::IsDirectory => root.join("out/adir"),
                        };
                        let before = std::fs::metadata(&target).ok().and_then(|m| m.modified().ok());
                        let mut a = base_args.clone();
                        a.extend(["-o".to_string(), target.display().to_string(), src.display().to_string()]);
                        let o = run_sylt(&bin, &pathdir, &root, &a);
                        st.evaluations += 1;
                        let writable = matches!(ps, PathState::Absent | PathState::Existing);
                        match (&expect_compile, writable) {
                            (Some(bytes), true) => {
                                let got = std::fs::read(&target).unwrap_or_default();
                                if o.code != Some(0) {
                                    fail(&mut st, "exit-status", desc(Mode::OutFile, Some(ps)), format!("exit {:?} although compilation succeeds and the path is writable", o.code), &a);
                                } else if &got != bytes || got != o_stdout.stdout {
                                    fail(&mut st, "file-differs-from-stdout-output", desc(Mode::OutFile, Some(ps)), format!("file has {} bytes, -o - wrote {}", got.len(), o_stdout.stdout.len()), &a);
                                } else {
                                    st.outcome("file-complete-and-equal-to-stdout-output");
                                }
                            }
                            (Some(_), false) => {
                                // unwritable path: any non-zero status is accepted; exit 0 would claim a complete file
                                if o.code == Some(0) {
                                    fail(&mut st, "exit-0-without-output-file", desc(Mode::OutFile, Some(ps)), String::new(), &a);
                                } else {
                                    st.outcome("unwritable-path:nonzero-exit");
                                }
                            }
                            (None, _) => {
                                if o.code == Some(0) {
                                    fail(&mut st, "exit-status", desc(Mode::OutFile, Some(ps)), "exit 0 although compilation fails".into(), &a);
                                }
                                // FILE untouched
                                let after = std::fs::metadata(&target).ok().and_then(|m| m.modified().ok());
                                let untouched = match ps {
                                    PathState::Absent | PathState::MissingDir => !target.exists(),
                                    PathState::Existing => std::fs::read(&target).ok() == Some(old_content().into_bytes()) && before == after,
                                    PathState::IsDirectory => target.is_dir(),
                                };
                                if !untouched {
                                    fail(&mut st, "output-file-touched-on-failure", desc(Mode::OutFile, Some(ps)), String::new(), &a);
                                } else {
                                    st.outcome("failure-leaves-file-untouched");
                                }
                            }
                        }
                        if matches!(ps, PathState::Absent | PathState::Existing) {
                            let _ = std::fs::remove_file(&target);
                        }
                    }
                    // ---- run mode ----------------------------------------------------------
                    if require.is_none() {
                        let mut a = base_args.clone();
                        a.push(src.display().to_string());
                        let o = run_sylt(&bin, &pathdir, &root, &a);
                        st.evaluations += 1;
                        // expected: compile ok and the chunk runs to completion under the same interpreter
                        let (run_ok, expected_out) = match &expect_compile {
                            Some(b) => {
                                let r = crate::luarun::run_lua(b, 50_000_000);
                                (r.end == crate::luarun::LuaEnd::Done, r.out.iter().map(|l| format!("{}\n", l)).collect::<String>())
                            }
                            None => (false, String::new()),
                        };
                        if (o.code == Some(0)) != run_ok {
                            fail(&mut st, "exit-status", desc(Mode::Run, None), format!("exit {:?}; compile+run {} expected\nstdout: {}\nstderr: {}", o.code, if run_ok { "success" } else { "failure" }, String::from_utf8_lossy(&o.stdout), String::from_utf8_lossy(&o.stderr)), &a);
                        } else {
                            st.outcome("run-mode:exit-status-matches");
                        }
                        if run_ok && String::from_utf8_lossy(&o.stdout) != expected_out {
                            fail(&mut st, "run-output", desc(Mode::Run, None), format!("stdout {:?} expected {:?}", String::from_utf8_lossy(&o.stdout), expected_out), &a);
                        }
                        if expect_compile.is_some() && !run_ok {
                            // the runtime failure must be reported
                            let all = format!("{}{}", String::from_utf8_lossy(&o.stdout), String::from_utf8_lossy(&o.stderr));
                            // some report of the failure, whatever its wording: the assertion / crash marker of the runtime or an error line of the interpreter
                            let low = all.to_lowercase();
                            if !(low.contains("assert") || low.contains("unreachable") || low.contains("crash") || low.contains("error")) {
                                fail(&mut st, "runtime-failure-not-reported", desc(Mode::Run, None), all, &a);
                            } else {
                                st.outcome("run-mode:runtime-failure-reported");
                            }
                        }
                        // --no-std changes nothing for std-free programs
                        if !p.uses_std && no_std {
                            let mut a2: Vec<String> = base_args.iter().filter(|x| *x != "--no-std").cloned().collect();
                            a2.push(src.display().to_string());
                            let o2 = run_sylt(&bin, &pathdir, &root, &a2);
                            st.evaluations += 1;
                            if o2.code != o.code || (o.code == Some(0) && o2.stdout != o.stdout) {
                                fail(&mut st, "no-std-changes-behaviour", desc(Mode::Run, None), format!("with --no-std: exit {:?} stdout {:?}; without: exit {:?} stdout {:?}", o.code, String::from_utf8_lossy(&o.stdout), o2.code, String::from_utf8_lossy(&o2.stdout)), &a);
                            } else {
                                st.outcome("no-std-equivalent-for-std-free-program");
                            }
                        }
                    }
                    st.nontrivial(fnv(format!("{}{}{:?}{}", p.id, no_std, require, verbose).as_bytes()));
                    if st.samples.len() < 4 {
                        st.sample(json!({"program": p.id, "args": base_args, "exit_with_-o_-": o_stdout.code}));
                    }
                }
            }
        }
    }
    let _ = std::fs::remove_dir_all(&root);
    st.states = st.evaluations;
    st.transitions = st.evaluations;
    st.traces_validated = st.evaluations;
    run.stats = st;
    run.rule = "full product of program class (clean, assertion fails, <!>, rejected with 1 and 2 errors, syntax error, one rejected program per refusing stage (dependency cycle of functions only / of values, duplicate definitions, import of a missing file, assignment to a constant), std-using clean and failing, missing file, two-file projects: clean / error only in the imported file / syntax errors in importer and imported / in a chain of three files / `start` only in an imported module, `start` of the wrong type, errors on lines with multi-byte text and tabs, a std-free program whose locals are named like std modules, programs with 255 / 256 / 257 / 512 syntax errors) x --no-std x --require x -v x output mode (run, -o -, -o FILE over absent / existing / missing directory / is-a-directory); distinct by configuration; every configuration is non-trivial".into();
    run.bounds = json!({"programs": progs().iter().map(|p| p.id).collect::<Vec<_>>()});
    run.assumptions = vec![
        "`lua` on PATH is the MiniLua CLI".into(),
        "a non-zero exit on an unwritable output path is accepted, whatever its value; exit 0 must imply a complete file".into(),
        "the process runs as root, so 'unwritable' is modelled by a missing parent directory and by a path that is a directory".into(),
    ];
}

pub fn replay(case: &serde_json::Value) -> Option<(String, String)> {
    println!("C20 cases are process runs in a scratch project; re-run ./check C20 to reproduce: {}", case);
    Some((case["what"].as_str().unwrap_or("c20").to_string(), "see ./check C20".into()))
}
