//! C14 — call/return sugar and layout never change meaning: every surface-choice vector of
//! every base program compiles to the same Lua (layout: byte-identical after masking the line
//! number of `<!>`; sugar: identical after renumbering V/L names by first occurrence).

use crate::ast::*;
use crate::harness::*;
use crate::report::{Failure, Run, Stats};
use serde_json::json;

fn mask_lines(lua: &[u8]) -> Vec<u8> {
    // the message of a reached `<!>` names the source line: every run of digits inside the string literal handed
    // to __CRASH is masked, whatever the wording of the message
    let s = String::from_utf8_lossy(lua);
    let mut out = String::with_capacity(s.len());
    let pat = "__CRASH(\"";
    let mut rest = s.as_ref();
    while let Some(i) = rest.find(pat) {
        out.push_str(&rest[..i + pat.len()]);
        rest = &rest[i + pat.len()..];
        let end = rest.find("\")").unwrap_or(rest.len());
        let mut in_digits = false;
        for c in rest[..end].chars() {
            if c.is_ascii_digit() {
                if !in_digits {
                    out.push('N');
                }
                in_digits = true;
            } else {
                in_digits = false;
                out.push(c);
            }
        }
        rest = &rest[end..];
    }
    out.push_str(rest);
    out.into_bytes()
}

/// canonical renumbering of V<n> / L<n> by first occurrence, outside string literals
fn renumber(lua: &[u8]) -> Vec<u8> {
    let mut out = Vec::with_capacity(lua.len());
    let mut map: std::collections::HashMap<Vec<u8>, usize> = std::collections::HashMap::new();
    let mut i = 0;
    let n = lua.len();
    while i < n {
        let c = lua[i];
        if c == b'"' {
            out.push(c);
            i += 1;
            while i < n {
                out.push(lua[i]);
                if lua[i] == b'\\' && i + 1 < n {
                    out.push(lua[i + 1]);
                    i += 2;
                    continue;
                }
                if lua[i] == b'"' {
                    i += 1;
                    break;
                }
                i += 1;
            }
            continue;
        }
        let ident_start = c.is_ascii_alphabetic() || c == b'_';
        if ident_start {
            let s = i;
            while i < n && (lua[i].is_ascii_alphanumeric() || lua[i] == b'_') {
                i += 1;
            }
            let w = &lua[s..i];
            // generated names: one to three capital letters followed by digits only (V12, L3 - whatever the prefix is)
            let np = w.iter().take_while(|b| b.is_ascii_uppercase()).count();
            if np >= 1 && np <= 3 && w.len() > np && w[np..].iter().all(|b| b.is_ascii_digit()) {
                let k = map.len();
                let id = *map.entry(w.to_vec()).or_insert(k);
                out.extend_from_slice(&w[..np]);
                out.extend_from_slice(format!("#{}", id).as_bytes());
            } else {
                out.extend_from_slice(w);
            }
            continue;
        }
        out.push(c);
        i += 1;
    }
    out
}

fn base_programs(thorough: bool) -> Vec<(String, Program)> {
    let mut v = Vec::new();
    // statement families with short sequences and the recursion templates
    for (fam, p) in crate::stmtfam::all_programs_len(if thorough { 3 } else { 2 }) {
        v.push((fam, p));
    }
    // counts, magnitudes and lengths beyond the other families (the quick ladder in both tiers)
    {
        let mut scale = Vec::new();
        crate::stmtfam::scale_programs(false, &mut scale);
        // quick: up to 65 items (nesting up to 100); thorough: the whole quick ladder
        v.extend(scale.into_iter().filter(|(fam, _)| thorough || crate::stmtfam::scale_n(fam) <= 65 || fam.contains("nested") || fam.contains("magnitude")));
    }
    // expressions of size <= 1 in a few call-heavy contexts
    let space = crate::engines::c01::expr_space(1);
    for (t, size, xs) in &space {
        for (i, e) in xs.iter().enumerate() {
            if !thorough && i % 4 != 0 {
                continue;
            }
            for c in if thorough { vec![0usize, 3, 13, 15, 23] } else { vec![0usize, 13, 23] } {
                if let Some(p) = crate::families::place(c, *t, e.clone()) {
                    v.push((format!("expr:{:?}:size{}@{}", t, size, crate::families::context_name(c)), p));
                }
            }
        }
    }
    // a program with `<!>` and `loop do`
    let mut p = crate::selftest::sample();
    number_unreachables(&mut p);
    v.push(("sample".into(), p));
    v
}

/// programs written as text, with marked sites: `{{R}}` before the last expression of a function body (nothing, or
/// `ret `) and `{{K f|args}}` for a call (f(args), f' args, args -> f(), args -> f'). They hold what the core AST of
/// the families cannot: inferred return types, early `ret` of a value that says less than the trailing expression
/// (payload-less variant of a generic enum, empty list), closures returning closures, and ill-typed programs - every
/// choice at every site must be accepted with the same Lua as the plain form, or every choice rejected.
const TEXT_BASES: &[(&str, &str)] = &[
    (
        "early-ret-of-payloadless-variant-inferred-return",
        "Opt :: enum(*T)\n    Some *T,\n    Non,\nend\ninc :: fn x: int -> int do\n    {{R}}x + 1\nend\nhandler :: fn enabled: bool -> do\n    if not enabled do\n        ret Opt.Non\n    end\n    {{R}}Opt.Some inc\nend\nstart :: fn do\n    h :: {{K handler|true}}\n    case h do\n        Some f -> print({{K f|41}}) end\n        Non -> print(0) end\n    end\nend\n",
    ),
    (
        "early-ret-of-empty-list-inferred-return",
        "takes :: fn l: [int] -> int do\n    {{R}}7\nend\nfs :: fn n: int -> do\n    if n < 0 do\n        ret []\n    end\n    {{R}}[n, 2]\nend\nstart :: fn do\n    g :: {{K fs|1}}\n    print(g == [1, 2])\n    print({{K takes|g}})\nend\n",
    ),
    (
        "ill-typed-early-int-trailing-str-annotated",
        "sign :: fn n: int -> int do\n    if n < 0 do\n        ret -1\n    end\n    {{R}}\"not negative\"\nend\nstart :: fn do\n    print({{K sign|3}} + 1)\nend\n",
    ),
    (
        "ill-typed-early-int-trailing-str-inferred",
        "sign :: fn n: int -> do\n    if n < 0 do\n        ret -1\n    end\n    {{R}}\"not negative\"\nend\nstart :: fn do\n    print({{K sign|3}})\nend\n",
    ),
    (
        "closure-returning-closure-with-early-ret",
        "Opt :: enum(*T)\n    Some *T,\n    Non,\nend\ninc :: fn x: int -> int do\n    x + 1\nend\nmk :: fn k: int -> do\n    {{R}}fn q: int -> do\n        if q > k do\n            ret (q, Opt.Non)\n        end\n        {{R}}(k, Opt.Some inc)\n    end\nend\nstart :: fn do\n    c :: {{K mk|3}}\n    print({{K c|5}}[0])\n    case {{K c|2}}[1] do\n        Some f -> print({{K f|1}}) end\n        else do end\n    end\nend\n",
    ),
    (
        "ill-typed-payload-called-with-the-wrong-argument",
        "Opt :: enum(*T)\n    Some *T,\n    Non,\nend\ninc :: fn x: int -> int do\n    x + 1\nend\nhandler :: fn enabled: bool -> do\n    if not enabled do\n        ret Opt.Non\n    end\n    {{R}}Opt.Some inc\nend\nstart :: fn do\n    case {{K handler|true}} do\n        Some f -> print({{K f|\"s\"}}) end\n        Non -> print(0) end\n    end\nend\n",
    ),
    (
        "function-in-a-blob-field-with-early-ret",
        "B :: blob {\n    f: fn int -> int,\n}\nstart :: fn do\n    b :: B { f: fn x: int -> int do\n        if x < 0 do\n            ret 0\n        end\n        {{R}}x * 2\n    end }\n    print({{K b.f|4}})\n    print({{K b.f|0 - 4}})\nend\n",
    ),
    (
        "inferred-return-of-a-recursive-function",
        "fact :: fn n: int -> do\n    if n < 2 do\n        ret 1\n    end\n    {{R}}n * {{K fact|n - 1}}\nend\nstart :: fn do\n    print({{K fact|5}})\nend\n",
    ),
    (
        "early-ret-of-tuple-with-unknown-parts",
        "Opt :: enum(*T)\n    Some *T,\n    Non,\nend\nexcl :: fn s: str -> str do\n    {{R}}s + \"!\"\nend\npick :: fn n: int -> do\n    if n == 0 do\n        ret (0, Opt.Non, Opt.Non)\n    end\n    {{R}}(n, Opt.Some \"s\", Opt.Some excl)\nend\nstart :: fn do\n    t :: {{K pick|2}}\n    case t[1] do\n        Some s -> do\n            case t[2] do\n                Some f -> print({{K f|s}}) end\n                else do end\n            end\n        end\n        Non -> print(t[0]) end\n    end\nend\n",
    ),
    (
        "ill-typed-two-early-rets-disagree-with-the-tail",
        "kind :: fn n: int -> do\n    if n < 0 do\n        ret (1, 2)\n    end\n    if n == 0 do\n        ret (0, 0)\n    end\n    {{R}}(1, \"s\")\nend\nstart :: fn do\n    print({{K kind|3}})\nend\n",
    ),
];

fn expand_text_base(template: &str) -> Vec<(String, String)> {
    // sites in order of appearance
    let mut parts: Vec<(String, Option<(bool, String, String)>)> = Vec::new();
    let mut rest = template;
    while let Some(i) = rest.find("{{") {
        let j = rest[i..].find("}}").unwrap() + i;
        let inner = &rest[i + 2..j];
        let site = if inner == "R" {
            (true, String::new(), String::new())
        } else {
            let body = inner.strip_prefix("K ").unwrap();
            let (f, a) = body.split_once('|').unwrap();
            (false, f.to_string(), a.to_string())
        };
        parts.push((rest[..i].to_string(), Some(site)));
        rest = &rest[j + 2..];
    }
    parts.push((rest.to_string(), None));
    let radices: Vec<usize> = parts.iter().filter_map(|(_, s)| s.as_ref().map(|s| if s.0 { 2 } else { 4 })).collect();
    let total: usize = radices.iter().product();
    let mut out = Vec::new();
    for code in 0..total {
        let mut c = code;
        let mut text = String::from("print: fn *X -> void : external\n");
        let mut desc = String::new();
        for (pre, site) in &parts {
            text.push_str(pre);
            if let Some((is_ret, f, a)) = site {
                let r = if *is_ret { 2 } else { 4 };
                let k = c % r;
                c /= r;
                if *is_ret {
                    text.push_str(if k == 1 { "ret " } else { "" });
                    desc.push(if k == 1 { 'r' } else { '-' });
                } else {
                    match k {
                        0 => text.push_str(&format!("{}({})", f, a)),
                        1 => text.push_str(&format!("({}' {})", f, a)),
                        2 => text.push_str(&format!("(({}) -> {}())", a, f)),
                        _ => text.push_str(&format!("(({}) -> {}')", a, f)),
                    }
                    desc.push(['p', '\'', '>', '}'][k]);
                }
            }
        }
        out.push((desc, text));
    }
    out
}

fn text_bases_family(acc: &mut Stats) {
    for (name, template) in TEXT_BASES {
        let forms = expand_text_base(template);
        let (_, plain) = &forms[0];
        let canon = match compile_src(plain) {
            Outcome::Ok(b) => Some(renumber(&mask_lines(&b))),
            _ => None,
        };
        acc.states += 1;
        acc.nontrivial(fnv(plain.as_bytes()));
        acc.outcome(if canon.is_some() { "text-base:plain-form-accepted" } else { "text-base:plain-form-rejected" });
        for (desc, text) in forms.iter().skip(1) {
            acc.evaluations += 1;
            acc.transitions += 1;
            let out = compile_src(text);
            let fail: Option<(&str, String)> = match (&canon, &out) {
                (Some(c), Outcome::Ok(b)) => {
                    if &renumber(&mask_lines(b)) == c { None } else { Some(("sugar-changes-lua", "emitted Lua differs (after renumbering of V/L names)".to_string())) }
                }
                (Some(_), Outcome::Err { errs, .. }) => Some(("sugar-variant-rejected", errs.first().map(|e| e.dbg.clone()).unwrap_or_default())),
                (None, Outcome::Ok(_)) => Some(("sugar-variant-accepted-but-plain-form-rejected", String::new())),
                (None, Outcome::Err { .. }) => None,
                (_, Outcome::Panic { msg, .. }) => Some(("panic", msg.clone())),
            };
            match fail {
                None => acc.outcome(if canon.is_some() { "text-base:same-lua" } else { "text-base:rejected-like-the-plain-form" }),
                Some((sig, detail)) => {
                    acc.outcome(sig);
                    let mut files = serde_json::Map::new();
                    files.insert(MAIN.to_string(), json!(text));
                    acc.fail(Failure {
                        sig: sig.into(),
                        preds: vec![format!("text-base:{}", name)],
                        detail: format!("text base {} with sites [{}] (r = ret, - = trailing expression, p ' > }} = call styles):\n{}\n{}\nplain form:\n{}", name, desc, text, detail, plain),
                        case: json!({"engine": "c14", "files": files, "canonical": plain, "sugar": true}),
                        size: text.len(),
                    });
                }
            }
        }
    }
}

const STYLES: [CallStyle; 4] = [CallStyle::Paren, CallStyle::Prime, CallStyle::Arrow, CallStyle::ArrowPrime];

pub fn run(run: &mut Run) {
    let thorough = run.thorough();
    let bases = base_programs(thorough);
    let ksites = if thorough { 4 } else { 3 };
    let accs = crate::pool::par_items(&bases, 4, |_| Stats::new(), |acc, bi, (fam, base)| {
        let mut base = base.clone();
        number_unreachables(&mut base);
        let canon_text = print_program(&base).text;
        let canon = match compile_src(&canon_text) {
            Outcome::Ok(b) => b,
            _ => {
                acc.count("base-rejected", 1);
                // a form that differs only in layout / redundant parentheses must then be rejected as well
                for (desc, opts) in [
                    ("paren_values", PrintOpts { paren_values: true, ..PrintOpts::default() }),
                    ("full_parens", PrintOpts { full_parens: true, ..PrintOpts::default() }),
                    ("break_brackets", PrintOpts { break_brackets: true, ..PrintOpts::default() }),
                    ("noise", PrintOpts { layout: 2, ..PrintOpts::default() }),
                    ("explicit_ret", PrintOpts { explicit_ret: true, ..PrintOpts::default() }),
                    ("ret_at_every_tail_site", PrintOpts { ret_mask: Some(u64::MAX), ..PrintOpts::default() }),
                    ("ret_at_the_first_tail_site", PrintOpts { ret_mask: Some(1), ..PrintOpts::default() }),
                ] {
                    let text = print_with(&base, opts).text;
                    acc.evaluations += 1;
                    if compile_src(&text).is_ok() {
                        acc.outcome("layout-variant-accepted-but-canonical-rejected");
                        let mut files = serde_json::Map::new();
                        files.insert(MAIN.to_string(), json!(text));
                        acc.fail(Failure {
                            sig: "layout-variant-rejected".into(),
                            preds: vec![format!("variant:{}", desc)],
                            detail: format!("family {}: the canonical text is rejected but the variant [{}] is accepted\ncanonical text:\n{}\nvariant:\n{}", fam, desc, canon_text, text),
                            case: json!({"engine": "c14", "files": files, "canonical": canon_text, "sugar": desc.contains("ret")}),
                            size: text.len(),
                        });
                    } else {
                        acc.outcome("rejected-base:variant-rejected-as-well");
                    }
                }
                return;
            }
        };
        acc.states += 1;
        acc.nontrivial(fnv(canon_text.as_bytes()));
        let canon_masked = mask_lines(&canon);
        let canon_renum = renumber(&canon_masked);
        let mut judge = |acc: &mut Stats, group: &str, desc: String, text: String, sugar: bool| {
            acc.evaluations += 1;
            acc.transitions += 1;
            let out = compile_src(&text);
            let fail = match &out {
                Outcome::Ok(b) => {
                    let m = mask_lines(b);
                    if !sugar {
                        if m == canon_masked { None } else { Some((format!("{}-changes-lua", group), "emitted Lua differs".to_string())) }
                    } else if renumber(&m) == canon_renum {
                        None
                    } else {
                        Some((format!("{}-changes-lua", group), "emitted Lua differs (after renumbering of V/L names)".to_string()))
                    }
                }
                Outcome::Err { errs, .. } => Some((format!("{}-variant-rejected", group), errs.first().map(|e| e.dbg.clone()).unwrap_or_default())),
                Outcome::Panic { msg, .. } => Some(("panic".to_string(), msg.clone())),
            };
            match fail {
                None => acc.outcome(&format!("{}:same-lua", group)),
                Some((sig, detail)) => {
                    acc.outcome(&sig);
                    let mut files = serde_json::Map::new();
                    files.insert(MAIN.to_string(), json!(text));
                    acc.fail(Failure {
                        sig,
                        preds: vec![format!("variant:{}", desc.split(' ').next().unwrap_or(""))],
                        detail: format!("variant [{}] of family {}:\n{}\n{}\ncanonical text:\n{}", desc, fam, text, detail, canon_text),
                        case: json!({"engine": "c14", "files": files, "canonical": canon_text, "sugar": sugar}),
                        size: text.len(),
                    });
                }
            }
        };
        // layout group
        for layout in 0..4u32 {
            for full_parens in [false, true] {
                for crlf in [false, true] {
                    for brk in [false, true] {
                        if layout == 0 && !full_parens && !crlf && !brk {
                            continue;
                        }
                        let opts = PrintOpts { full_parens, explicit_ret: false, loop_true: false, layout: layout * 7 + bi as u32 % 5 * (layout.min(1)), crlf, break_brackets: brk, break_infix: false, paren_values: false, ..PrintOpts::default() };
                        let text = print_with(&base, opts).text;
                        judge(acc, "layout", format!("layout={} parens={} crlf={} break_brackets={}", layout, full_parens, crlf, brk), text, false);
                    }
                }
            }
        }
        {
            let opts = PrintOpts { break_infix: true, ..PrintOpts::default() };
            let text = print_with(&base, opts).text;
            judge(acc, "layout", "break_infix".to_string(), text, false);
            let opts = PrintOpts { break_brackets: true, comment_in_breaks: true, ..PrintOpts::default() };
            let text = print_with(&base, opts).text;
            judge(acc, "layout", "break_brackets with comments after separators".to_string(), text, false);
            let opts = PrintOpts { paren_callees: true, ..PrintOpts::default() };
            let text = print_with(&base, opts).text;
            judge(acc, "layout", "parenthesised callees".to_string(), text, false);
            // redundant parentheses around whole values (definitions, assignments, ret)
            let opts = PrintOpts { paren_values: true, ..PrintOpts::default() };
            let text = print_with(&base, opts).text;
            judge(acc, "layout", "paren_values".to_string(), text, false);
            let opts = PrintOpts { paren_values: true, full_parens: true, break_infix: true, layout: 1, ..PrintOpts::default() };
            let text = print_with(&base, opts).text;
            judge(acc, "layout", "paren_values full_parens break_infix noise".to_string(), text, false);
            let opts = PrintOpts { break_infix: true, break_brackets: true, layout: 2, ..PrintOpts::default() };
            let text = print_with(&base, opts).text;
            judge(acc, "layout", "break_infix break_brackets noise".to_string(), text, false);
        }
        // return sugar per site: every choice between a trailing expression and `ret e` at the first 4 tail sites (the
        // last expression statement of each function body)
        {
            let probe = PrintOpts { ret_mask: Some(0), ..PrintOpts::default() };
            let counter = probe.ret_sites.clone();
            let _ = print_with(&base, probe);
            let nret = (counter.load(std::sync::atomic::Ordering::Relaxed) as usize).min(4);
            for mask in 1..(1u64 << nret) {
                let opts = PrintOpts { ret_mask: Some(mask), ..PrintOpts::default() };
                let text = print_with(&base, opts).text;
                judge(acc, "sugar", format!("ret_mask={:b} of {} tail sites", mask, nret), text, true);
            }
            if nret > 0 {
                let opts = PrintOpts { ret_mask: Some(u64::MAX), loop_true: true, ..PrintOpts::default() };
                let text = print_with(&base, opts).text;
                judge(acc, "sugar", "ret at every tail site, loop true".to_string(), text, true);
            }
        }
        // sugar group: every style vector over the first k call sites x ret form x loop form
        let nsites = restyle(&mut base.clone(), &[]).min(ksites);
        let combos = 4usize.pow(nsites as u32);
        for combo in 0..combos {
            let mut styles = Vec::new();
            let mut c = combo;
            for _ in 0..nsites {
                styles.push(STYLES[c % 4]);
                c /= 4;
            }
            let mut v = base.clone();
            restyle(&mut v, &styles);
            for explicit_ret in [false, true] {
                for loop_true in [false, true] {
                    if combo == 0 && !explicit_ret && !loop_true {
                        continue;
                    }
                    let opts = PrintOpts { explicit_ret, loop_true, ..PrintOpts::default() };
                    let text = print_with(&v, opts).text;
                    judge(acc, "sugar", format!("styles={:?} explicit_ret={} loop_true={}", styles, explicit_ret, loop_true), text, true);
                }
            }
            // sugar and layout together: the same call styles with line breaks inside brackets and
            // argument lists (a prime call inherits the newline rules of the brackets around it)
            if combo != 0 {
                let opts = PrintOpts { break_brackets: true, ..PrintOpts::default() };
                let text = print_with(&v, opts).text;
                judge(acc, "sugar+layout", format!("styles={:?} break_brackets", styles), text, true);
                let opts = PrintOpts { break_brackets: true, layout: 3, full_parens: true, ..PrintOpts::default() };
                let text = print_with(&v, opts).text;
                judge(acc, "sugar+layout", format!("styles={:?} break_brackets noise parens", styles), text, true);
                // prime calls that are a whole statement value, bare, continued over lines after each comma
                for (brk, cmt) in [(false, false), (true, false), (true, true)] {
                    let opts = PrintOpts { bare_prime_statements: true, break_brackets: brk, comment_in_breaks: cmt, ..PrintOpts::default() };
                    let text = print_with(&v, opts).text;
                    judge(acc, "sugar+layout", format!("styles={:?} bare prime statements break={} comments={}", styles, brk, cmt), text, true);
                }
                // comments after the separators at line ends, and redundant parentheses around callees
                let opts = PrintOpts { break_brackets: true, comment_in_breaks: true, ..PrintOpts::default() };
                let text = print_with(&v, opts).text;
                judge(acc, "sugar+layout", format!("styles={:?} break_brackets with comments after separators", styles), text, true);
                let opts = PrintOpts { paren_callees: true, ..PrintOpts::default() };
                let text = print_with(&v, opts).text;
                judge(acc, "sugar+layout", format!("styles={:?} parenthesised callees", styles), text, true);
                // continuation lines: inside brackets every binary operator and every `->` starts a new line, and a prime
                // call in the last argument slot of a prime call stands without parentheses of its own
                let opts = PrintOpts { break_infix: true, ..PrintOpts::default() };
                let text = print_with(&v, opts).text;
                judge(acc, "sugar+layout", format!("styles={:?} break_infix", styles), text, true);
                let opts = PrintOpts { break_infix: true, break_brackets: true, ..PrintOpts::default() };
                let text = print_with(&v, opts).text;
                judge(acc, "sugar+layout", format!("styles={:?} break_infix break_brackets", styles), text, true);
            }
        }
        if bi % 97 == 0 {
            let opts = PrintOpts { full_parens: true, layout: 9, crlf: false, break_brackets: true, ..PrintOpts::default() };
            acc.sample(json!({"family": fam, "canonical": canon_text, "one_layout_variant": print_with(&base, opts).text}));
        }
    });
    let mut accs = accs;
    let mut tb = Stats::new();
    text_bases_family(&mut tb);
    accs.push(tb);
    run.stats = Stats::merge_all(accs);
    run.rule = "base programs: the statement families (short sequences), the recursion templates, expressions of size <= 1 in five call-heavy contexts and a feature-dense sample; per base every combination of 4 layout noise patterns (blank lines, comment lines, trailing comments, tab indentation) x redundant parentheses x CRLF x line breaks inside brackets (after `(`, `[`, `,`; and continuation lines that start with a binary operator or `->`) x redundant parentheses around whole values and around callees x comments after line-end separators x prime calls written bare as whole statement values (continued over lines after commas), and every call-style vector over the first k call sites (f(a), f' a, a -> f(), a -> f') x trailing expression vs ret x loop do vs loop true do, plus every per-site choice of trailing expression vs `ret e` over the first 4 function bodies that end in an expression; plus 10 programs given as text with marked tail sites and call sites (inferred return types, an early `ret` of a value that says less than the trailing expression - payload-less variant of a generic enum, empty list, tuple of those -, closures returning closures, a function in a blob field, inferred-return recursion, four ill-typed ones), every choice at every site: all forms accepted with the same Lua, or all rejected; non-trivial = the base compiles; distinct by base text".into();
    run.bounds = json!({"bases": bases.len(), "call_sites_varied": ksites});
    run.assumptions = vec![
        "layout variants are compared byte for byte after masking digit runs inside the message string of `__CRASH(\"...\")` (the source line of a reached `<!>`)".into(),
        "sugar variants are compared after renumbering V<n>/L<n> names by first occurrence (the statement does not fix temporary numbering)".into(),
    ];
}

pub fn replay(case: &serde_json::Value) -> Option<(String, String)> {
    let text = case["files"][MAIN].as_str()?;
    let canon = case["canonical"].as_str()?;
    let sugar = case["sugar"].as_bool().unwrap_or(true);
    match (compile_src(text), compile_src(canon)) {
        (Outcome::Ok(a), Outcome::Ok(b)) => {
            let (a, b) = (mask_lines(&a), mask_lines(&b));
            let same = if sugar { renumber(&a) == renumber(&b) } else { a == b };
            if same { None } else { Some(("variant-changes-lua".into(), String::new())) }
        }
        (other, Outcome::Ok(_)) => Some(("variant-rejected".into(), other.short())),
        (Outcome::Ok(_), _) => Some(("variant-accepted-but-canonical-rejected".into(), String::new())),
        _ => None,
    }
}
