//! C14 — call/return sugar and layout never change meaning: every surface-choice vector of
//! every base program compiles to the same Lua (layout: byte-identical after masking the line
//! number of `<!>`; sugar: identical after renumbering V/L names by first occurrence).

use crate::ast::*;
use crate::harness::*;
use crate::report::{Failure, Run, Stats};
use serde_json::json;

fn mask_lines(lua: &[u8]) -> Vec<u8> {
    // the message of a reached `<!>` names the source line: every run of digits inside the string literal handed
    // to __CRASH is masked, whatever the wording of the message
    let s = String::from_utf8_lossy(lua);
    let mut out = String::with_capacity(s.len());
    let pat = "__CRASH(\"";
    let mut rest = s.as_ref();
    while let Some(i) = rest.find(pat) {
        out.push_str(&rest[..i + pat.len()]);
        rest = &rest[i + pat.len()..];
        let end = rest.find("\")").unwrap_or(rest.len());
        let mut in_digits = false;
        for c in rest[..end].chars() {
            if c.is_ascii_digit() {
                if !in_digits {
                    out.push('N');
                }
                in_digits = true;
            } else {
                in_digits = false;
                out.push(c);
            }
        }
        rest = &rest[end..];
    }
    out.push_str(rest);
    out.into_bytes()
}

/// canonical renumbering of V<n> / L<n> by first occurrence, outside string literals
fn renumber(lua: &[u8]) -> Vec<u8> {
    let mut out = Vec::with_capacity(lua.len());
    let mut map: std::collections::HashMap<Vec<u8>, usize> = std::collections::HashMap::new();
    let mut i = 0;
    let n = lua.len();
    while i < n {
        let c = lua[i];
        if c == b'"' {
            out.push(c);
            i += 1;
            while i < n {
                out.push(lua[i]);
                if lua[i] == b'\\' && i + 1 < n {
                    out.push(lua[i + 1]);
                    i += 2;
                    continue;
                }
                if lua[i] == b'"' {
                    i += 1;
                    break;
                }
                i += 1;
            }
            continue;
        }
        let ident_start = c.is_ascii_alphabetic() || c == b'_';
        if ident_start {
            let s = i;
            while i < n && (lua[i].is_ascii_alphanumeric() || lua[i] == b'_') {
                i += 1;
            }
            let w = &lua[s..i];
            // generated names: one to three capital letters followed by digits only (V12, L3 - whatever the prefix is)
            let np = w.iter().take_while(|b| b.is_ascii_uppercase()).count();
            if np >= 1 && np <= 3 && w.len() > np && w[np..].iter().all(|b| b.is_ascii_digit()) {
                let k = map.len();
                let id = *map.entry(w.to_vec()).or_insert(k);
                out.extend_from_slice(&w[..np]);
                out.extend_from_slice(format!("#{}", id).as_bytes());
            } else {
                out.extend_from_slice(w);
            }
            continue;
        }
        out.push(c);
        i += 1;
    }
    out
}

fn base_programs(thorough: bool) -> Vec<(String, Program)> {
    let mut v = Vec::new();
    // statement families with short sequences and the recursion templates
    for (fam, p) in crate::stmtfam::all_programs_len(if thorough { 3 } else { 2 }) {
        v.push((fam, p));
    }
    // expressions of size <= 1 in a few call-heavy contexts
    let space = crate::engines::c01::expr_space(1);
    for (t, size, xs) in &space {
        for (i, e) in xs.iter().enumerate() {
            if !thorough && i % 4 != 0 {
                continue;
            }
            for c in if thorough { vec![0usize, 3, 13, 15, 23] } else { vec![0usize, 13, 23] } {
                if let Some(p) = crate::families::place(c, *t, e.clone()) {
                    v.push((format!("expr:{:?}:size{}@{}", t, size, crate::families::context_name(c)), p));
                }
            }
        }
    }
    // a program with `<!>` and `loop do`
    let mut p = crate::selftest::sample();
    number_unreachables(&mut p);
    v.push(("sample".into(), p));
    v
}

const STYLES: [CallStyle; 4] = [CallStyle::Paren, CallStyle::Prime, CallStyle::Arrow, CallStyle::ArrowPrime];

pub fn run(run: &mut Run) {
    let thorough = run.thorough();
    let bases = base_programs(thorough);
    let ksites = if thorough { 4 } else { 3 };
    let accs = crate::pool::par_items(&bases, 4, |_| Stats::new(), |acc, bi, (fam, base)| {
        let mut base = base.clone();
        number_unreachables(&mut base);
        let canon_text = print_program(&base).text;
        let canon = match compile_src(&canon_text) {
            Outcome::Ok(b) => b,
            _ => {
                acc.count("base-rejected", 1);
                // a form that differs only in layout / redundant parentheses must then be rejected as well
                for (desc, opts) in [
                    ("paren_values", PrintOpts { paren_values: true, ..PrintOpts::default() }),
                    ("full_parens", PrintOpts { full_parens: true, ..PrintOpts::default() }),
                    ("break_brackets", PrintOpts { break_brackets: true, ..PrintOpts::default() }),
                    ("noise", PrintOpts { layout: 2, ..PrintOpts::default() }),
                ] {
                    let text = print_with(&base, opts).text;
                    acc.evaluations += 1;
                    if compile_src(&text).is_ok() {
                        acc.outcome("layout-variant-accepted-but-canonical-rejected");
                        let mut files = serde_json::Map::new();
                        files.insert(MAIN.to_string(), json!(text));
                        acc.fail(Failure {
                            sig: "layout-variant-rejected".into(),
                            preds: vec![format!("variant:{}", desc)],
                            detail: format!("family {}: the canonical text is rejected but the variant [{}] is accepted\ncanonical text:\n{}\nvariant:\n{}", fam, desc, canon_text, text),
                            case: json!({"engine": "c14", "files": files, "canonical": canon_text, "sugar": false}),
                            size: text.len(),
                        });
                    }
                }
                return;
            }
        };
        acc.states += 1;
        acc.nontrivial(fnv(canon_text.as_bytes()));
        let canon_masked = mask_lines(&canon);
        let canon_renum = renumber(&canon_masked);
        let mut judge = |acc: &mut Stats, group: &str, desc: String, text: String, sugar: bool| {
            acc.evaluations += 1;
            acc.transitions += 1;
            let out = compile_src(&text);
            let fail = match &out {
                Outcome::Ok(b) => {
                    let m = mask_lines(b);
                    if !sugar {
                        if m == canon_masked { None } else { Some((format!("{}-changes-lua", group), "emitted Lua differs".to_string())) }
                    } else if renumber(&m) == canon_renum {
                        None
                    } else {
                        Some((format!("{}-changes-lua", group), "emitted Lua differs (after renumbering of V/L names)".to_string()))
                    }
                }
                Outcome::Err { errs, .. } => Some((format!("{}-variant-rejected", group), errs.first().map(|e| e.dbg.clone()).unwrap_or_default())),
                Outcome::Panic { msg, .. } => Some(("panic".to_string(), msg.clone())),
            };
            match fail {
                None => acc.outcome(&format!("{}:same-lua", group)),
                Some((sig, detail)) => {
                    acc.outcome(&sig);
                    let mut files = serde_json::Map::new();
                    files.insert(MAIN.to_string(), json!(text));
                    acc.fail(Failure {
                        sig,
                        preds: vec![format!("variant:{}", desc.split(' ').next().unwrap_or(""))],
                        detail: format!("variant [{}] of family {}:\n{}\n{}\ncanonical text:\n{}", desc, fam, text, detail, canon_text),
                        case: json!({"engine": "c14", "files": files, "canonical": canon_text, "sugar": sugar}),
                        size: text.len(),
                    });
                }
            }
        };
        // layout group
        for layout in 0..4u32 {
            for full_parens in [false, true] {
                for crlf in [false, true] {
                    for brk in [false, true] {
                        if layout == 0 && !full_parens && !crlf && !brk {
                            continue;
                        }
                        let opts = PrintOpts { full_parens, explicit_ret: false, loop_true: false, layout: layout * 7 + bi as u32 % 5 * (layout.min(1)), crlf, break_brackets: brk, break_infix: false, paren_values: false, ..PrintOpts::default() };
                        let text = print_with(&base, opts).text;
                        judge(acc, "layout", format!("layout={} parens={} crlf={} break_brackets={}", layout, full_parens, crlf, brk), text, false);
                    }
                }
            }
        }
        {
            let opts = PrintOpts { break_infix: true, ..PrintOpts::default() };
            let text = print_with(&base, opts).text;
            judge(acc, "layout", "break_infix".to_string(), text, false);
            let opts = PrintOpts { break_brackets: true, comment_in_breaks: true, ..PrintOpts::default() };
            let text = print_with(&base, opts).text;
            judge(acc, "layout", "break_brackets with comments after separators".to_string(), text, false);
            let opts = PrintOpts { paren_callees: true, ..PrintOpts::default() };
            let text = print_with(&base, opts).text;
            judge(acc, "layout", "parenthesised callees".to_string(), text, false);
            // redundant parentheses around whole values (definitions, assignments, ret)
            let opts = PrintOpts { paren_values: true, ..PrintOpts::default() };
            let text = print_with(&base, opts).text;
            judge(acc, "layout", "paren_values".to_string(), text, false);
            let opts = PrintOpts { paren_values: true, full_parens: true, break_infix: true, layout: 1, ..PrintOpts::default() };
            let text = print_with(&base, opts).text;
            judge(acc, "layout", "paren_values full_parens break_infix noise".to_string(), text, false);
            let opts = PrintOpts { break_infix: true, break_brackets: true, layout: 2, ..PrintOpts::default() };
            let text = print_with(&base, opts).text;
            judge(acc, "layout", "break_infix break_brackets noise".to_string(), text, false);
        }
        // return sugar per site: every choice between a trailing expression and `ret e` at the first 4 tail sites (the
        // last expression statement of each function body)
        {
            let probe = PrintOpts { ret_mask: Some(0), ..PrintOpts::default() };
            let counter = probe.ret_sites.clone();
            let _ = print_with(&base, probe);
            let nret = (counter.load(std::sync::atomic::Ordering::Relaxed) as usize).min(4);
            for mask in 1..(1u64 << nret) {
                let opts = PrintOpts { ret_mask: Some(mask), ..PrintOpts::default() };
                let text = print_with(&base, opts).text;
                judge(acc, "sugar", format!("ret_mask={:b} of {} tail sites", mask, nret), text, true);
            }
            if nret > 0 {
                let opts = PrintOpts { ret_mask: Some(u64::MAX), loop_true: true, ..PrintOpts::default() };
                let text = print_with(&base, opts).text;
                judge(acc, "sugar", "ret at every tail site, loop true".to_string(), text, true);
            }
        }
        // sugar group: every style vector over the first k call sites x ret form x loop form
        let nsites = restyle(&mut base.clone(), &[]).min(ksites);
        let combos = 4usize.pow(nsites as u32);
        for combo in 0..combos {
            let mut styles = Vec::new();
            let mut c = combo;
            for _ in 0..nsites {
                styles.push(STYLES[c % 4]);
                c /= 4;
            }
            let mut v = base.clone();
            restyle(&mut v, &styles);
            for explicit_ret in [false, true] {
                for loop_true in [false, true] {
                    if combo == 0 && !explicit_ret && !loop_true {
                        continue;
                    }
                    let opts = PrintOpts { explicit_ret, loop_true, ..PrintOpts::default() };
                    let text = print_with(&v, opts).text;
                    judge(acc, "sugar", format!("styles={:?} explicit_ret={} loop_true={}", styles, explicit_ret, loop_true), text, true);
                }
            }
            // sugar and layout together: the same call styles with line breaks inside brackets and
            // argument lists (a prime call inherits the newline rules of the brackets around it)
            if combo != 0 {
                let opts = PrintOpts { break_brackets: true, ..PrintOpts::default() };
                let text = print_with(&v, opts).text;
                judge(acc, "sugar+layout", format!("styles={:?} break_brackets", styles), text, true);
                let opts = PrintOpts { break_brackets: true, layout: 3, full_parens: true, ..PrintOpts::default() };
                let text = print_with(&v, opts).text;
                judge(acc, "sugar+layout", format!("styles={:?} break_brackets noise parens", styles), text, true);
                // prime calls that are a whole statement value, bare, continued over lines after each comma
                for (brk, cmt) in [(false, false), (true, false), (true, true)] {
                    let opts = PrintOpts { bare_prime_statements: true, break_brackets: brk, comment_in_breaks: cmt, ..PrintOpts::default() };
                    let text = print_with(&v, opts).text;
                    judge(acc, "sugar+layout", format!("styles={:?} bare prime statements break={} comments={}", styles, brk, cmt), text, true);
                }
                // comments after the separators at line ends, and redundant parentheses around callees
                let opts = PrintOpts { break_brackets: true, comment_in_breaks: true, ..PrintOpts::default() };
                let text = print_with(&v, opts).text;
                judge(acc, "sugar+layout", format!("styles={:?} break_brackets with comments after separators", styles), text, true);
                let opts = PrintOpts { paren_callees: true, ..PrintOpts::default() };
                let text = print_with(&v, opts).text;
                judge(acc, "sugar+layout", format!("styles={:?} parenthesised callees", styles), text, true);
                // continuation lines: inside brackets every binary operator and every `->` starts a new line, and a prime
                // call in the last argument slot of a prime call stands without parentheses of its own
                let opts = PrintOpts { break_infix: true, ..PrintOpts::default() };
                let text = print_with(&v, opts).text;
                judge(acc, "sugar+layout", format!("styles={:?} break_infix", styles), text, true);
                let opts = PrintOpts { break_infix: true, break_brackets: true, ..PrintOpts::default() };
                let text = print_with(&v, opts).text;
                judge(acc, "sugar+layout", format!("styles={:?} break_infix break_brackets", styles), text, true);
            }
        }
        if bi % 97 == 0 {
            let opts = PrintOpts { full_parens: true, layout: 9, crlf: false, break_brackets: true, ..PrintOpts::default() };
            acc.sample(json!({"family": fam, "canonical": canon_text, "one_layout_variant": print_with(&base, opts).text}));
        }
    });
    run.stats = Stats::merge_all(accs);
    run.rule = "base programs: the statement families (short sequences), the recursion templates, expressions of size <= 1 in five call-heavy contexts and a feature-dense sample; per base every combination of 4 layout noise patterns (blank lines, comment lines, trailing comments, tab indentation) x redundant parentheses x CRLF x line breaks inside brackets (after `(`, `[`, `,`; and continuation lines that start with a binary operator or `->`) x redundant parentheses around whole values and around callees x comments after line-end separators x prime calls written bare as whole statement values (continued over lines after commas), and every call-style vector over the first k call sites (f(a), f' a, a -> f(), a -> f') x trailing expression vs ret x loop do vs loop true do, plus every per-site choice of trailing expression vs `ret e` over the first 4 function bodies that end in an expression; non-trivial = the base compiles; distinct by base text".into();
    run.bounds = json!({"bases": bases.len(), "call_sites_varied": ksites});
    run.assumptions = vec![
        "layout variants are compared byte for byte after masking digit runs inside the message string of `__CRASH(\"...\")` (the source line of a reached `<!>`)".into(),
        "sugar variants are compared after renumbering V<n>/L<n> names by first occurrence (the statement does not fix temporary numbering)".into(),
    ];
}

pub fn replay(case: &serde_json::Value) -> Option<(String, String)> {
    let text = case["files"][MAIN].as_str()?;
    let canon = case["canonical"].as_str()?;
    let sugar = case["sugar"].as_bool().unwrap_or(true);
    match (compile_src(text), compile_src(canon)) {
        (Outcome::Ok(a), Outcome::Ok(b)) => {
            let (a, b) = (mask_lines(&a), mask_lines(&b));
            let same = if sugar { renumber(&a) == renumber(&b) } else { a == b };
            if same { None } else { Some(("variant-changes-lua".into(), String::new())) }
        }
        (other, Outcome::Ok(_)) => Some(("variant-rejected".into(), other.short())),
        _ => None,
    }
}
