//! C08 — annotations are optional and never change the code: every subset of the annotation
//! sites of every base program must be accepted and compile to byte-identical Lua.

use crate::ast::*;
use crate::families::*;
use crate::harness::*;
use crate::report::{Failure, Run, Stats};
use serde_json::json;
use std::sync::atomic::AtomicBool;
use std::sync::Arc;

/// base program with every site annotated; `extra` adds two more sites (a closure)
fn base(t: T, e: Expr, extra: bool) -> Program {
    let ty = t.ty();
    let mut tops = vec![
        Top::External { name: "print".into(), ty: "fn *X -> void".into() },
        Top::Blob { name: "P".into(), fields: vec![("x".into(), Ty::Int), ("y".into(), Ty::Int)] },
        Top::Enum { name: "E".into(), variants: vec![("A".into(), Some(Ty::Int)), ("B".into(), None)] },
    ];
    // the expression generator's environment, fully annotated where it is not a site under test
    for top in prelude() {
        match top {
            Top::External { .. } | Top::Blob { .. } | Top::Enum { .. } => {}
            other => tops.push(other),
        }
    }
    tops.push(Top::Def { name: "gk".into(), mutable: false, ty: Some(ty.clone()), value: t.default() });
    tops.push(Top::Def { name: "gm".into(), mutable: true, ty: Some(ty.clone()), value: e });
    tops.push(Top::Def {
        name: "w".into(),
        mutable: false,
        ty: None,
        value: Expr::Fn(Arc::new(FnLit {
            params: vec![("q".into(), Some(ty.clone())), ("r".into(), Some(Ty::Int))],
            ret: RetAnn::Ty(ty.clone()),
            body: vec![Stmt::Def { name: "x".into(), mutable: true, ty: Some(ty.clone()), value: var("q") }, if_e_stmt(bin(BinOp::Gt, var("r"), int(5)), vec![Stmt::Ret(Some(var("gk")))]), Stmt::Expr(var("x"))],
            pure: false,
        })),
    });
    let mut body = vec![
        Stmt::Def { name: "y".into(), mutable: true, ty: Some(ty.clone()), value: callv("w", vec![var("gm"), int(1)]) },
        Stmt::Def { name: "z".into(), mutable: false, ty: Some(Ty::Int), value: int(5) },
    ];
    if extra {
        body.push(Stmt::Def {
            name: "cl".into(),
            mutable: false,
            ty: None,
            value: Expr::Fn(Arc::new(FnLit { params: vec![("u".into(), Some(ty.clone()))], ret: RetAnn::Ty(ty.clone()), body: vec![Stmt::Expr(var("u"))], pure: false })),
        });
        body.push(Stmt::Assign { target: var("y"), op: None, value: callv("cl", vec![var("y")]) });
    }
    body.push(print_of(bin(BinOp::Eq, var("y"), var("gk"))));
    body.push(print_of(var("z")));
    tops.push(start_fn(body));
    Program { tops }
}

fn if_e_stmt(c: Expr, t: Vec<Stmt>) -> Stmt {
    Stmt::Expr(if_e(c, t, None))
}

/// annotation sites in print order: (erase closure applied by index)
fn erase(p: &mut Program, mask: u32, only_count: bool) -> u32 {
    let mut idx = 0u32;
    let mut site = |slot_is_some: bool, idx: &mut u32| -> bool {
        // returns true when this site must be erased
        if !slot_is_some {
            return false;
        }
        let i = *idx;
        *idx += 1;
        !only_count && (mask >> i) & 1 == 0
    };
    fn block(b: &mut Vec<Stmt>, site: &mut dyn FnMut(bool, &mut u32) -> bool, idx: &mut u32) {
        for s in b.iter_mut() {
            match s {
                Stmt::Def { ty, value, .. } => {
                    if site(ty.is_some(), idx) {
                        *ty = None;
                    }
                    expr(value, site, idx);
                }
                Stmt::Expr(e) | Stmt::Ret(Some(e)) => expr(e, site, idx),
                Stmt::Assign { value, .. } => expr(value, site, idx),
                Stmt::Loop(_, b) | Stmt::Block(b) => block(b, site, idx),
                _ => {}
            }
        }
    }
    fn expr(e: &mut Expr, site: &mut dyn FnMut(bool, &mut u32) -> bool, idx: &mut u32) {
        match e {
            Expr::Fn(f) => {
                let f = Arc::make_mut(f);
                for (_, t) in f.params.iter_mut() {
                    let is_fn = matches!(t, Some(Ty::Fn(..)) | Some(Ty::PuFn(..)));
                    if !is_fn && site(t.is_some(), idx) {
                        *t = None;
                    }
                }
                if let RetAnn::Ty(_) = f.ret {
                    if site(true, idx) {
                        f.ret = RetAnn::Implied;
                    }
                }
                block(&mut f.body, site, idx);
            }
            Expr::If(bs, el) => {
                for (_, b) in bs.iter_mut() {
                    block(b, site, idx);
                }
                if let Some(b) = el {
                    block(b, site, idx);
                }
            }
            _ => {}
        }
    }
    // only the sites of the definitions under test: gk, gm, w, and start's body
    for t in p.tops.iter_mut() {
        if let Top::Def { name, ty, value, .. } = t {
            if !["gk", "gm", "w", "start", "ga", "gf", "k"].contains(&name.as_str()) {
                continue;
            }
            if site(ty.is_some(), &mut idx) {
                *ty = None;
            }
            expr(value, &mut site, &mut idx);
        }
    }
    idx
}

/// hand-written bases: generic blobs instantiated at two types, function-typed variable definitions
/// whose value is a call (not a literal), a definition that shadows a name its value uses
fn extra_bases() -> Vec<(&'static str, Program)> {
    let pr = || Top::External { name: "print".into(), ty: "fn *X -> void".into() };
    let fn_ii = Ty::Fn(vec![Ty::Int], Box::new(Ty::Int));
    let mut v = Vec::new();
    // generic blob, annotation without type arguments, two instantiations
    v.push((
        "generic-blob-two-instantiations",
        Program {
            tops: vec![
                pr(),
                Top::Raw("Box :: blob(*T) { value: *T }".into()),
                Top::Def { name: "ga".into(), mutable: false, ty: Some(Ty::User("Box".into())), value: Expr::Blob("Box".into(), vec![("value".into(), int(1))]) },
                start_fn(vec![
                    Stmt::Def { name: "a".into(), mutable: false, ty: Some(Ty::User("Box".into())), value: Expr::Blob("Box".into(), vec![("value".into(), int(1))]) },
                    Stmt::Def { name: "b".into(), mutable: false, ty: Some(Ty::User("Box".into())), value: Expr::Blob("Box".into(), vec![("value".into(), s("two"))]) },
                    Stmt::Def { name: "c".into(), mutable: true, ty: Some(Ty::User("Box".into())), value: Expr::Blob("Box".into(), vec![("value".into(), Expr::Tuple(vec![int(1), int(2)]))]) },
                    print_of(field(var("a"), "value")),
                    print_of(field(var("b"), "value")),
                    print_of(field(var("c"), "value")),
                    print_of(field(var("ga"), "value")),
                ]),
            ],
        },
    ));
    v.push((
        "generic-enum-two-instantiations",
        Program {
            tops: vec![
                pr(),
                Top::Raw("Opt :: enum(*T)\n    Some *T,\n    Non,\nend".into()),
                start_fn(vec![
                    Stmt::Def { name: "a".into(), mutable: false, ty: Some(Ty::User("Opt".into())), value: Expr::Variant("Opt".into(), "Some".into(), Some(Box::new(int(1)))) },
                    Stmt::Def { name: "b".into(), mutable: false, ty: Some(Ty::User("Opt".into())), value: Expr::Variant("Opt".into(), "Some".into(), Some(Box::new(s("x")))) },
                    Stmt::Def { name: "c".into(), mutable: false, ty: Some(Ty::User("Opt".into())), value: Expr::Variant("Opt".into(), "Non".into(), None) },
                    print_of(var("a")),
                    print_of(var("b")),
                    print_of(var("c")),
                ]),
            ],
        },
    ));
    // non-generic types with a still-open part, named by several annotation sites at different closings
    let u = |n: &str| Some(Ty::User(n.into()));
    v.push((
        "blob-with-wildcard-field-two-closings",
        Program {
            tops: vec![
                pr(),
                Top::Raw("Box2 :: blob { tag: str, value: * }".into()),
                top_fn("describe", vec![("b", u("Box2"))], RetAnn::Ty(Ty::Str), vec![Stmt::Expr(field(var("b"), "tag"))]),
                start_fn(vec![
                    Stmt::Def { name: "count".into(), mutable: false, ty: u("Box2"), value: Expr::Blob("Box2".into(), vec![("tag".into(), s("count")), ("value".into(), int(3))]) },
                    Stmt::Def { name: "ratio".into(), mutable: true, ty: u("Box2"), value: Expr::Blob("Box2".into(), vec![("tag".into(), s("ratio")), ("value".into(), Expr::Float(0.5))]) },
                    print_of(callv("describe", vec![var("count")])),
                    print_of(callv("describe", vec![var("ratio")])),
                    print_of(bin(BinOp::Add, field(var("count"), "value"), int(1))),
                    print_of(bin(BinOp::Mul, field(var("ratio"), "value"), Expr::Float(2.0))),
                ]),
            ],
        },
    ));
    v.push((
        "blob-with-function-field-pure-and-impure-implementation",
        Program {
            tops: vec![
                pr(),
                Top::Raw("Spider :: blob { hp: int, eat: fn -> void }".into()),
                start_fn(vec![
                    Stmt::Def { name: "lazy".into(), mutable: false, ty: u("Spider"), value: Expr::Blob("Spider".into(), vec![("hp".into(), int(1)), ("eat".into(), Expr::Fn(Arc::new(FnLit { params: vec![], ret: RetAnn::Void, body: vec![], pure: true })))]) },
                    Stmt::Def { name: "busy".into(), mutable: false, ty: u("Spider"), value: Expr::Blob("Spider".into(), vec![("hp".into(), int(2)), ("eat".into(), lambda(vec![], RetAnn::Void, vec![print_of(s("yum"))]))]) },
                    Stmt::Expr(call(field(var("lazy"), "eat"), vec![])),
                    Stmt::Expr(call(field(var("busy"), "eat"), vec![])),
                    print_of(bin(BinOp::Add, field(var("lazy"), "hp"), field(var("busy"), "hp"))),
                ]),
            ],
        },
    ));
    v.push((
        "blob-with-bare-generic-enum-field-two-closings",
        Program {
            tops: vec![
                pr(),
                Top::Raw("Opt2 :: enum(*T)\n    Some *T,\n    Non,\nend".into()),
                Top::Raw("Slot :: blob { name: str, content: Opt2 }".into()),
                start_fn(vec![
                    Stmt::Def { name: "a".into(), mutable: false, ty: u("Slot"), value: Expr::Blob("Slot".into(), vec![("name".into(), s("a")), ("content".into(), Expr::Variant("Opt2".into(), "Some".into(), Some(Box::new(int(1)))))]) },
                    Stmt::Def { name: "b".into(), mutable: false, ty: u("Slot"), value: Expr::Blob("Slot".into(), vec![("name".into(), s("b")), ("content".into(), Expr::Variant("Opt2".into(), "Some".into(), Some(Box::new(s("x")))))]) },
                    print_of(field(var("a"), "name")),
                    print_of(field(var("b"), "name")),
                ]),
            ],
        },
    ));
    // function-typed definitions whose value is computed
    let twice = top_fn("twice", vec![("f", Some(fn_ii.clone()))], RetAnn::Ty(fn_ii.clone()), vec![Stmt::Expr(lambda(vec![("q", Some(Ty::Int))], RetAnn::Ty(Ty::Int), vec![Stmt::Expr(callv("f", vec![callv("f", vec![var("q")])]))]))]);
    v.push((
        "function-typed-definition-from-a-call",
        Program {
            tops: vec![
                pr(),
                twice.clone(),
                Top::Def { name: "gf".into(), mutable: false, ty: Some(fn_ii.clone()), value: callv("twice", vec![lambda(vec![("n", Some(Ty::Int))], RetAnn::Ty(Ty::Int), vec![Stmt::Expr(bin(BinOp::Add, var("n"), int(1)))])]) },
                start_fn(vec![
                    Stmt::Def { name: "f".into(), mutable: false, ty: Some(fn_ii.clone()), value: callv("twice", vec![lambda(vec![("n", Some(Ty::Int))], RetAnn::Ty(Ty::Int), vec![def("m", bin(BinOp::Mul, var("n"), int(2))), Stmt::Expr(var("m"))])]) },
                    Stmt::Def { name: "h".into(), mutable: true, ty: Some(fn_ii.clone()), value: var("f") },
                    print_of(callv("f", vec![int(1)])),
                    print_of(callv("h", vec![int(2)])),
                    print_of(callv("gf", vec![int(3)])),
                ]),
            ],
        },
    ));
    v.push((
        "definition-shadowing-a-name-used-in-its-value",
        Program {
            tops: vec![
                pr(),
                twice,
                top_fn("inc", vec![("q", Some(Ty::Int))], RetAnn::Ty(Ty::Int), vec![Stmt::Expr(bin(BinOp::Add, var("q"), int(1)))]),
                Top::Def { name: "k".into(), mutable: false, ty: Some(Ty::Int), value: int(40) },
                start_fn(vec![
                    Stmt::Def { name: "inc".into(), mutable: false, ty: Some(fn_ii.clone()), value: callv("twice", vec![var("inc")]) },
                    Stmt::Def { name: "k".into(), mutable: false, ty: Some(Ty::Int), value: callv("inc", vec![var("k")]) },
                    Stmt::Def { name: "t".into(), mutable: false, ty: Some(Ty::Tuple(vec![Ty::Int, fn_ii.clone()])), value: Expr::Tuple(vec![var("k"), var("inc")]) },
                    print_of(var("k")),
                    print_of(call(Expr::Index(Box::new(var("t")), 1), vec![int(0)])),
                ]),
            ],
        },
    ));
    v
}

fn check_base(acc: &mut Stats, name: &str, full: &Program) {
    let nsites = erase(&mut full.clone(), 0, true);
    let mut erased = full.clone();
    erase(&mut erased, 0, false);
    let erased_text = print_program(&erased).text;
    let ref_bytes = match compile_src(&erased_text) {
        Outcome::Ok(b) => b,
        other => {
            acc.count("base-rejected-without-annotations", 1);
            acc.sample(json!({"base_rejected": erased_text, "result": other.short()}));
            return;
        }
    };
    acc.states += 1;
    acc.nontrivial(fnv(erased_text.as_bytes()));
    for mask in 1..(1u32 << nsites) {
        let mut v = full.clone();
        erase(&mut v, mask, false);
        let text = print_program(&v).text;
        let out = compile_src(&text);
        acc.evaluations += 1;
        let fail = match &out {
            Outcome::Ok(b) if *b == ref_bytes => None,
            Outcome::Ok(_) => Some(("annotation-changes-lua".to_string(), "the emitted Lua differs from that of the un-annotated program".to_string())),
            Outcome::Err { errs, .. } => Some(("annotated-variant-rejected".to_string(), errs.first().map(|e| e.dbg.clone()).unwrap_or_default())),
            Outcome::Panic { msg, .. } => Some(("panic".to_string(), msg.clone())),
        };
        match fail {
            None => acc.outcome("accepted-same-bytes"),
            Some((sig, detail)) => {
                acc.outcome(&sig);
                let mut files = serde_json::Map::new();
                files.insert(MAIN.to_string(), json!(text));
                acc.fail(Failure { sig, preds: vec![format!("base:{}", name)], detail: format!("annotated variant (mask {:b} of {} sites) of {}:\n{}\n{}\nun-annotated program:\n{}", mask, nsites, name, text, detail, erased_text), case: json!({"engine": "c08", "files": files, "erased": erased_text}), size: text.len() });
            }
        }
    }
}

/// surface templates with annotation sites written as `{{annotated||erased}}`: material that follows a site on the
/// same line (one-line functions and branches with `<!>` / `<=>`, strings that span lines, comments, non-ASCII)
const TEXT_TEMPLATES: &[(&str, &str, &[(&str, &str)])] = &[
    (
        "one-line-functions-and-branches",
        "print: fn *X -> void : external\nf :: fn a{{: int||}}, b{{: str||}} do <!> end\ng :: fn a{{: int||}} do a <=> 1 end\nh :: fn a{{: int||}}, b{{: int||}} -> a + b end\nstart :: fn do\n    x{{: int = || := }}(if false do <!> else 1 end)\n    y{{: int : || :: }}h(x, 2)\n    g(1)\n    if y < 0 do f(1, \"s\") end\n    print(x + y)\nend\n",
        &[],
    ),
    (
        "sites-before-multi-line-and-non-ascii-text",
        "print: fn *X -> void : external\nk{{: str : || :: }}\"é\nü\" // ü\nstart :: fn do\n    s{{: str = || := }}\"a\nb\" + k\n    t{{: (int, str) : || :: }}(1, \"ö\") // c\n    if t[0] > 5 do <!> end\n    w :: fn q{{: int||}} -> q + 1 end\n    print(s)\n    print(w(t[0]))\n    if s == \"\" do <!> end\nend\n",
        &[],
    ),
    (
        "sites-in-nested-one-line-closures",
        "print: fn *X -> void : external\nstart :: fn do\n    mk :: fn a{{: int||}} -> fn b{{: int||}} -> fn c{{: int||}} do if a + b + c < 0 do <!> end end end end\n    mk(1)(2)(3)\n    z{{: bool = || := }}(1 <=> 1)\n    print(z)\nend\n",
        &[],
    ),
    (
        "lambdas-in-brackets-with-user-type-results",
        "print: fn *X -> void : external\nP :: blob { x: int, y: int }\nE :: enum\n    A int,\n    B,\nend\nOpt :: enum(*T)\n    Some *T,\n    Non,\nend\nap :: fn f: fn int -> *R, v: int -> *R\n    f(v)\nend\nstart :: fn do\n    p :: ap(fn a{{: int||}} ->{{ P||}}\n        q :: P { x: a, y: 2 }\n        q\n    end, 1)\n    e :: ap(fn a{{: int||}} ->{{ E||}}\n        q :: E.A a\n        q\n    end, 2)\n    o :: ap(fn a{{: int||}} ->{{ Opt(int)||}}\n        q :: Opt.Some a\n        q\n    end, 3)\n    l :: (fn a{{: int||}} ->{{ P||}}\n        q :: P { x: a, y: 3 }\n        q\n    end, 0)\n    print(p.x + p.y)\n    print(e)\n    print(o)\n    print(l[0](4).x)\nend\n",
        &[],
    ),
    (
        "types-qualified-by-one-and-two-namespaces",
        "use geometry\nuse geometry as geo\nfrom geometry use Size\nprint: fn *X -> void : external\ngp{{: geometry.shapes.Point : || :: }}geometry.origin()\nstart :: fn do\n    p{{: geometry.shapes.Point = || := }}geometry.origin()\n    q{{: geometry.Size = || := }}geometry.unit()\n    r{{: geo.shapes.Point : || :: }}geo.origin()\n    t{{: Size : || :: }}geometry.unit()\n    w :: fn a{{: geometry.shapes.Point||}}, b{{: geo.Size||}} -> a.x + b.w end\n    print(p.x + q.w + r.y + t.w + w(p, q) + gp.x)\nend\n",
        &[("/p/geometry.sy", "use shapes\nSize :: blob { w: int }\norigin :: fn -> shapes.Point\n    shapes.Point { x: 1, y: 2 }\nend\nunit :: fn -> Size\n    Size { w: 3 }\nend\n"), ("/p/shapes.sy", "Point :: blob { x: int, y: int }\n")],
    ),
];

/// wide types: N annotated parameters, an N-tuple local, an N-tuple result, a tuple of tuples and a list of
/// N-tuples - five sites each, for N around the usual thresholds
fn wide_templates() -> Vec<(String, String, Vec<(String, String)>)> {
    let mut v = Vec::new();
    for n in [2usize, 8, 9, 16, 17, 31, 32, 33, 34, 63, 64, 65] {
        let ints = |k: usize| vec!["int"; k].join(", ");
        let vals = |k: usize, d: usize| (0..k).map(|i| format!("{}", i * 3 + d)).collect::<Vec<_>>().join(", ");
        let side = (n as f64).sqrt().ceil() as usize + 1;
        let mut t = String::from("print: fn *X -> void : external\n");
        t.push_str(&format!(
            "sum :: fn {{{{{}||{}}}}} -> int do\n    acc := 0\n{}    acc\nend\n",
            (0..n).map(|i| format!("p{}: int", i)).collect::<Vec<_>>().join(", "),
            (0..n).map(|i| format!("p{}", i)).collect::<Vec<_>>().join(", "),
            (0..n).map(|i| format!("    acc += p{} * {}\n", i, i + 1)).collect::<String>()
        ));
        t.push_str(&format!("mk :: fn ->{{{{ ({},)||}}}}\n    ({},)\nend\n", ints(n), vals(n, 1)));
        t.push_str("start :: fn do\n");
        t.push_str(&format!("    t{{{{: ({},) = || := }}}}({},)\n", ints(n), vals(n, 1)));
        let row_t = format!("({},)", ints(side));
        let row_v = |d: usize| format!("({},)", vals(side, d));
        t.push_str(&format!("    g{{{{: ({},) = || := }}}}({},)\n", vec![row_t.clone(); side].join(", "), (0..side).map(|d| row_v(d)).collect::<Vec<_>>().join(", ")));
        t.push_str(&format!("    l{{{{: [({},)] = || := }}}}[({},), ({},)]\n", ints(n), vals(n, 1), vals(n, 2)));
        t.push_str(&format!("    print(sum({}))\n    print(t == mk())\n    print(t[{}])\n    print(g[{}][{}])\n    print(l == [t, t])\n    print(l == [t, ({},)])\nend\n", vals(n, 1), n - 1, side - 1, side - 1, vals(n, 2)));
        v.push((format!("wide-types-{}", n), t, Vec::new()));
    }
    v
}

fn check_text_templates(acc: &mut Stats) {
    let mut templates: Vec<(String, String, Vec<(String, String)>)> = TEXT_TEMPLATES.iter().map(|(n, t, e)| (n.to_string(), t.to_string(), e.iter().map(|(a, b)| (a.to_string(), b.to_string())).collect())).collect();
    templates.extend(wide_templates());
    for (name, tpl, extra) in templates.iter() {
        // split into literal pieces and sites
        let mut pieces: Vec<(String, Option<(String, String)>)> = Vec::new();
        let mut rest: &str = tpl.as_str();
        while let Some(p) = rest.find("{{") {
            let q = rest[p..].find("}}").expect("site end") + p;
            let inner = &rest[p + 2..q];
            let (a, e) = inner.split_once("||").expect("site");
            pieces.push((rest[..p].to_string(), Some((a.to_string(), e.to_string()))));
            rest = &rest[q + 2..];
        }
        pieces.push((rest.to_string(), None));
        let nsites = pieces.iter().filter(|p| p.1.is_some()).count();
        let render = |mask: u32| -> String {
            let mut out = String::new();
            let mut i = 0;
            for (lit, site) in &pieces {
                out.push_str(lit);
                if let Some((a, e)) = site {
                    out.push_str(if mask >> i & 1 == 1 { a } else { e });
                    i += 1;
                }
            }
            out
        };
        let erased_text = render(0);
        let with_extra = |text: &str| -> Files {
            let mut f = one_file(text);
            for (p, t) in extra.iter() {
                f.insert(p.to_string(), t.to_string());
            }
            f
        };
        let ref_bytes = match compile(&with_extra(&erased_text), MAIN, true) {
            Outcome::Ok(b) => b,
            other => {
                // not accepted without annotations: a violation if the fully annotated text is accepted, else not this
                // property's business
                let full = render(u32::MAX);
                if compile(&with_extra(&full), MAIN, true).is_ok() {
                    let mut files = serde_json::Map::new();
                    for (k, v) in with_extra(&full) {
                        files.insert(k, json!(v));
                    }
                    acc.outcome("un-annotated-variant-rejected");
                    acc.fail(Failure { sig: "annotated-variant-rejected".into(), preds: vec![format!("base:text-template:{}", name)], detail: format!("text template {}: accepted with every annotation, rejected with none ({})\n{}", name, other.short(), erased_text), case: json!({"engine": "c08", "files": files, "erased": erased_text}), size: erased_text.len() });
                } else {
                    acc.count("text-template-rejected-in-both-forms", 1);
                }
                continue;
            }
        };
        acc.states += 1;
        acc.nontrivial(fnv(erased_text.as_bytes()));
        for mask in 1..(1u32 << nsites) {
            let text = render(mask);
            acc.evaluations += 1;
            let fail = match compile(&with_extra(&text), MAIN, true) {
                Outcome::Ok(b) if b == ref_bytes => None,
                Outcome::Ok(_) => Some(("annotation-changes-lua".to_string(), "the emitted Lua differs from that of the un-annotated program".to_string())),
                Outcome::Err { errs, .. } => Some(("annotated-variant-rejected".to_string(), errs.first().map(|e| e.dbg.clone()).unwrap_or_default())),
                Outcome::Panic { msg, .. } => Some(("panic".to_string(), msg.clone())),
            };
            match fail {
                None => acc.outcome("accepted-same-bytes"),
                Some((sig, detail)) => {
                    acc.outcome(&sig);
                    let mut files = serde_json::Map::new();
                    for (k, v) in with_extra(&text) {
                        files.insert(k, json!(v));
                    }
                    acc.fail(Failure { sig, preds: vec![format!("base:text-template:{}", name)], detail: format!("annotated variant (mask {:b} of {} sites) of text template {}:\n{}\n{}\nun-annotated program:\n{}", mask, nsites, name, text, detail, erased_text), case: json!({"engine": "c08", "files": files, "erased": erased_text}), size: text.len() });
                }
            }
        }
        acc.count("text-template-sites", nsites as u64);
    }
}

pub fn run(run: &mut Run) {
    let thorough = run.thorough();
    // (expression slice, with extra sites)
    let space = crate::engines::c01::expr_space(if thorough { 2 } else { 1 });
    let mut items: Vec<(usize, bool, u64)> = Vec::new();
    for (si, (_, size, xs)) in space.iter().enumerate() {
        let extra = thorough && *size <= 1;
        items.push((si, extra, xs.len() as u64));
    }
    let mut offsets = Vec::new();
    let mut total = 0u64;
    for it in &items {
        offsets.push(total);
        total += it.2;
    }
    let stop = AtomicBool::new(false);
    let accs = crate::pool::par_range(total, 8, |_| Stats::new(), |acc, i| {
        let k = match offsets.binary_search(&i) {
            Ok(k) => k,
            Err(k) => k - 1,
        };
        let (si, extra, _) = items[k];
        let (t, _, xs) = &space[si];
        let e = xs[(i - offsets[k]) as usize].clone();
        let full = base(*t, e, extra);
        let nsites = erase(&mut full.clone(), 0, true);
        // reference = everything erased
        let mut erased = full.clone();
        erase(&mut erased, 0, false);
        let erased_text = print_program(&erased).text;
        let reference = compile_src(&erased_text);
        acc.states += 1;
        let ref_bytes = match &reference {
            Outcome::Ok(b) => b.clone(),
            _ => {
                // the un-annotated program itself is not accepted: outside the property (counted)
                acc.count("base-rejected-without-annotations", 1);
                if acc.samples.len() < 2 {
                    acc.sample(json!({"base_rejected": erased_text, "result": reference.short()}));
                }
                return;
            }
        };
        acc.nontrivial(fnv(erased_text.as_bytes()));
        for mask in 1..(1u32 << nsites) {
            let mut v = full.clone();
            erase(&mut v, mask, false);
            let text = print_program(&v).text;
            let out = compile_src(&text);
            acc.evaluations += 1;
            acc.transitions += 1;
            let fail = match &out {
                Outcome::Ok(b) if *b == ref_bytes => None,
                Outcome::Ok(_) => Some(("annotation-changes-lua".to_string(), "the emitted Lua differs from that of the un-annotated program".to_string())),
                Outcome::Err { errs, .. } => Some(("annotated-variant-rejected".to_string(), format!("{}", errs.first().map(|e| e.dbg.clone()).unwrap_or_default()))),
                Outcome::Panic { msg, .. } => Some(("panic".to_string(), msg.clone())),
            };
            match fail {
                None => acc.outcome("accepted-same-bytes"),
                Some((sig, detail)) => {
                    acc.outcome(&sig);
                    let mut files = serde_json::Map::new();
                    files.insert(MAIN.to_string(), json!(text));
                    acc.fail(Failure {
                        sig,
                        preds: vec![format!("type:{:?}", t)],
                        detail: format!("annotated variant (mask {:b} of {} sites):\n{}\n{}\nun-annotated program:\n{}", mask, nsites, text, detail, erased_text),
                        case: json!({"engine": "c08", "files": files, "erased": erased_text}),
                        size: text.len() + (mask.count_ones() as usize) * 1000,
                    });
                }
            }
        }
        if i % 211 == 0 {
            acc.sample(json!({"sites": nsites, "fully_annotated": print_program(&full).text}));
        }
    }, &stop);
    run.stats = Stats::merge_all(accs);
    for (name, base) in extra_bases() {
        let mut acc = Stats::new();
        check_base(&mut acc, name, &base);
        run.stats.merge(acc);
    }
    {
        let mut acc = Stats::new();
        check_text_templates(&mut acc);
        run.stats.merge(acc);
    }
    run.rule = "base programs: for every type (int, float, bool, str, tuple, blob, enum, list) and every expression of that type with at most n operator nodes, a program with annotation sites on a global constant, a global variable, two parameters, a return type, a local in a function, two locals in start (thorough: also a closure's parameter and return type); every subset of the 8 (10) sites is compiled; plus five surface templates (lambdas with user-type results inside call arguments and list literals, one a three-file project whose annotations name types through one and two namespaces, aliases and from-imports) in which one-line functions and branches with `<!>` / `<=>`, strings spanning lines, comments and non-ASCII text follow annotation sites on the same line (all subsets of their 7 / 4 / 4 sites); non-trivial = base accepted; distinct by base text".into();
    run.bounds = json!({"max_expression_size": if thorough {2} else {1}, "sites": if thorough {"10 for size<=1, 8 for size 2"} else {"8"}});
    run.assumptions = vec![
        "annotations are placed with the types the generator constructed the terms at (type-directed generation), so every annotation is correct".into(),
        "function-typed parameters are not annotation sites (excluded by the property)".into(),
        "base programs the compiler rejects when nothing is annotated are outside the property and only counted".into(),
    ];
}

pub fn replay(case: &serde_json::Value) -> Option<(String, String)> {
    let erased = case["erased"].as_str()?;
    let mut fa = Files::new();
    for (k, v) in case["files"].as_object()? {
        fa.insert(k.clone(), v.as_str()?.to_string());
    }
    let mut fb = fa.clone();
    fb.insert(MAIN.to_string(), erased.to_string());
    let a = compile(&fa, MAIN, true);
    let b = compile(&fb, MAIN, true);
    match (&a, &b) {
        (Outcome::Ok(x), Outcome::Ok(y)) if x == y => None,
        (Outcome::Ok(_), Outcome::Ok(_)) => Some(("annotation-changes-lua".into(), String::new())),
        (_, Outcome::Ok(_)) => Some(("annotated-variant-rejected".into(), a.short())),
        (Outcome::Ok(_), _) => Some(("annotated-variant-rejected".into(), format!("accepted with the annotations, rejected without: {}", b.short()))),
        _ => None,
    }
}
