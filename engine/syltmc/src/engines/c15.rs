//! C15 — diagnostics carry file and line: every local error kind planted at every insertion
//! point of a three-file project, after every preceding-text shape; the first returned error
//! must name the planted file and line.

use crate::harness::*;
use crate::report::{Failure, Run, Stats};
use serde_json::json;

#[derive(Clone, Copy, PartialEq, Debug)]
enum Hole {
    Top,
    Fn,
    Block,
}

struct Kind {
    id: &'static str,
    /// text per hole kind (None = not plantable there); `{n}` is replaced by a unique suffix
    top: Option<&'static str>,
    stmt: Option<&'static str>,
    /// acceptable error lines as offsets from the first line of the snippet
    lines: &'static [usize],
}

const KINDS: &[Kind] = &[
    Kind { id: "syntax-dangling-operator", top: Some("bad{n} := 1 +"), stmt: Some("bad{n} := 1 +"), lines: &[0] },
    Kind { id: "syntax-stray-paren", top: Some("bad{n} := )"), stmt: Some("bad{n} := )"), lines: &[0] },
    Kind { id: "syntax-end-at-top-level", top: Some("end"), stmt: None, lines: &[0] },
    Kind { id: "syntax-missing-value", top: Some("bad{n} ::"), stmt: Some("bad{n} ::"), lines: &[0] },
    Kind { id: "unresolved-name", top: Some("g{n} :: nope{n}"), stmt: Some("print(nope{n})"), lines: &[0] },
    Kind { id: "unresolved-name-in-call", top: None, stmt: Some("nope{n}(1)"), lines: &[0] },
    Kind { id: "duplicate-global", top: Some("dup{n} :: 1\ndup{n} :: 2"), stmt: None, lines: &[0, 1] },
    // `{m}` / `{m2}` are modules other than the file the snippet is planted in
    Kind { id: "use-collides-with-global", top: Some("dup{n} :: 1\nuse {m} as dup{n}"), stmt: None, lines: &[0, 1] },
    Kind { id: "global-collides-with-use", top: Some("use {m} as dup{n}\ndup{n} :: 1"), stmt: None, lines: &[0, 1] },
    Kind { id: "use-collides-with-imported-name", top: Some("from {m} use kk as dup{n}\nuse {m} as dup{n}"), stmt: None, lines: &[0, 1] },
    Kind { id: "from-use-collides-with-global", top: Some("dup{n} :: 1\nfrom {m} use kk as dup{n}"), stmt: None, lines: &[0, 1] },
    Kind { id: "global-collides-with-from-use", top: Some("from {m} use kk as dup{n}\ndup{n} :: 1"), stmt: None, lines: &[0, 1] },
    Kind { id: "two-uses-one-alias", top: Some("use {m} as dup{n}\nuse {m2} as dup{n}"), stmt: None, lines: &[0, 1] },
    Kind { id: "two-from-uses-one-name", top: Some("from {m} use kk as dup{n}\nfrom {m2} use kk as dup{n}"), stmt: None, lines: &[0, 1] },
    Kind { id: "from-use-list-missing-name-on-later-line", top: Some("from {m} use (\n    kk as fine{n},\n    nope{n},\n)"), stmt: None, lines: &[2] },
    Kind { id: "from-use-list-missing-name-on-last-line", top: Some("from {m} use (\n    kk as fine{n},\n    takes_str as ts{n},\n    nope{n}\n)"), stmt: None, lines: &[3] },
    Kind { id: "from-use-list-duplicate-on-later-line", top: Some("dup{n} :: 1\nfrom {m} use (\n    kk as fine{n},\n    takes_str as dup{n},\n)"), stmt: None, lines: &[0, 3] },
    Kind { id: "from-use-of-missing-name", top: Some("from {m} use nope{n}"), stmt: None, lines: &[0] },
    Kind { id: "assign-to-constant", top: None, stmt: Some("kk = 1"), lines: &[0] },
    Kind { id: "assign-to-local-constant", top: None, stmt: Some("lc{n} :: 1\nlc{n} = 2"), lines: &[1] },
    Kind { id: "operator-mismatch", top: Some("g{n} :: 1 + \"a\""), stmt: Some("z{n} :: 1 + \"a\""), lines: &[0] },
    Kind { id: "argument-mismatch", top: Some("g{n} :: takes_str(1)"), stmt: Some("takes_str(1)"), lines: &[0] },
    Kind { id: "argument-mismatch-in-multi-line-call", top: Some("g{n} :: takes_str(\n    1\n)"), stmt: Some("takes_str(\n    1\n)"), lines: &[1] },
    Kind { id: "second-argument-mismatch-in-multi-line-call", top: None, stmt: Some("two_args(\n    \"ok\",\n    \"bad\",\n)"), lines: &[2] },
    Kind { id: "list-element-mismatch-on-later-line", top: Some("g{n} :: [\n    1,\n    \"a\",\n]"), stmt: Some("z{n} :: [\n    1,\n    \"a\",\n]"), lines: &[0, 2] },
    Kind { id: "unresolved-name-on-later-line-of-call", top: None, stmt: Some("print(\n    nope{n}\n)"), lines: &[1] },
    // arguments of different syntactic kinds around function literals: the line is that of the offending argument
    Kind { id: "mismatch-after-a-function-literal-argument", top: None, stmt: Some("with_fn(\n    fn q: int -> int do q end,\n    1,\n    2,\n)"), lines: &[2] },
    Kind { id: "mismatch-in-last-argument-after-a-function-literal", top: None, stmt: Some("with_fn(\n    fn q: int -> int do q end,\n    \"ok\",\n    \"bad\",\n)"), lines: &[3] },
    Kind { id: "mismatch-inside-a-function-literal-argument", top: None, stmt: Some("with_fn(\n    fn q: int -> int do\n        q + \"a\"\n    end,\n    \"ok\",\n    1,\n)"), lines: &[2] },
    Kind { id: "function-literal-of-the-wrong-type-between-arguments", top: None, stmt: Some("mid_fn(\n    1,\n    fn q: str -> int do 1 end,\n    \"ok\",\n)"), lines: &[2] },
    Kind { id: "mismatch-before-a-function-literal", top: None, stmt: Some("mid_fn(\n    \"bad\",\n    fn q: int -> int do q end,\n    \"ok\",\n)"), lines: &[1] },
    Kind { id: "mismatch-after-a-function-literal-in-the-middle", top: None, stmt: Some("mid_fn(\n    1,\n    fn q: int -> int do q end,\n    2,\n)"), lines: &[3] },
    Kind { id: "five-kinds-of-argument-mismatch-at-1", top: None, stmt: Some("many(\n    \"bad\",\n    [1, 2],\n    (1, \"t\"),\n    fn q: int -> int do q end,\n    \"ok\",\n)"), lines: &[1] },
    Kind { id: "five-kinds-of-argument-mismatch-at-2", top: None, stmt: Some("many(\n    1,\n    [\"bad\"],\n    (1, \"t\"),\n    fn q: int -> int do q end,\n    \"ok\",\n)"), lines: &[2] },
    Kind { id: "five-kinds-of-argument-mismatch-at-3", top: None, stmt: Some("many(\n    1,\n    [1, 2],\n    (1, 2),\n    fn q: int -> int do q end,\n    \"ok\",\n)"), lines: &[3] },
    Kind { id: "five-kinds-of-argument-mismatch-at-4", top: None, stmt: Some("many(\n    1,\n    [1, 2],\n    (1, \"t\"),\n    fn q: int -> str do \"s\" end,\n    \"ok\",\n)"), lines: &[4] },
    Kind { id: "five-kinds-of-argument-mismatch-at-5", top: None, stmt: Some("many(\n    1,\n    [1, 2],\n    (1, \"t\"),\n    fn q: int -> int do q end,\n    5,\n)"), lines: &[5] },
    Kind { id: "annotation-mismatch", top: Some("g{n}: int : \"a\""), stmt: Some("z{n}: int = \"a\""), lines: &[0] },
    Kind { id: "not-on-int", top: Some("g{n} :: not 1"), stmt: Some("z{n} :: not 1"), lines: &[0] },
    Kind { id: "break-outside-loop", top: None, stmt: Some("break"), lines: &[0] },
    Kind { id: "continue-outside-loop", top: None, stmt: Some("continue"), lines: &[0] },
    Kind { id: "conflict-marker", top: Some("<<<<<<< HEAD"), stmt: None, lines: &[0] },
];

/// preceding-text shapes; `{n}` unique suffix; each is valid at top level and inside a function
const SHAPES: &[(&str, &str)] = &[
    ("nothing", ""),
    ("blank-lines", "\n"),
    ("comment", "// a comment"),
    ("non-ascii-comment", "// kömmentar € 😀 ünïcode"),
    ("non-ascii-string", "sa{n} :: \"åäö € 😀\""),
    ("multi-line-string-1", "ms{n} :: \"first\nsecond\""),
    ("multi-line-string-2", "ms{n} :: \"first\n\nthird åäö\""),
    ("multi-line-string-3", "ms{n} :: \"\n\n\n\""),
    ("string-with-comment-chars", "sc{n} :: \"// not a comment\""),
    ("tab-indented", "\tti{n} :: 1"),
    ("long-line", "ll{n} :: \"xxxxxxxxxxxxxxxxxxxxxxxxxxxxxxxxxxxxxxxxxxxxxxxxxxxxxxxxxxxxxxxxxxxxxxxxxxxxxxxxxxxxxxxxxxxxxxxxxxxxxxxxxxxxxxxxxxxxxxxxxxxxxxxxxxxxxxxxxxxxxxxxxxxxxxxxxxxxxxxxxxxxxxxxxxxxxxxxxxxxxxxxxxxxxxxxxxxxxxxxxxxx\""),
    ("multi-line-call", "print(\n    1\n)"),
    ("multi-line-list", "ml{n} :: [\n    1,\n    2,\n]"),
];

const FILES: &[&str] = &["/p/main.sy", "/p/other.sy", "/p/sub/deep.sy"];

#[derive(Clone)]
struct Case {
    kind: usize,
    file: usize,
    hole: Hole,
    shape: usize,
    shape2: Option<usize>,
    reps: usize,
    crlf: bool,
    /// 0: as is; 1: the planted lines are indented by 1100 further spaces (columns beyond 1024); 2: 300 comment
    /// lines before; 3: 70000 blank lines before (line numbers beyond 65535)
    far: u8,
}

struct Built {
    files: Files,
    want_file: String,
    want_lines: Vec<usize>,
}

fn build(c: &Case) -> Option<Built> {
    let k = &KINDS[c.kind];
    let snippet = match c.hole {
        Hole::Top => k.top?,
        _ => k.stmt?,
    };
    // `print(...)` shapes are statements, not top-level forms
    let is_stmt_shape = |s: usize| SHAPES[s].1.starts_with("print(");
    if c.hole == Hole::Top && (is_stmt_shape(c.shape) || c.shape2.map(is_stmt_shape).unwrap_or(false)) {
        return None;
    }
    let mut files = Files::new();
    let mut want_lines = Vec::new();
    for (fi, path) in FILES.iter().enumerate() {
        let mut lines: Vec<String> = Vec::new();
        if fi == 0 {
            lines.push("use other".into());
            lines.push("use sub/deep".into());
        }
        lines.push("print: fn *X -> void : external".into());
        lines.push("kk :: 7".into());
        lines.push("takes_str :: fn s: str do".into());
        lines.push("    print(s)".into());
        lines.push("end".into());
        lines.push("two_args :: fn s: str, i: int do".into());
        lines.push("    print(s)".into());
        lines.push("end".into());
        lines.push("with_fn :: fn f: fn int -> int, s: str, i: int do".into());
        lines.push("    print(s)".into());
        lines.push("end".into());
        lines.push("mid_fn :: fn i: int, f: fn int -> int, s: str do".into());
        lines.push("    print(s)".into());
        lines.push("end".into());
        lines.push("many :: fn i: int, l: [int], t: (int, str), f: fn int -> int, s: str do".into());
        lines.push("    print(s)".into());
        lines.push("end".into());
        let mut plant = |lines: &mut Vec<String>, indent: &str, want: &mut Vec<usize>| {
            let mut uniq = 0;
            let mut shapes = vec![c.shape];
            if let Some(s2) = c.shape2 {
                shapes.push(s2);
            }
            for _ in 0..c.reps {
                for s in &shapes {
                    uniq += 1;
                    let text = SHAPES[*s].1.replace("{n}", &format!("{}", uniq));
                    if SHAPES[*s].0 == "nothing" {
                        continue;
                    }
                    // only the first physical line of a shape is indented: continuation lines of
                    // a multi-line string are content
                    let mut first = true;
                    for l in text.split('\n') {
                        if first {
                            lines.push(format!("{}{}", indent, l));
                        } else {
                            lines.push(l.to_string());
                        }
                        first = false;
                    }
                }
            }
            match c.far {
                2 => {
                    for i in 0..300 {
                        lines.push(format!("{}// filler {}", indent, i));
                    }
                }
                3 => {
                    for _ in 0..70000 {
                        lines.push(String::new());
                    }
                }
                _ => {}
            }
            let far_indent = if c.far == 1 { " ".repeat(1100) } else { String::new() };
            let first_line = lines.len() + 1;
            let (m, m2) = match fi {
                0 => ("other", "sub/deep"),
                1 => ("sub/deep", "/main"),
                _ => ("/other", "/main"),
            };
            let text = snippet.replace("{n}", "9").replace("{m2}", m2).replace("{m}", m);
            for l in text.split('\n') {
                // conflict markers must start the line
                if l.starts_with("<<<<<<<") {
                    lines.push(l.to_string());
                } else {
                    lines.push(format!("{}{}{}", far_indent, indent, l));
                }
            }
            for off in k.lines {
                want.push(first_line + off);
            }
        };
        if fi == c.file && c.hole == Hole::Top {
            plant(&mut lines, "", &mut want_lines);
        }
        let fname = if fi == 0 { "helper" } else { "go" };
        lines.push(format!("{} :: fn do", fname));
        lines.push("    print(1)".into());
        if fi == c.file && c.hole == Hole::Fn {
            plant(&mut lines, "    ", &mut want_lines);
        }
        lines.push("    if true do".into());
        lines.push("        print(2)".into());
        if fi == c.file && c.hole == Hole::Block {
            plant(&mut lines, "        ", &mut want_lines);
        }
        lines.push("    end".into());
        lines.push("end".into());
        if fi == 0 {
            lines.push("start :: fn do".into());
            lines.push("    helper()".into());
            lines.push("    other.go()".into());
            lines.push("    deep.go()".into());
            lines.push("end".into());
        }
        let eol = if c.crlf { "\r\n" } else { "\n" };
        let mut text = lines.join(eol);
        text.push_str(eol);
        files.insert(path.to_string(), text);
    }
    Some(Built { files, want_file: FILES[c.file].to_string(), want_lines })
}

fn control_files() -> Files {
    let c = Case { kind: 0, file: 0, hole: Hole::Top, shape: 0, shape2: None, reps: 0, crlf: false, far: 0 };
    let mut b = build(&c).unwrap();
    // remove the planted line from main
    let main = b.files.get_mut(MAIN).unwrap();
    *main = main.replace("bad9 := 1 +\n", "");
    b.files
}

fn judge(b: &Built) -> (Option<(String, String)>, String) {
    let out = compile_with(&b.files, MAIN, &CompileOpts { no_std: true, require: None, render: true });
    match out {
        Outcome::Ok(_) => (Some(("accepted-planted-error".into(), "the program with the planted error compiled".into())), "accepted".into()),
        Outcome::Panic { msg, .. } => (Some(("panic".into(), msg)), "panic".into()),
        Outcome::Err { errs, .. } => {
            if errs.is_empty() {
                return (Some(("empty-error-list".into(), String::new())), "empty".into());
            }
            let e = &errs[0];
            if let Some(r) = &e.rendered {
                if r.contains("!!RENDER-PANIC!!") {
                    return (Some(("render-panic".into(), r.clone())), "render-panic".into());
                }
            }
            let kind = e.kind.to_string();
            if e.file != b.want_file {
                return (
                    Some(("wrong-file".into(), format!("first error ({}) names file {:?} line {}, planted in {:?} line {:?}\n{}", e.kind, e.file, e.line, b.want_file, b.want_lines, e.dbg))),
                    kind,
                );
            }
            if !b.want_lines.contains(&e.line) {
                return (
                    Some(("wrong-line".into(), format!("first error ({}) names line {} of {:?}, planted on line {:?}\n{}", e.kind, e.line, e.file, b.want_lines, e.dbg))),
                    kind,
                );
            }
            (None, kind)
        }
    }
}

pub fn run(run: &mut Run) {
    // machinery control: the scaffold without a planted error compiles
    let ctl = compile(&control_files(), MAIN, true);
    if !ctl.is_ok() {
        eprintln!("MACHINERY: C15 scaffold does not compile: {}", ctl.short());
        std::process::exit(2);
    }
    let thorough = run.thorough();
    let mut cases = Vec::new();
    for kind in 0..KINDS.len() {
        for file in 0..FILES.len() {
            for hole in [Hole::Top, Hole::Fn, Hole::Block] {
                for crlf in [false, true] {
                    for shape in 0..SHAPES.len() {
                        for reps in 1..=3 {
                            if shape == 0 && reps > 1 {
                                continue;
                            }
                            cases.push(Case { kind, file, hole, shape, shape2: None, reps, crlf, far: 0 });
                            if shape == 0 {
                                for far in 1..=3u8 {
                                    cases.push(Case { kind, file, hole, shape, shape2: None, reps, crlf, far });
                                }
                            }
                            if thorough && shape != 0 {
                                for s2 in 1..SHAPES.len() {
                                    if s2 != shape && reps <= 2 {
                                        cases.push(Case { kind, file, hole, shape, shape2: Some(s2), reps, crlf, far: 0 });
                                    }
                                }
                            }
                        }
                    }
                }
            }
        }
    }
    let accs = crate::pool::par_items(&cases, 16, |_| Stats::new(), |acc, i, c| {
        let b = match build(c) {
            Some(b) => b,
            None => return,
        };
        acc.evaluations += 1;
        let (fail, kind) = judge(&b);
        acc.outcome(&format!("{}:{}", KINDS[c.kind].id, if fail.is_some() { "FAIL" } else { kind.as_str() }));
        acc.nontrivial(fnv(format!("{:?}", b.files).as_bytes()));
        if i % 997 == 0 {
            acc.sample(json!({"kind": KINDS[c.kind].id, "file": FILES[c.file], "hole": format!("{:?}", c.hole), "shape": SHAPES[c.shape].0, "reps": c.reps, "crlf": c.crlf, "planted_lines": b.want_lines, "text": b.files[FILES[c.file]]}));
        }
        if let Some((sig, detail)) = fail {
            let mut fm = serde_json::Map::new();
            for (k, v) in &b.files {
                fm.insert(k.clone(), json!(v));
            }
            let mut preds = vec![format!("kind:{}", KINDS[c.kind].id), format!("shape:{}", SHAPES[c.shape].0)];
            if c.crlf {
                preds.push("crlf".into());
            }
            acc.fail(Failure {
                sig,
                preds,
                detail: format!("{} planted in {} ({:?} hole) after {} x{} crlf={} far={}\n{}", KINDS[c.kind].id, FILES[c.file], c.hole, SHAPES[c.shape].0, c.reps, c.crlf, ["no", "indented by 1100 spaces", "after 300 comment lines", "after 70000 blank lines"][c.far as usize], detail),
                case: json!({"engine": "c15", "files": fm, "want_file": b.want_file, "want_lines": b.want_lines}),
                size: c.reps + if c.shape2.is_some() { 5 } else { 0 } + c.file,
            });
        }
    });
    run.stats = Stats::merge_all(accs);
    run.rule = "every error kind x file (main, imported, imported from a sub-folder) x insertion point (top level, function body, nested block) x preceding text shape (x1..x3; thorough: ordered pairs of shapes) x LF/CRLF; distinct by project text; every case is non-trivial (it contains exactly one planted error)".into();
    run.bounds = json!({"kinds": KINDS.iter().map(|k| k.id).collect::<Vec<_>>(), "shapes": SHAPES.iter().map(|s| s.0).collect::<Vec<_>>(), "files": FILES, "cases": cases.len()});
    run.assumptions = vec![
        "primary location = file and span.line_start of the first returned error".into(),
        "for a duplicate global either of the two definition lines is accepted".into(),
    ];
}

pub fn replay(case: &serde_json::Value) -> Option<(String, String)> {
    let mut files = Files::new();
    for (k, v) in case["files"].as_object()? {
        files.insert(k.clone(), v.as_str()?.to_string());
    }
    let want_lines: Vec<usize> = case["want_lines"].as_array()?.iter().filter_map(|x| x.as_u64().map(|v| v as usize)).collect();
    let b = Built { files, want_file: case["want_file"].as_str()?.to_string(), want_lines };
    judge(&b).0
}
