//! C13 — operator precedence and associativity: every expression tree with up to N operators
//! over the full operator set, atoms rotated through all atom kinds, printed (a) fully
//! parenthesised and (b) with only the parentheses the documented table requires; both are
//! parsed by the real parser and must equal each other and the generator's tree.

use crate::ast::*;
use crate::report::{Failure, Run, Stats};
use serde_json::json;
use std::path::{Path, PathBuf};
use std::sync::atomic::AtomicBool;
use sylt_parser::expression::ComparisonKind as CK;
use sylt_parser::{Expression as PE, ExpressionKind as EK, StatementKind as SK};

const ATOMS: &[&str] = &[
    "1", "x", "f(x)", "t[0]", "a.b", "2.5", "\"s\"", "true", "[1]", "(1, 2)", "(if c do 1 else 2 end)", "g()", "a.b.c", "f(x)(y)",
    "(1, 2)[0]", "(f)(x)", "(a).b", "P { x: 1 }.x", "[1, 2]", "(1,)", "(x -> f())", "t[0][1]", "(E.A 1)",
];

#[derive(Clone, Debug)]
enum T {
    Leaf,
    Un(UnOp, Box<T>),
    Bin(BinOp, Box<T>, Box<T>),
}

/// all trees with exactly n operator nodes
fn trees(n: usize, memo: &mut Vec<Option<Vec<T>>>) -> Vec<T> {
    if let Some(Some(v)) = memo.get(n) {
        return v.clone();
    }
    let mut out = Vec::new();
    if n == 0 {
        out.push(T::Leaf);
    } else {
        for sub in trees(n - 1, memo) {
            for op in [UnOp::Neg, UnOp::Not] {
                out.push(T::Un(op, Box::new(sub.clone())));
            }
        }
        for l in 0..n {
            let r = n - 1 - l;
            let ls = trees(l, memo);
            let rs = trees(r, memo);
            for a in &ls {
                for b in &rs {
                    for op in BinOp::ALL {
                        out.push(T::Bin(op, Box::new(a.clone()), Box::new(b.clone())));
                    }
                }
            }
        }
    }
    while memo.len() <= n {
        memo.push(None);
    }
    memo[n] = Some(out.clone());
    out
}

fn to_expr(t: &T, leaf: &mut usize, rot: usize) -> Expr {
    match t {
        T::Leaf => {
            let k = (*leaf + rot) % ATOMS.len();
            *leaf += 1;
            Expr::Raw(format!("\u{1}{}", k))
        }
        T::Un(op, a) => un(*op, to_expr(a, leaf, rot)),
        T::Bin(op, a, b) => {
            let x = to_expr(a, leaf, rot);
            let y = to_expr(b, leaf, rot);
            bin(*op, x, y)
        }
    }
}

fn gen_sexp(e: &Expr) -> String {
    match e {
        Expr::Raw(s) => format!("a{}", &s[1..]),
        Expr::Un(UnOp::Neg, a) => format!("(neg {})", gen_sexp(a)),
        Expr::Un(UnOp::Not, a) => format!("(not {})", gen_sexp(a)),
        Expr::Bin(op, a, b) => format!("({} {} {})", op.text(), gen_sexp(a), gen_sexp(b)),
        _ => "?".into(),
    }
}

/// minimal-parenthesis text by the documented table; `full` = every operator node parenthesised
fn text(e: &Expr, min: u8, full: bool) -> String {
    let (t, prec) = match e {
        Expr::Raw(s) => {
            let k: usize = s[1..].parse().unwrap();
            (ATOMS[k].to_string(), 9)
        }
        Expr::Un(op, a) => {
            let inner = if full { format!("({})", text(a, 0, true)) } else { text(a, 8, false) };
            let inner = if matches!(**a, Expr::Raw(_)) { text(a, 8, full) } else { inner };
            match op {
                UnOp::Neg => (format!("-{}", inner), 7),
                UnOp::Not => (format!("not {}", inner), 7),
            }
        }
        Expr::Bin(op, a, b) => {
            let p = op.prec();
            let side = |x: &Expr, need: u8| -> String {
                if full {
                    if matches!(x, Expr::Raw(_)) {
                        text(x, 9, true)
                    } else {
                        format!("({})", text(x, 0, true))
                    }
                } else if matches!(op, BinOp::Mul | BinOp::Div) && matches!(x, Expr::Un(..)) {
                    // the table is silent on unary vs * /: always parenthesised
                    format!("({})", text(x, 0, false))
                } else {
                    text(x, need, false)
                }
            };
            (format!("{} {} {}", side(a, p), op.text(), side(b, p + 1)), p)
        }
        _ => ("?".into(), 9),
    };
    if prec < min {
        format!("({})", t)
    } else {
        t
    }
}

fn parse_defs(src: &str) -> Result<Vec<PE>, String> {
    let path = PathBuf::from("/p/main.sy");
    let reader = |_: &Path| -> Result<String, sylt_common::Error> { Ok(src.to_string()) };
    match std::panic::catch_unwind(std::panic::AssertUnwindSafe(|| sylt_parser::tree(&path, reader, false))) {
        Ok(Ok(ast)) => {
            let mut out = Vec::new();
            for s in &ast.modules[0].1.statements {
                if let SK::Definition { value, .. } = &s.kind {
                    out.push(value.clone());
                }
            }
            Ok(out)
        }
        Ok(Err(errs)) => Err(format!("syntax errors: {:?}", errs.iter().map(|e| format!("{:?}", e)).collect::<Vec<_>>())),
        Err(p) => Err(format!("parser panic: {}", crate::harness::panic_text(&p))),
    }
}

thread_local! {
    static ATOM_TREES: std::cell::RefCell<Vec<PE>> = const { std::cell::RefCell::new(Vec::new()) };
}

fn atom_trees() -> Vec<PE> {
    ATOM_TREES.with(|c| {
        if c.borrow().is_empty() {
            let src = ATOMS.iter().enumerate().map(|(i, a)| format!("v{} :: {}\n", i, a)).collect::<String>();
            let v = parse_defs(&src).unwrap_or_else(|e| {
                eprintln!("MACHINERY: atoms do not parse: {}", e);
                std::process::exit(2)
            });
            assert_eq!(v.len(), ATOMS.len());
            *c.borrow_mut() = v;
        }
        c.borrow().clone()
    })
}

fn debug_nospan(e: &PE) -> String {
    let d = format!("{:?}", e);
    let mut out = String::with_capacity(d.len());
    let mut rest = d.as_str();
    while let Some(i) = rest.find("Span {") {
        out.push_str(&rest[..i]);
        match rest[i..].find('}') {
            Some(j) => rest = &rest[i + j + 1..],
            None => {
                rest = "";
            }
        }
    }
    out.push_str(rest);
    out
}

fn strip(e: &PE) -> &PE {
    match &e.kind {
        EK::Parenthesis(x) => strip(x),
        _ => e,
    }
}

fn impl_sexp(e: &PE, atoms: &[PE]) -> String {
    let e = strip(e);
    match &e.kind {
        EK::Add(a, b) => format!("(+ {} {})", impl_sexp(a, atoms), impl_sexp(b, atoms)),
        EK::Sub(a, b) => format!("(- {} {})", impl_sexp(a, atoms), impl_sexp(b, atoms)),
        EK::Mul(a, b) => format!("(* {} {})", impl_sexp(a, atoms), impl_sexp(b, atoms)),
        EK::Div(a, b) => format!("(/ {} {})", impl_sexp(a, atoms), impl_sexp(b, atoms)),
        EK::Neg(a) => format!("(neg {})", impl_sexp(a, atoms)),
        EK::Not(a) => format!("(not {})", impl_sexp(a, atoms)),
        EK::And(a, b) => format!("(and {} {})", impl_sexp(a, atoms), impl_sexp(b, atoms)),
        EK::Or(a, b) => format!("(or {} {})", impl_sexp(a, atoms), impl_sexp(b, atoms)),
        EK::AssertEq(a, b) => format!("(<=> {} {})", impl_sexp(a, atoms), impl_sexp(b, atoms)),
        EK::Comparison(a, k, b) => {
            let o = match k {
                CK::Equals => "==",
                CK::NotEquals => "!=",
                CK::Greater => ">",
                CK::GreaterEqual => ">=",
                CK::Less => "<",
                CK::LessEqual => "<=",
            };
            format!("({} {} {})", o, impl_sexp(a, atoms), impl_sexp(b, atoms))
        }
        _ => {
            for (k, a) in atoms.iter().enumerate() {
                if strip(a) == e {
                    return format!("a{}", k);
                }
            }
            // some node kinds compare spans in their PartialEq (if-branches): compare span-free text
            let d = debug_nospan(e);
            for (k, a) in atoms.iter().enumerate() {
                if debug_nospan(strip(a)) == d {
                    return format!("a{}", k);
                }
            }
            format!("?{:?}", std::mem::discriminant(&e.kind))
        }
    }
}

pub fn judge(e: &Expr) -> (Option<(String, String)>, String) {
    let full = text(e, 0, true);
    let minimal = text(e, 0, false);
    let src = format!("p :: {}\nq :: {}\n", full, minimal);
    let want = gen_sexp(e);
    let atoms = atom_trees();
    let fail = match parse_defs(&src) {
        Err(m) => Some(("does-not-parse".to_string(), format!("{}\n{}", src, m))),
        Ok(v) if v.len() != 2 => Some(("does-not-parse".to_string(), format!("{}\nexpected two definitions, got {}", src, v.len()))),
        Ok(v) => {
            let sf = impl_sexp(&v[0], &atoms);
            let sm = impl_sexp(&v[1], &atoms);
            if sf != want {
                Some(("full-parens-tree-differs".to_string(), format!("text: {}\nparsed:   {}\nexpected: {}", full, sf, want)))
            } else if sm != want {
                Some(("minimal-parens-tree-differs".to_string(), format!("text: {}\nparsed:   {}\nexpected: {}  (= tree of `{}`)", minimal, sm, want, full)))
            } else {
                None
            }
        }
    };
    (fail, minimal)
}

fn tree_to_json(e: &Expr) -> serde_json::Value {
    json!(gen_sexp(e))
}

fn sexp_to_expr(s: &str) -> Option<Expr> {
    // tiny s-expression reader for replay
    fn parse(tokens: &[String], pos: &mut usize) -> Option<Expr> {
        let t = tokens.get(*pos)?.clone();
        *pos += 1;
        if t == "(" {
            let op = tokens.get(*pos)?.clone();
            *pos += 1;
            let a = parse(tokens, pos)?;
            let e = if op == "neg" {
                un(UnOp::Neg, a)
            } else if op == "not" {
                un(UnOp::Not, a)
            } else {
                let b = parse(tokens, pos)?;
                let o = BinOp::ALL.iter().find(|o| o.text() == op)?;
                bin(*o, a, b)
            };
            if tokens.get(*pos)? != ")" {
                return None;
            }
            *pos += 1;
            Some(e)
        } else if let Some(k) = t.strip_prefix('a') {
            Some(Expr::Raw(format!("\u{1}{}", k)))
        } else {
            None
        }
    }
    let spaced = s.replace('(', " ( ").replace(')', " ) ");
    let tokens: Vec<String> = spaced.split_whitespace().map(|x| x.to_string()).collect();
    let mut pos = 0;
    parse(&tokens, &mut pos)
}

pub fn run(run: &mut Run) {
    let max_ops = if run.thorough() { 4 } else { 3 };
    let mut memo = Vec::new();
    let mut shapes: Vec<T> = Vec::new();
    for n in 0..=max_ops {
        shapes.extend(trees(n, &mut memo));
    }
    // thorough keeps depth-4 affordable: every rotation for <=3 operators, 3 rotations for 4 operators
    let nrot = ATOMS.len();
    let small = {
        let mut c = 0usize;
        for n in 0..=3.min(max_ops) {
            c += trees(n, &mut memo).len();
        }
        c
    };
    let total = shapes.len() as u64 * nrot as u64;
    let small = shapes.len();
    let stop = AtomicBool::new(false);
    let accs = crate::pool::par_range(total, 512, |_| Stats::new(), |acc, i| {
        let (si, rot) = if i < small as u64 * nrot as u64 {
            ((i / nrot as u64) as usize, (i % nrot as u64) as usize)
        } else {
            let j = i - small as u64 * nrot as u64;
            (small + (j / 3) as usize, ((j % 3) * 5) as usize)
        };
        let mut leaf = 0;
        let e = to_expr(&shapes[si], &mut leaf, rot);
        let (fail, minimal) = judge(&e);
        acc.evaluations += 1;
        acc.states += 1;
        acc.transitions += 2;
        acc.traces_validated += 1;
        if leaf >= 2 {
            acc.nontrivial_by_construction += 1;
        }
        if minimal != text(&e, 0, true) {
            acc.count("cases_where_precedence_decides_grouping", 1);
        }
        if i % 50_021 == 0 {
            acc.sample(json!({"tree": gen_sexp(&e), "minimal_text": minimal}));
        }
        match fail {
            None => acc.outcome("trees-equal"),
            Some((sig, detail)) => {
                acc.outcome(&sig);
                acc.fail(Failure { sig, preds: vec![], detail, case: json!({"engine": "c13", "tree": tree_to_json(&e)}), size: gen_sexp(&e).len() });
            }
        }
    }, &stop);
    run.stats = Stats::merge_all(accs);
    run.rule = "every tree with at most N operator nodes over 13 binary + 2 unary operators; leaves take the atom kinds in rotation (all rotations); distinct by construction; non-trivial = at least two leaves".into();
    run.bounds = json!({"max_operator_nodes": max_ops, "atoms": ATOMS, "shapes": shapes.len()});
    run.assumptions = vec![
        "the precedence table of the property statement; unary operands and unary children of * / are always parenthesised by the printer because the table is silent there".into(),
        "trees are compared through the public parse tree, ignoring spans and Parenthesis nodes".into(),
    ];
}

pub fn replay(case: &serde_json::Value) -> Option<(String, String)> {
    let e = sexp_to_expr(case["tree"].as_str()?)?;
    judge(&e).0
}
