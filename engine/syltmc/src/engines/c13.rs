//! C13 — operator precedence and associativity: every expression tree with up to N operators
//! over the full operator set, atoms rotated through all atom kinds, printed (a) fully
//! parenthesised and (b) with only the parentheses the documented table requires; both are
//! parsed by the real parser and must equal each other and the generator's tree.

use crate::ast::*;
use crate::report::{Failure, Run, Stats};
use serde_json::json;
use std::path::{Path, PathBuf};
use std::sync::atomic::AtomicBool;
use sylt_parser::expression::ComparisonKind as CK;
use sylt_parser::{Expression as PE, ExpressionKind as EK, StatementKind as SK};

const ATOMS: &[&str] = &[
    "1", "x", "f(x)", "t[0]", "a.b", "2.5", "\"s\"", "true", "[1]", "(1, 2)", "(if c do 1 else 2 end)", "g()", "a.b.c", "f(x)(y)",
    "(1, 2)[0]", "(f)(x)", "(a).b", "P { x: 1 }.x", "[1, 2]", "(1,)", "(x -> f())", "t[0][1]", "(E.A 1)",
];

/// arrow calls written without parentheses: legal only as the last thing of an expression (the call after `->` takes
/// the rest), so they are tried as the rightmost leaf only, after every unary / binary prefix
const ARROW_ATOMS: &[&str] = &["1 -> f()", "x -> f(y)", "t[0] -> a.b(2)"];

fn atom(k: usize) -> &'static str {
    if k < ATOMS.len() { ATOMS[k] } else { ARROW_ATOMS[k - ATOMS.len()] }
}

fn count_leaves(t: &T) -> usize {
    match t {
        T::Leaf => 1,
        T::Un(_, a) => count_leaves(a),
        T::Bin(_, a, b) => count_leaves(a) + count_leaves(b),
    }
}

#[derive(Clone, Debug)]
enum T {
    Leaf,
    Un(UnOp, Box<T>),
    Bin(BinOp, Box<T>, Box<T>),
}

/// all trees with exactly n operator nodes
fn trees(n: usize, memo: &mut Vec<Option<Vec<T>>>) -> Vec<T> {
    if let Some(Some(v)) = memo.get(n) {
        return v.clone();
    }
    let mut out = Vec::new();
    if n == 0 {
        out.push(T::Leaf);
    } else {
        for sub in trees(n - 1, memo) {
            for op in [UnOp::Neg, UnOp::Not] {
                out.push(T::Un(op, Box::new(sub.clone())));
            }
        }
        for l in 0..n {
            let r = n - 1 - l;
            let ls = trees(l, memo);
            let rs = trees(r, memo);
            for a in &ls {
                for b in &rs {
                    for op in BinOp::ALL {
                        out.push(T::Bin(op, Box::new(a.clone()), Box::new(b.clone())));
                    }
                }
            }
        }
    }
    while memo.len() <= n {
        memo.push(None);
    }
    memo[n] = Some(out.clone());
    out
}

fn to_expr(t: &T, leaf: &mut usize, rot: usize) -> Expr {
    to_expr_n(t, leaf, rot, usize::MAX)
}

/// rotations beyond ATOMS.len() put an arrow atom at the last of `nleaves` leaves and atom i at leaf i
fn to_expr_n(t: &T, leaf: &mut usize, rot: usize, nleaves: usize) -> Expr {
    match t {
        T::Leaf => {
            let k = if rot >= ATOMS.len() {
                if *leaf + 1 == nleaves { rot } else { *leaf % ATOMS.len() }
            } else {
                (*leaf + rot) % ATOMS.len()
            };
            *leaf += 1;
            Expr::Raw(format!("\u{1}{}", k))
        }
        T::Un(op, a) => un(*op, to_expr_n(a, leaf, rot, nleaves)),
        T::Bin(op, a, b) => {
            let x = to_expr_n(a, leaf, rot, nleaves);
            let y = to_expr_n(b, leaf, rot, nleaves);
            bin(*op, x, y)
        }
    }
}

fn gen_sexp(e: &Expr) -> String {
    match e {
        Expr::Raw(s) => format!("a{}", &s[1..]),
        Expr::Un(UnOp::Neg, a) => format!("(neg {})", gen_sexp(a)),
        Expr::Un(UnOp::Not, a) => format!("(not {})", gen_sexp(a)),
        Expr::Bin(op, a, b) => format!("({} {} {})", op.text(), gen_sexp(a), gen_sexp(b)),
        _ => "?".into(),
    }
}

/// minimal-parenthesis text by the documented table; `full` = every operator node parenthesised
fn text(e: &Expr, min: u8, full: bool) -> String {
    let (t, prec) = match e {
        Expr::Raw(s) => {
            let k: usize = s[1..].parse().unwrap();
            (atom(k).to_string(), 9)
        }
        Expr::Un(op, a) => {
            let inner = if full { format!("({})", text(a, 0, true)) } else { text(a, 8, false) };
            let inner = if matches!(**a, Expr::Raw(_)) { text(a, 8, full) } else { inner };
            match op {
                UnOp::Neg => (format!("-{}", inner), 7),
                UnOp::Not => (format!("not {}", inner), 7),
            }
        }
        Expr::Bin(op, a, b) => {
            let p = op.prec();
            let side = |x: &Expr, need: u8| -> String {
                if full {
                    if matches!(x, Expr::Raw(_)) {
                        text(x, 9, true)
                    } else {
                        format!("({})", text(x, 0, true))
                    }
                } else if matches!(op, BinOp::Mul | BinOp::Div) && matches!(x, Expr::Un(..)) {
                    // the table is silent on unary vs * /: always parenthesised
                    format!("({})", text(x, 0, false))
                } else {
                    text(x, need, false)
                }
            };
            (format!("{} {} {}", side(a, p), op.text(), side(b, p + 1)), p)
        }
        _ => ("?".into(), 9),
    };
    if prec < min {
        format!("({})", t)
    } else {
        t
    }
}

fn parse_defs(src: &str) -> Result<Vec<PE>, String> {
    let path = PathBuf::from("/p/main.sy");
    let reader = |_: &Path| -> Result<String, sylt_common::Error> { Ok(src.to_string()) };
    match std::panic::catch_unwind(std::panic::AssertUnwindSafe(|| sylt_parser::tree(&path, reader, false))) {
        Ok(Ok(ast)) => {
            let mut out = Vec::new();
            for s in &ast.modules[0].1.statements {
                if let SK::Definition { value, .. } = &s.kind {
                    out.push(value.clone());
                }
            }
            Ok(out)
        }
        Ok(Err(errs)) => Err(format!("syntax errors: {:?}", errs.iter().map(|e| format!("{:?}", e)).collect::<Vec<_>>())),
        Err(p) => Err(format!("parser panic: {}", crate::harness::panic_text(&p))),
    }
}

thread_local! {
    static ATOM_TREES: std::cell::RefCell<Vec<PE>> = const { std::cell::RefCell::new(Vec::new()) };
}

fn atom_trees() -> Vec<PE> {
    ATOM_TREES.with(|c| {
        if c.borrow().is_empty() {
            let src = ATOMS.iter().chain(ARROW_ATOMS.iter()).enumerate().map(|(i, a)| format!("v{} :: {}\n", i, a)).collect::<String>();
            let v = parse_defs(&src).unwrap_or_else(|e| {
                eprintln!("MACHINERY: atoms do not parse: {}", e);
                std::process::exit(2)
            });
            assert_eq!(v.len(), ATOMS.len() + ARROW_ATOMS.len());
            *c.borrow_mut() = v;
        }
        c.borrow().clone()
    })
}

fn debug_nospan(e: &PE) -> String {
    let d = format!("{:?}", e);
    let mut out = String::with_capacity(d.len());
    let mut rest = d.as_str();
    while let Some(i) = rest.find("Span {") {
        out.push_str(&rest[..i]);
        match rest[i..].find('}') {
            Some(j) => rest = &rest[i + j + 1..],
            None => {
                rest = "";
            }
        }
    }
    out.push_str(rest);
    out
}

fn strip(e: &PE) -> &PE {
    match &e.kind {
        EK::Parenthesis(x) => strip(x),
        _ => e,
    }
}

fn impl_sexp(e: &PE, atoms: &[PE]) -> String {
    let e = strip(e);
    match &e.kind {
        EK::Add(a, b) => format!("(+ {} {})", impl_sexp(a, atoms), impl_sexp(b, atoms)),
        EK::Sub(a, b) => format!("(- {} {})", impl_sexp(a, atoms), impl_sexp(b, atoms)),
        EK::Mul(a, b) => format!("(* {} {})", impl_sexp(a, atoms), impl_sexp(b, atoms)),
        EK::Div(a, b) => format!("(/ {} {})", impl_sexp(a, atoms), impl_sexp(b, atoms)),
        EK::Neg(a) => format!("(neg {})", impl_sexp(a, atoms)),
        EK::Not(a) => format!("(not {})", impl_sexp(a, atoms)),
        EK::And(a, b) => format!("(and {} {})", impl_sexp(a, atoms), impl_sexp(b, atoms)),
        EK::Or(a, b) => format!("(or {} {})", impl_sexp(a, atoms), impl_sexp(b, atoms)),
        EK::AssertEq(a, b) => format!("(<=> {} {})", impl_sexp(a, atoms), impl_sexp(b, atoms)),
        EK::Comparison(a, k, b) => {
            let o = match k {
                CK::Equals => "==",
                CK::NotEquals => "!=",
                CK::Greater => ">",
                CK::GreaterEqual => ">=",
                CK::Less => "<",
                CK::LessEqual => "<=",
            };
            format!("({} {} {})", o, impl_sexp(a, atoms), impl_sexp(b, atoms))
        }
        _ => {
            for (k, a) in atoms.iter().enumerate() {
                if strip(a) == e {
                    return format!("a{}", k);
                }
            }
            // some node kinds compare spans in their PartialEq (if-branches): compare span-free text
            let d = debug_nospan(e);
            for (k, a) in atoms.iter().enumerate() {
                if debug_nospan(strip(a)) == d {
                    return format!("a{}", k);
                }
            }
            format!("?{:?}", std::mem::discriminant(&e.kind))
        }
    }
}

pub fn judge(e: &Expr) -> (Option<(String, String)>, String) {
    let full = text(e, 0, true);
    let minimal = text(e, 0, false);
    let src = format!("p :: {}\nq :: {}\n", full, minimal);
    let want = gen_sexp(e);
    let atoms = atom_trees();
    let fail = match parse_defs(&src) {
        Err(m) => Some(("does-not-parse".to_string(), format!("{}\n{}", src, m))),
        Ok(v) if v.len() != 2 => Some(("does-not-parse".to_string(), format!("{}\nexpected two definitions, got {}", src, v.len()))),
        Ok(v) => {
            let sf = impl_sexp(&v[0], &atoms);
            let sm = impl_sexp(&v[1], &atoms);
            if sf != want {
                Some(("full-parens-tree-differs".to_string(), format!("text: {}\nparsed:   {}\nexpected: {}", full, sf, want)))
            } else if sm != want {
                Some(("minimal-parens-tree-differs".to_string(), format!("text: {}\nparsed:   {}\nexpected: {}  (= tree of `{}`)", minimal, sm, want, full)))
            } else {
                None
            }
        }
    };
    (fail, minimal)
}

fn tree_to_json(e: &Expr) -> serde_json::Value {
    json!(gen_sexp(e))
}

fn sexp_to_expr(s: &str) -> Option<Expr> {
    // tiny s-expression reader for replay
    fn parse(tokens: &[String], pos: &mut usize) -> Option<Expr> {
        let t = tokens.get(*pos)?.clone();
        *pos += 1;
        if t == "(" {
            let op = tokens.get(*pos)?.clone();
            *pos += 1;
            let a = parse(tokens, pos)?;
            let e = if op == "neg" {
                un(UnOp::Neg, a)
            } else if op == "not" {
                un(UnOp::Not, a)
            } else {
                let b = parse(tokens, pos)?;
                let o = BinOp::ALL.iter().find(|o| o.text() == op)?;
                bin(*o, a, b)
            };
            if tokens.get(*pos)? != ")" {
                return None;
            }
            *pos += 1;
            Some(e)
        } else if let Some(k) = t.strip_prefix('a') {
            Some(Expr::Raw(format!("\u{1}{}", k)))
        } else {
            None
        }
    }
    let spaced = s.replace('(', " ( ").replace(')', " ) ");
    let tokens: Vec<String> = spaced.split_whitespace().map(|x| x.to_string()).collect();
    let mut pos = 0;
    parse(&tokens, &mut pos)
}

/// long runs of operators of one level: N operands joined by the level's main operator with one other operator of
/// the same level at every position (`a + b + ... - k + ...`), uniform runs, and runs one of whose terms is an
/// expression of the next tighter level. The tree is the left fold whatever the length.
fn long_runs(st: &mut Stats, thorough: bool) {
    let ladder: Vec<usize> = if thorough {
        vec![2, 3, 4, 5, 6, 7, 8, 9, 10, 12, 15, 16, 17, 18, 24, 31, 32, 33, 34, 48, 63, 64, 65, 66, 67, 96, 100, 127, 128, 129, 130, 131, 192, 200, 255, 256, 257, 258]
    } else {
        vec![2, 3, 5, 8, 9, 16, 17, 32, 33, 63, 64, 65, 66, 67, 100, 127, 128, 129, 130, 257]
    };
    use BinOp::*;
    // (main operator, the other operator of the same level, an operator of the next tighter level)
    let levels: [(BinOp, Option<BinOp>, Option<BinOp>); 8] = [(Add, Some(Sub), Some(Mul)), (Sub, Some(Add), Some(Div)), (Mul, Some(Div), None), (Div, Some(Mul), None), (And, None, Some(Lt)), (Or, None, Some(And)), (Or, None, Some(Eq)), (And, None, Some(Ne))];
    let leaf = |i: usize| Expr::Raw(format!("\u{1}{}", [1usize, 0, 3, 4, 11][i % 5]));
    let mut cases: Vec<(String, Expr)> = Vec::new();
    for &n in &ladder {
        for (main, other, tighter) in levels {
            let fold = |ops: &dyn Fn(usize) -> BinOp, term: &dyn Fn(usize) -> Expr| -> Expr {
                let mut e = term(0);
                for i in 1..n {
                    e = bin(ops(i), e, term(i));
                }
                e
            };
            cases.push((format!("{} operands under {}", n, main.text()), fold(&|_| main, &|i| leaf(i))));
            // the positions: all of them for short runs, around the powers of two and the ends for long ones
            let positions: Vec<usize> = (1..n).filter(|k| n <= 34 || *k <= 2 || *k + 2 >= n || [16usize, 32, 64, 128, 256].iter().any(|p| (*k as i64 - *p as i64).abs() <= 2)).collect();
            for &k in &positions {
                if let Some(o) = other {
                    cases.push((format!("{} operands under {} with {} at operator {}", n, main.text(), o.text(), k), fold(&|i| if i == k { o } else { main }, &|i| leaf(i))));
                }
                if let Some(t) = tighter {
                    cases.push((format!("{} operands under {} with a {} term at {}", n, main.text(), t.text(), k), fold(&|_| main, &|i| if i == k { bin(t, leaf(i), leaf(i + 1)) } else { leaf(i) })));
                }
            }
        }
    }
    let accs = crate::pool::par_items(&cases, 8, |_| Stats::new(), |acc, i, (name, e)| {
        let (fail, _) = judge(e);
        acc.evaluations += 1;
        acc.states += 1;
        acc.transitions += 2;
        acc.traces_validated += 1;
        acc.nontrivial_by_construction += 1;
        if i % 997 == 0 {
            acc.sample(json!({"long_run": name}));
        }
        match fail {
            None => acc.outcome("long-run:trees-equal"),
            Some((sig, detail)) => {
                acc.outcome(&sig);
                acc.fail(Failure { sig, preds: vec!["long-run".into()], detail: format!("{}\n{}", name, detail.chars().take(3000).collect::<String>()), case: json!({"engine": "c13", "tree": tree_to_json(e)}), size: 100_000 + gen_sexp(e).len() });
            }
        }
    });
    for a in accs {
        st.merge(a);
    }
}

pub fn run(run: &mut Run) {
    let max_ops = if run.thorough() { 4 } else { 3 };
    let mut memo = Vec::new();
    let mut shapes: Vec<T> = Vec::new();
    for n in 0..=max_ops {
        shapes.extend(trees(n, &mut memo));
    }
    // thorough keeps depth-4 affordable: every rotation for <=3 operators, 3 rotations for 4 operators
    let nrot = ATOMS.len() + ARROW_ATOMS.len();
    let small = {
        let mut c = 0usize;
        for n in 0..=3.min(max_ops) {
            c += trees(n, &mut memo).len();
        }
        c
    };
    let total = shapes.len() as u64 * nrot as u64;
    let small = shapes.len();
    let stop = AtomicBool::new(false);
    let accs = crate::pool::par_range(total, 512, |_| Stats::new(), |acc, i| {
        let (si, rot) = if i < small as u64 * nrot as u64 {
            ((i / nrot as u64) as usize, (i % nrot as u64) as usize)
        } else {
            let j = i - small as u64 * nrot as u64;
            (small + (j / 3) as usize, ((j % 3) * 5) as usize)
        };
        let mut leaf = 0;
        let e = to_expr_n(&shapes[si], &mut leaf, rot, count_leaves(&shapes[si]));
        let (fail, minimal) = judge(&e);
        acc.evaluations += 1;
        acc.states += 1;
        acc.transitions += 2;
        acc.traces_validated += 1;
        if leaf >= 2 {
            acc.nontrivial_by_construction += 1;
        }
        if minimal != text(&e, 0, true) {
            acc.count("cases_where_precedence_decides_grouping", 1);
        }
        if i % 50_021 == 0 {
            acc.sample(json!({"tree": gen_sexp(&e), "minimal_text": minimal}));
        }
        match fail {
            None => acc.outcome("trees-equal"),
            Some((sig, detail)) => {
                acc.outcome(&sig);
                acc.fail(Failure { sig, preds: vec![], detail, case: json!({"engine": "c13", "tree": tree_to_json(&e)}), size: gen_sexp(&e).len() });
            }
        }
    }, &stop);
    run.stats = Stats::merge_all(accs);
    let all_leaves = if run.thorough() { 3 } else { 2 };
    value_family(&mut run.stats, max_ops, all_leaves);
    let th = run.thorough();
    long_runs(&mut run.stats, th);
    run.rule = "every tree with at most N operator nodes over 13 binary + 2 unary operators; leaves take the atom kinds in rotation (all rotations); values: every well-typed tree over int (+ - * unary -), float (+ - * / unary -) and bool (comparisons, and, or, not, ==) leaves x y 1 2 / p q 4.0 0.5 / t f with at most 2 (thorough: 3) operators, and a 1-in-97 slice of the trees with up to N operators, compiled and run in minimal and fully parenthesised form and compared with the value of the tree; long runs: 2..257 operands under one operator of each level (+ - * / and or), with the other operator of the level at each position (every position up to 34 operands; the ends and the neighbourhoods of 16, 32, 64, 128, 256 beyond) and with one term of the next tighter level at each such position, against the left fold; distinct by construction; non-trivial = at least two leaves".into();
    run.bounds = json!({"max_operator_nodes": max_ops, "atoms": ATOMS, "shapes": shapes.len()});
    run.assumptions = vec![
        "the precedence table of the property statement; unary operands and unary children of * / are always parenthesised by the printer because the table is silent there".into(),
        "trees are compared through the public parse tree, ignoring spans and Parenthesis nodes".into(),
    ];
}

// ------------------------------------------------------------------------------------------
// values: "evaluates to the same value as its fully parenthesised form"
// ------------------------------------------------------------------------------------------
#[derive(Clone, Copy, PartialEq, Eq, Hash, Debug)]
enum VT {
    I,
    F,
    B,
}

#[derive(Clone, Debug, PartialEq)]
enum VV {
    I(i64),
    F(f64),
    B(bool),
}

fn v_leaves(t: VT) -> Vec<Expr> {
    match t {
        VT::I => vec![var("x"), var("y"), int(1), int(2)],
        VT::F => vec![var("p"), var("q"), Expr::Float(4.0), Expr::Float(0.5)],
        VT::B => vec![var("t"), var("f")],
    }
}

/// every well-typed tree with exactly `n` operator nodes; `rotate`: leaves are assigned in rotation instead of in
/// every combination
fn v_trees(t: VT, n: usize, memo: &mut std::collections::HashMap<(VT, usize), std::sync::Arc<Vec<Expr>>>) -> std::sync::Arc<Vec<Expr>> {
    if let Some(v) = memo.get(&(t, n)) {
        return v.clone();
    }
    let mut out = Vec::new();
    if n == 0 {
        out = v_leaves(t);
    } else {
        use BinOp::*;
        // unary
        match t {
            VT::I | VT::F => {
                for a in v_trees(t, n - 1, memo).iter() {
                    out.push(un(UnOp::Neg, a.clone()));
                }
            }
            VT::B => {
                for a in v_trees(t, n - 1, memo).iter() {
                    out.push(un(UnOp::Not, a.clone()));
                }
            }
        }
        for l in 0..n {
            let r = n - 1 - l;
            match t {
                VT::I | VT::F => {
                    let ops: &[BinOp] = if t == VT::I { &[Add, Sub, Mul] } else { &[Add, Sub, Mul, Div] };
                    for a in v_trees(t, l, memo).iter() {
                        for b in v_trees(t, r, memo).iter() {
                            for op in ops {
                                out.push(bin(*op, a.clone(), b.clone()));
                            }
                        }
                    }
                }
                VT::B => {
                    for a in v_trees(VT::B, l, memo).iter() {
                        for b in v_trees(VT::B, r, memo).iter() {
                            out.push(bin(And, a.clone(), b.clone()));
                            out.push(bin(Or, a.clone(), b.clone()));
                            out.push(bin(Eq, a.clone(), b.clone()));
                        }
                    }
                    for nt in [VT::I, VT::F] {
                        for a in v_trees(nt, l, memo).iter() {
                            for b in v_trees(nt, r, memo).iter() {
                                for op in [Lt, Le, Gt, Ge, Eq, Ne] {
                                    out.push(bin(op, a.clone(), b.clone()));
                                }
                            }
                        }
                    }
                }
            }
        }
    }
    let v = std::sync::Arc::new(out);
    memo.insert((t, n), v.clone());
    v
}

fn v_eval(e: &Expr) -> Option<VV> {
    Some(match e {
        Expr::Int(i) => VV::I(*i),
        Expr::Float(f) => VV::F(*f),
        Expr::Var(n) => match n.as_str() {
            "x" => VV::I(10),
            "y" => VV::I(3),
            "p" => VV::F(8.0),
            "q" => VV::F(2.0),
            "t" => VV::B(true),
            "f" => VV::B(false),
            _ => return None,
        },
        Expr::Un(UnOp::Neg, a) => match v_eval(a)? {
            VV::I(i) => VV::I(i.checked_neg()?),
            VV::F(f) => VV::F(-f),
            _ => return None,
        },
        Expr::Un(UnOp::Not, a) => match v_eval(a)? {
            VV::B(b) => VV::B(!b),
            _ => return None,
        },
        Expr::Bin(op, a, b) => {
            use BinOp::*;
            match (v_eval(a)?, v_eval(b)?) {
                (VV::I(x), VV::I(y)) => match op {
                    Add => VV::I(x.checked_add(y)?),
                    Sub => VV::I(x.checked_sub(y)?),
                    Mul => VV::I(x.checked_mul(y)?),
                    Lt => VV::B(x < y),
                    Le => VV::B(x <= y),
                    Gt => VV::B(x > y),
                    Ge => VV::B(x >= y),
                    Eq => VV::B(x == y),
                    Ne => VV::B(x != y),
                    _ => return None,
                },
                (VV::F(x), VV::F(y)) => match op {
                    Add => VV::F(x + y),
                    Sub => VV::F(x - y),
                    Mul => VV::F(x * y),
                    Div => {
                        if y == 0.0 {
                            return None;
                        }
                        VV::F(x / y)
                    }
                    Lt => VV::B(x < y),
                    Le => VV::B(x <= y),
                    Gt => VV::B(x > y),
                    Ge => VV::B(x >= y),
                    Eq => VV::B(x == y),
                    Ne => VV::B(x != y),
                    _ => return None,
                },
                (VV::B(x), VV::B(y)) => match op {
                    And => VV::B(x && y),
                    Or => VV::B(x || y),
                    Eq => VV::B(x == y),
                    _ => return None,
                },
                _ => return None,
            }
        }
        _ => return None,
    })
}

fn v_text(v: &VV) -> Option<String> {
    Some(match v {
        VV::I(i) => format!("{}", i),
        VV::F(f) => {
            if !f.is_finite() || (*f != 0.0 && (f.abs() < 1e-4 || f.abs() > 1e12)) {
                return None;
            }
            crate::refsylt::float_text(*f)
        }
        VV::B(b) => format!("{}", b),
    })
}

/// compiles and runs `print(<minimal form>)` and `print(<fully parenthesised form>)` of every tree; both must print the
/// value the tree denotes
fn value_family(st: &mut Stats, max_ops: usize, all_leaves_up_to: usize) {
    use crate::harness::*;
    let mut memo = std::collections::HashMap::new();
    let mut trees: Vec<Expr> = Vec::new();
    for n in 1..=max_ops {
        for t in [VT::I, VT::F, VT::B] {
            let all = v_trees(t, n, &mut memo);
            if n <= all_leaves_up_to {
                trees.extend(all.iter().cloned());
            } else {
                // a deterministic 1-in-k slice that still visits every operator shape: leaves vary fastest in the
                // enumeration, so a stride coprime to the leaf counts walks through all shapes and leaf choices
                let stride = 97;
                trees.extend(all.iter().enumerate().filter(|(i, _)| i % stride == n).map(|(_, e)| e.clone()));
            }
        }
    }
    // keep only trees with a defined, printable value
    let cases: Vec<(Expr, String)> = trees.into_iter().filter_map(|e| v_eval(&e).and_then(|v| v_text(&v)).map(|t| (e, t))).collect();
    let chunks: Vec<&[(Expr, String)]> = cases.chunks(160).collect();
    let accs = crate::pool::par_items(&chunks, 1, |_| Stats::new(), |acc, ci, chunk| {
        let mut text = String::from("print: fn *X -> void : external\nx := 10\ny := 3\np := 8.0\nq := 2.0\nt := true\nf := false\n");
        let mut calls = Vec::new();
        for (k, part) in chunk.chunks(8).enumerate() {
            text.push_str(&format!("part{} :: fn do\n", k));
            for (e, _) in part {
                let min = Printer::new(PrintOpts::default()).expr(e, 0);
                let full = Printer::new(PrintOpts { full_parens: true, ..PrintOpts::default() }).expr(e, 0);
                text.push_str(&format!("    print({})\n    print({})\n", min, full));
            }
            text.push_str("end\n");
            calls.push(format!("    part{}()\n", k));
        }
        text.push_str("start :: fn do\n");
        for c in &calls {
            text.push_str(c);
        }
        text.push_str("end\n");
        let mut files = serde_json::Map::new();
        files.insert(MAIN.to_string(), json!(text));
        let out = match compile_src(&text) {
            Outcome::Ok(lua) => crate::luarun::run_lua(&lua, 50_000_000),
            other => {
                acc.outcome("value:program-rejected");
                acc.fail(Failure { sig: "value-program-rejected".into(), preds: vec![], detail: format!("{}\n{}", other.short(), text), case: json!({"engine": "c13-values", "files": files, "expected": []}), size: text.len() });
                return;
            }
        };
        let expected: Vec<String> = chunk.iter().flat_map(|(_, t)| [t.clone(), t.clone()]).collect();
        for (k, (e, want)) in chunk.iter().enumerate() {
            acc.evaluations += 2;
            acc.transitions += 2;
            acc.nontrivial_by_construction += 1;
            let got_min = out.out.get(2 * k);
            let got_full = out.out.get(2 * k + 1);
            if got_min == Some(want) && got_full == Some(want) {
                acc.outcome("value:both-forms-give-the-denoted-value");
            } else {
                acc.outcome("value:DIFFERS");
                let min = Printer::new(PrintOpts::default()).expr(e, 0);
                let full = Printer::new(PrintOpts { full_parens: true, ..PrintOpts::default() }).expr(e, 0);
                acc.fail(Failure {
                    sig: if got_min != got_full { "minimal-and-full-form-values-differ".into() } else { "value-differs-from-the-tree".into() },
                    preds: vec![],
                    detail: format!("`{}` printed {:?}, `{}` printed {:?}, the tree denotes {} (x=10 y=3 p=8.0 q=2.0 t=true f=false); run ended {:?}", min, got_min, full, got_full, want, out.end),
                    case: json!({"engine": "c13-values", "files": files, "expected": expected}),
                    size: min.len(),
                });
            }
        }
        if ci % 53 == 0 {
            acc.sample(json!({"value_program_head": text.lines().take(12).collect::<Vec<_>>()}));
        }
    });
    st.merge(Stats::merge_all(accs));
    st.count("value_trees", cases.len() as u64);
}

pub fn replay(case: &serde_json::Value) -> Option<(String, String)> {
    if case["engine"] == "c13-values" {
        use crate::harness::*;
        let text = case["files"][MAIN].as_str()?;
        let want: Vec<String> = case["expected"].as_array()?.iter().filter_map(|x| x.as_str().map(|s| s.to_string())).collect();
        return match compile_src(text) {
            Outcome::Ok(lua) => {
                let r = crate::luarun::run_lua(&lua, 50_000_000);
                if r.out == want { None } else { Some(("value-differs".into(), format!("first difference at line {:?}", r.out.iter().zip(want.iter()).position(|(a, b)| a != b)))) }
            }
            other => Some(("value-program-rejected".into(), other.short())),
        };
    }
    let e = sexp_to_expr(case["tree"].as_str()?)?;
    judge(&e).0
}
