//! C10 — re-entrancy of activations and closures: the recursion / closure / higher-order
//! families under the distinct-values discipline, trace equality with RefSylt as the verdict;
//! free (global) V-names assigned by the emitted chunk are recorded as a diagnostic.

use crate::ast::*;
use crate::engines::c01;
use crate::harness::*;
use crate::luarun::*;
use crate::report::{Run, Stats};

fn relevant(family: &str) -> bool {
    family.starts_with("recursion")
        || family.starts_with("closures")
        || family.starts_with("blobs")
        || family.starts_with("enums")
        || family.starts_with("globals")
        || (family.starts_with("scale:") && ["locals", "closure", "parameters", "calls", "call-heavy"].iter().any(|w| family.contains(w)))
        || [
            "expr@closure-sees-later-assignment", "expr@closure-per-iteration", "expr@fn-result", "expr@method-result", "expr@held-across",
            "expr@early-ret", "expr@argument-after-tick", "expr@fn-param-shadows-global", "expr@ret-in-loop", "expr@case-arm-value", "expr@loop-twice",
        ]
        .contains(&family)
}

fn diagnostics(acc: &mut Stats, p: &Program) {
    let text = print_program(p).text;
    if let Outcome::Ok(lua) = compile_src(&text) {
        if let Ok(chunk) = loads(&lua) {
            let externals = p.tops.iter().filter(|t| matches!(t, Top::External { .. })).count();
            let free: Vec<String> = chunk.free_names_assigned().into_iter().filter(|n| n.len() > 1 && n.starts_with('V') && n[1..].bytes().all(|b| b.is_ascii_digit())).collect();
            if free.len() > externals {
                acc.count("diagnostic:chunks-assigning-undeclared-V-names", 1);
            } else {
                acc.count("diagnostic:chunks-with-only-declared-temporaries", 1);
            }
        }
    }
}

pub fn run(run: &mut Run) {
    let (st, bounds) = c01::for_each_program(run.thorough(), &relevant, &|acc, fam, p, sample| {
        c01::record(acc, "c01", fam, p, sample);
        if sample || fam.starts_with("recursion") {
            diagnostics(acc, p);
        }
    });
    let mut st = st;
    crate::engines::c18::reentrancy_check(&mut st);
    run.stats = st;
    run.bounds = bounds;
    run.rule = "the recursion templates (a value held across the recursive call at each of 37 expression positions, depth 1-3, with and without tracing, mutual recursion through a mutable global, a method re-entering through self), every action sequence of the closure / blob-method / enum-binding / global families, every expression of the expression families in the contexts that involve calls, closures and early returns, and the standard library's map / filter / fold re-entered from their own callbacks (every pair of such calls on every list of length <= 4 over two values, four element kinds, compared with a Vec model); held values, recursion levels and closure instances carry pairwise different values and every intermediate result is printed, so a value read from another activation changes the trace; non-trivial = the trace prints something; distinct by program text".into();
    run.assumptions = vec![
        "verdict = trace equality between the emitted Lua under MiniLua and RefSylt; the count of chunks that assign undeclared V-names is a diagnostic only".into(),
        "programs skipped by C01's rules (order-ambiguous assignments, budget) are skipped here too".into(),
    ];
}
