//! C18 — standard-library contracts: every history of operations (bounded length) on lists,
//! dicts and sets of every element/key type, the Maybe helpers and the math helpers, executed by
//! compiled Sylt programs (std bundled) and compared with plain Rust models.

use crate::harness::*;
use crate::luarun::*;
use crate::report::{Failure, Run, Stats};
use serde_json::json;
use std::collections::BTreeMap;

#[derive(Clone, Debug, PartialEq, Eq, PartialOrd, Ord)]
enum Val {
    I(i64),
    S(String),
    T(i64, i64),
}

impl Val {
    fn src(&self) -> String {
        match self {
            Val::I(i) => if *i < 0 { format!("(-{})", -i) } else { format!("{}", i) },
            Val::S(s) => format!("\"{}\"", s),
            Val::T(a, b) => format!("({}, {})", a, b),
        }
    }
    fn show(&self) -> String {
        match self {
            Val::I(i) => format!("{}", i),
            Val::S(s) => s.clone(),
            Val::T(a, b) => format!("({}, {})", a, b),
        }
    }
    fn ty(&self) -> &'static str {
        match self {
            Val::I(_) => "int",
            Val::S(_) => "str",
            Val::T(..) => "(int, int)",
        }
    }
}

fn show_maybe(v: Option<&Val>) -> String {
    match v {
        Some(v) => format!("Just {}", v.show()),
        None => "None nil".to_string(),
    }
}
fn show_list(l: &[Val]) -> String {
    format!("[{}]", l.iter().map(|v| v.show()).collect::<Vec<_>>().join(", "))
}

fn elem_domain(kind: usize) -> Vec<Val> {
    match kind {
        0 => vec![Val::I(1), Val::I(2), Val::I(3)],
        1 => vec![Val::S("a".into()), Val::S("b".into())],
        2 => vec![Val::T(1, 2), Val::T(2, 1)],
        // distinct strings that spell the same number
        3 => vec![Val::S("1".into()), Val::S("01".into()), Val::S("1.0".into())],
        // distinct integers that agree in their first 15 digits / are not exact as doubles
        _ => vec![Val::I(1000000000000001), Val::I(1000000000000002), Val::I(9007199254740993)],
    }
}
const KINDS: usize = 5;

/// one list operation: source text (may print) and its effect on the model (pushes expected lines)
#[derive(Clone)]
struct Op {
    src: String,
    name: &'static str,
    apply: std::sync::Arc<dyn Fn(&mut Vec<Val>, &mut Vec<String>) + Send + Sync>,
}

fn list_ops(kind: usize) -> Vec<Op> {
    let dom = elem_domain(kind);
    let mut ops: Vec<Op> = Vec::new();
    let mk = |src: String, name: &'static str, f: std::sync::Arc<dyn Fn(&mut Vec<Val>, &mut Vec<String>) + Send + Sync>| Op { src, name, apply: f };
    for v in dom.iter().take(2) {
        let v1 = v.clone();
        ops.push(mk(format!("list.push(l, {})", v.src()), "push", std::sync::Arc::new(move |l, _| l.push(v1.clone()))));
        let v2 = v.clone();
        ops.push(mk(format!("list.prepend(l, {})", v.src()), "prepend", std::sync::Arc::new(move |l, _| l.insert(0, v2.clone()))));
    }
    ops.push(mk("print(list.pop(l))".into(), "pop", std::sync::Arc::new(|l, out| {
        let v = l.pop();
        out.push(show_maybe(v.as_ref()));
    })));
    for i in [0i64, 1, 2, 5, -1] {
        let isrc = if i < 0 { format!("(-{})", -i) } else { format!("{}", i) };
        ops.push(mk(format!("print(list.get(l, {}))", isrc), "get", std::sync::Arc::new(move |l, out| out.push(show_maybe(if i < 0 { None } else { l.get(i as usize) })))));
    }
    for i in [0i64, 1, 5, -1] {
        let v = dom[dom.len() - 1].clone();
        let isrc = if i < 0 { format!("(-{})", -i) } else { format!("{}", i) };
        ops.push(mk(format!("list.set(l, {}, {})", isrc, v.src()), if i < 0 { "set-negative" } else { "set" }, std::sync::Arc::new(move |l, _| {
            if i >= 0 && (i as usize) < l.len() {
                l[i as usize] = v.clone();
            }
        })));
    }
    ops.push(mk("print(list.len(l))".into(), "len", std::sync::Arc::new(|l, out| out.push(format!("{}", l.len())))));
    ops.push(mk("print(list.last(l))".into(), "last", std::sync::Arc::new(|l, out| out.push(show_maybe(l.last())))));
    let needle = dom[1].clone();
    let n2 = needle.clone();
    ops.push(mk(format!("print(list.contains(l, {}))", needle.src()), "contains", std::sync::Arc::new(move |l, out| out.push(format!("{}", l.contains(&n2))))));
    let n3 = needle.clone();
    ops.push(mk(format!("print(list.find(l, pu x -> x == {} end))", needle.src()), "find", std::sync::Arc::new(move |l, out| out.push(show_maybe(l.iter().find(|x| **x == n3))))));
    let n4 = needle.clone();
    ops.push(mk(format!("print(filter(l, pu x -> x != {} end))", needle.src()), "filter", std::sync::Arc::new(move |l, out| out.push(show_list(&l.iter().filter(|x| **x != n4).cloned().collect::<Vec<_>>())))));
    // higher-order functions re-entered from their own callbacks: how often each element occurs, and the elements
    // that occur at least twice (filter inside map / filter, fold inside both)
    ops.push(mk("do\n        ll :: l\n        print(map(ll, pu x -> fold(filter(ll, pu y -> y == x end), 0, pu y, acc -> acc + 1 end) end))\n    end".into(), "map(fold(filter))", std::sync::Arc::new(|l, out| {
        out.push(format!("[{}]", l.iter().map(|x| format!("{}", l.iter().filter(|y| *y == x).count())).collect::<Vec<_>>().join(", ")));
    })));
    ops.push(mk("do\n        ll :: l\n        print(filter(ll, pu x -> fold(filter(ll, pu y -> y == x end), 0, pu y, acc -> acc + 1 end) >= 2 end))\n    end".into(), "filter(fold(filter))", std::sync::Arc::new(|l, out| {
        out.push(show_list(&l.iter().filter(|x| l.iter().filter(|y| y == x).count() >= 2).cloned().collect::<Vec<_>>()));
    })));
    // find / filter whose callbacks call back into a lookup of the same list (find itself is impure: not callable there)
    ops.push(mk("do\n        ll :: l\n        print(list.find(ll, pu y -> list.get(ll, 1) == (Maybe.Just y) end))\n    end".into(), "find(get)", std::sync::Arc::new(|l, out| {
        let target = l.get(1).cloned();
        out.push(show_maybe(l.iter().find(|y| Some((*y).clone()) == target)));
    })));
    ops.push(mk("do\n        ll :: l\n        print(list.find(ll, pu y -> list.get(ll, 0) != (Maybe.Just y) end))\n    end".into(), "find(get-other)", std::sync::Arc::new(|l, out| {
        let first = l.first().cloned();
        out.push(show_maybe(l.iter().find(|y| Some((*y).clone()) != first)));
    })));
    ops.push(mk("do\n        ll :: l\n        print(filter(ll, pu y -> list.get(ll, 0) != (Maybe.Just y) end))\n    end".into(), "filter(get)", std::sync::Arc::new(|l, out| {
        let first = l.first().cloned();
        out.push(show_list(&l.iter().filter(|y| Some((*y).clone()) != first).cloned().collect::<Vec<_>>()));
    })));
    // a list derived from `l` (filter that keeps everything / drops the needle, identity map) is a list of its own: one of
    // the two is changed in place, then both are observed (the change to `l` itself carries over to the later operations)
    for (dname, dsrc, drops) in [("filter-all", "filter(l, pu x -> true end)".to_string(), false), ("filter-some", format!("filter(l, pu x -> x != {} end)", needle.src()), true), ("map-id", "map(l, pu x -> x end)".to_string(), false)] {
        for target_source in [false, true] {
            for mutation in 0..3usize {
                let v = dom[0].clone();
                let t = if target_source { "l" } else { "m" };
                let msrc = match mutation {
                    0 => format!("list.push({}, {})", t, v.src()),
                    1 => format!("list.pop({})", t),
                    _ => format!("list.set({}, 0, {})", t, v.src()),
                };
                let nd = needle.clone();
                ops.push(mk(format!("do\n        m :: {}\n        {}\n        print(m)\n        print(l)\n        print(list.len(m))\n    end", dsrc, msrc), match (dname, target_source) {
                    ("filter-all", false) => "derived(filter-all)-changed",
                    ("filter-all", true) => "source-of(filter-all)-changed",
                    ("filter-some", false) => "derived(filter-some)-changed",
                    ("filter-some", true) => "source-of(filter-some)-changed",
                    (_, false) => "derived(map-id)-changed",
                    _ => "source-of(map-id)-changed",
                }, std::sync::Arc::new(move |l, out| {
                    let mut m: Vec<Val> = l.iter().filter(|x| !drops || **x != nd).cloned().collect();
                    {
                        let tgt: &mut Vec<Val> = if target_source { &mut *l } else { &mut m };
                        match mutation {
                            0 => tgt.push(v.clone()),
                            1 => {
                                tgt.pop();
                            }
                            _ => {
                                if !tgt.is_empty() {
                                    tgt[0] = v.clone();
                                }
                            }
                        }
                    }
                    out.push(show_list(&m));
                    out.push(show_list(l));
                    out.push(format!("{}", m.len()));
                })));
            }
        }
    }
    if kind == 0 || kind == 4 {
        ops.push(mk("do\n        ll :: l\n        print(map(ll, pu x -> fold(map(ll, pu y -> y * x end), 0, pu y, acc -> acc + y end) end))\n    end".into(), "map(fold(map))", std::sync::Arc::new(|l, out| {
            let ints: Vec<i64> = l.iter().map(|x| if let Val::I(i) = x { *i } else { 0 }).collect();
            let sum: i64 = ints.iter().fold(0i64, |a, b| a.wrapping_add(*b));
            out.push(format!("[{}]", ints.iter().map(|x| format!("{}", x.wrapping_mul(sum))).collect::<Vec<_>>().join(", ")));
        })));
        ops.push(mk("do\n        ll :: l\n        print(fold(ll, 0, pu x, acc -> acc + fold(ll, 0, pu y, inner -> inner + y * x end) end))\n    end".into(), "fold(fold)", std::sync::Arc::new(|l, out| {
            let ints: Vec<i64> = l.iter().map(|x| if let Val::I(i) = x { *i } else { 0 }).collect();
            let sum: i64 = ints.iter().fold(0i64, |a, b| a.wrapping_add(*b));
            out.push(format!("{}", sum.wrapping_mul(sum)));
        })));
    }
    match kind {
        0 | 4 => {
            ops.push(mk("print(map(l, pu x -> x * 10 end))".into(), "map", std::sync::Arc::new(|l, out| out.push(show_list(&l.iter().map(|x| if let Val::I(i) = x { Val::I(i.wrapping_mul(10)) } else { x.clone() }).collect::<Vec<_>>())))));
            ops.push(mk("print(fold(l, 0, pu x, acc -> acc * 10 + x end))".into(), "fold", std::sync::Arc::new(|l, out| {
                let mut acc = 0i64;
                for x in l.iter() {
                    if let Val::I(i) = x {
                        acc = acc.wrapping_mul(10).wrapping_add(*i);
                    }
                }
                out.push(format!("{}", acc));
            })));
        }
        1 | 3 => {
            ops.push(mk("print(map(l, pu x -> x + \"!\" end))".into(), "map", std::sync::Arc::new(|l, out| out.push(show_list(&l.iter().map(|x| if let Val::S(s) = x { Val::S(format!("{}!", s)) } else { x.clone() }).collect::<Vec<_>>())))));
            ops.push(mk("print(fold(l, \"\", pu x, acc -> acc + x end))".into(), "fold", std::sync::Arc::new(|l, out| out.push(l.iter().map(|x| x.show()).collect::<String>()))));
        }
        _ => {
            ops.push(mk("print(map(l, pu x -> x[0] end))".into(), "map", std::sync::Arc::new(|l, out| out.push(show_list(&l.iter().map(|x| if let Val::T(a, _) = x { Val::I(*a) } else { x.clone() }).collect::<Vec<_>>())))));
            ops.push(mk("print(fold(l, 0, pu x, acc -> acc * 10 + x[1] end))".into(), "fold", std::sync::Arc::new(|l, out| {
                let mut acc = 0i64;
                for x in l.iter() {
                    if let Val::T(_, b) = x {
                        acc = acc * 10 + b;
                    }
                }
                out.push(format!("{}", acc));
            })));
        }
    }
    // the container shown in the middle of a history (printing must not leave marks behind)
    ops.push(mk("print(l)".into(), "show", std::sync::Arc::new(|l, out| out.push(show_list(l)))));
    // a call with an effect next to operands that are lowered to statements (if-value, and): left to right
    ops.push(mk("print((list.pop(l) == Maybe.None, if list.len(l) == 0 do 0 else do 1 end))".into(), "pop-beside-if-len", std::sync::Arc::new(|l, out| {
        let v = l.pop();
        out.push(format!("({}, {})", v.is_none(), if l.is_empty() { 0 } else { 1 }));
    })));
    ops.push(mk("print(list.pop(l) != Maybe.None and list.len(l) == 0)".into(), "pop-and-len", std::sync::Arc::new(|l, out| {
        let v = l.pop();
        out.push(format!("{}", v.is_some() && l.is_empty()));
    })));
    // library values are interchangeable with source values
    let first = dom[0].clone();
    let f2 = first.clone();
    ops.push(mk(format!("print(list.get(l, 0) == (Maybe.Just {}))", first.src()), "get==Just", std::sync::Arc::new(move |l, out| out.push(format!("{}", l.first() == Some(&f2))))));
    ops.push(mk("print(list.get(l, 7) == Maybe.None)".into(), "get==None", std::sync::Arc::new(|_, out| out.push("true".into()))));
    ops.push(mk("print(list.pop(l) == Maybe.None)".into(), "pop==None", std::sync::Arc::new(|l, out| {
        let v = l.pop();
        out.push(format!("{}", v.is_none()));
    })));
    ops
}

/// dict / set operations over a key kind; model = BTreeMap
#[derive(Clone)]
struct KOp {
    src: String,
    name: &'static str,
    apply: std::sync::Arc<dyn Fn(&mut BTreeMap<Val, i64>, &mut Vec<String>) + Send + Sync>,
}

fn dict_ops(kind: usize) -> Vec<KOp> {
    let keys = elem_domain(kind);
    let mut ops = Vec::new();
    for (ki, k) in keys.iter().take(2).enumerate() {
        for v in [10i64, 20] {
            let kk = k.clone();
            ops.push(KOp { src: format!("dict.update(d, {}, {})", k.src(), v + ki as i64), name: "update", apply: std::sync::Arc::new(move |m, _| {
                m.insert(kk.clone(), v + ki as i64);
            }) });
        }
        let kk = k.clone();
        ops.push(KOp { src: format!("dict.remove(d, {})", k.src()), name: "remove", apply: std::sync::Arc::new(move |m, _| {
            m.remove(&kk);
        }) });
        let kk = k.clone();
        ops.push(KOp { src: format!("print(dict.get(d, {}))", k.src()), name: "get", apply: std::sync::Arc::new(move |m, out| out.push(match m.get(&kk) {
            Some(v) => format!("Just {}", v),
            None => "None nil".into(),
        })) });
        let kk = k.clone();
        ops.push(KOp { src: format!("print(dict.contains_key(d, {}))", k.src()), name: "contains_key", apply: std::sync::Arc::new(move |m, out| out.push(format!("{}", m.contains_key(&kk)))) });
        let kk = k.clone();
        ops.push(KOp { src: format!("print(dict.get(d, {}) == Maybe.None)", k.src()), name: "get==None", apply: std::sync::Arc::new(move |m, out| out.push(format!("{}", !m.contains_key(&kk)))) });
    }
    ops.push(KOp { src: "print(dict.len(d))".into(), name: "len", apply: std::sync::Arc::new(|m, out| out.push(format!("{}", m.len()))) });
    ops
}

fn set_ops(kind: usize) -> Vec<KOp> {
    let keys = elem_domain(kind);
    let mut ops = Vec::new();
    for k in keys.iter().take(2) {
        let kk = k.clone();
        ops.push(KOp { src: format!("set.add(d, {})", k.src()), name: "add", apply: std::sync::Arc::new(move |m, _| {
            m.insert(kk.clone(), 1);
        }) });
        let kk = k.clone();
        ops.push(KOp { src: format!("set.remove(d, {})", k.src()), name: "remove", apply: std::sync::Arc::new(move |m, _| {
            m.remove(&kk);
        }) });
        let kk = k.clone();
        ops.push(KOp { src: format!("print(set.contains(d, {}))", k.src()), name: "contains", apply: std::sync::Arc::new(move |m, out| out.push(format!("{}", m.contains_key(&kk)))) });
    }
    ops.push(KOp { src: "print(set.len(d))".into(), name: "len", apply: std::sync::Arc::new(|m, out| out.push(format!("{}", m.len()))) });
    ops
}

struct History {
    family: String,
    /// function body lines
    body: Vec<String>,
    expected: Vec<String>,
    ops: Vec<&'static str>,
}

fn list_histories(max_len: usize, out: &mut Vec<History>) {
    for kind in 0..KINDS {
        let all_ops = list_ops(kind);
        let mut ops = all_ops.clone();
        {
            // six of the eighteen derived-list operations (each deriving function, both targets, each kind of change): the
            // quick tier uses this menu throughout, the thorough tier uses it at length 4 and the full menu at length <= 3
            let keep = |o: &Op| match o.name {
                "derived(filter-all)-changed" => o.src.contains("list.push(m") || o.src.contains("list.set(m"),
                "source-of(filter-all)-changed" => o.src.contains("list.pop(l"),
                "derived(filter-some)-changed" => o.src.contains("list.push(m"),
                "derived(map-id)-changed" => o.src.contains("list.set(m"),
                "source-of(map-id)-changed" => o.src.contains("list.push(l"),
                "source-of(filter-some)-changed" => false,
                _ => true,
            };
            ops.retain(keep);
        }
        let dom = elem_domain(kind);
        let ty = dom[0].ty();
        for init in 0..2 {
            let init_vals: Vec<Val> = if init == 0 { vec![] } else { vec![dom[0].clone(), dom[1].clone()] };
            for len in 1..=max_len {
                let ops = if max_len > 3 && len <= 3 { &all_ops } else { &ops };
                let n = ops.len();
                for mut code in 0..n.pow(len as u32) {
                    let mut model = init_vals.clone();
                    let mut expected = Vec::new();
                    let mut body = vec![format!("l: [{}] = [{}]", ty, init_vals.iter().map(|v| v.src()).collect::<Vec<_>>().join(", "))];
                    let mut names = Vec::new();
                    for _ in 0..len {
                        let op = &ops[code % n];
                        code /= n;
                        body.push(op.src.clone());
                        (op.apply)(&mut model, &mut expected);
                        names.push(op.name);
                    }
                    body.push("print(l)".into());
                    body.push("print(list.len(l))".into());
                    expected.push(show_list(&model));
                    expected.push(format!("{}", model.len()));
                    out.push(History { family: format!("list<{}>:init{}", ty, init), body, expected, ops: names });
                }
            }
        }
    }
}

fn keyed_histories(max_len: usize, out: &mut Vec<History>) {
    for kind in 0..KINDS {
        let keys = elem_domain(kind);
        let kty = keys[0].ty();
        for (cname, ops, decl_new, decl_from) in [
            ("dict", dict_ops(kind), format!("d: dict.Dict({}, int) = dict.new()", kty), format!("d: dict.Dict({}, int) = dict.from_list([({}, 10), ({}, 21)])", kty, keys[0].src(), keys[1].src())),
            ("set", set_ops(kind), format!("d: set.Set({}) = set.new()", kty), format!("d: set.Set({}) = set.from_list([{}, {}])", kty, keys[0].src(), keys[1].src())),
        ] {
            for init in 0..2 {
                let n = ops.len();
                for len in 1..=max_len {
                    for mut code in 0..n.pow(len as u32) {
                        let mut model: BTreeMap<Val, i64> = BTreeMap::new();
                        if init == 1 {
                            model.insert(keys[0].clone(), if cname == "dict" { 10 } else { 1 });
                            model.insert(keys[1].clone(), if cname == "dict" { 21 } else { 1 });
                        }
                        let mut expected = Vec::new();
                        let mut body = vec![if init == 0 { decl_new.clone() } else { decl_from.clone() }];
                        let mut names = Vec::new();
                        for _ in 0..len {
                            let op = &ops[code % n];
                            code /= n;
                            body.push(op.src.clone());
                            (op.apply)(&mut model, &mut expected);
                            names.push(op.name);
                        }
                        // final contents: membership of every key of the domain + size
                        for k in &keys {
                            if cname == "dict" {
                                body.push(format!("print(dict.get(d, {}))", k.src()));
                                expected.push(match model.get(k) {
                                    Some(v) => format!("Just {}", v),
                                    None => "None nil".into(),
                                });
                            } else {
                                body.push(format!("print(set.contains(d, {}))", k.src()));
                                expected.push(format!("{}", model.contains_key(k)));
                            }
                        }
                        body.push(format!("print({}.len(d))", cname));
                        expected.push(format!("{}", model.len()));
                        out.push(History { family: format!("{}<{}>:init{}", cname, kty, init), body, expected, ops: names });
                    }
                }
            }
        }
    }
}

/// the library's higher-order functions re-entered from their own callbacks, on lists of every shape up to length 4
/// over a two-value domain (used by C10: activations of library functions must not interfere either)
pub fn reentrancy_check(st: &mut Stats) {
    let mut hs: Vec<History> = Vec::new();
    for kind in 0..KINDS {
        let dom = elem_domain(kind);
        let ty = dom[0].ty();
        let ops: Vec<Op> = list_ops(kind).into_iter().filter(|o| o.name.contains('(')).collect();
        for len in 0..=4usize {
            for mut code in 0..2usize.pow(len as u32) {
                let mut init: Vec<Val> = Vec::new();
                for _ in 0..len {
                    init.push(dom[code % 2].clone());
                    code /= 2;
                }
                for a in &ops {
                    for b in &ops {
                        let mut model = init.clone();
                        let mut expected = Vec::new();
                        let mut body = vec![format!("l: [{}] = [{}]", ty, init.iter().map(|v| v.src()).collect::<Vec<_>>().join(", "))];
                        for op in [a, b] {
                            body.push(op.src.clone());
                            (op.apply)(&mut model, &mut expected);
                        }
                        body.push("print(l)".into());
                        expected.push(show_list(&model));
                        hs.push(History { family: format!("reentrant list<{}>", ty), body, expected, ops: vec![a.name, b.name] });
                    }
                }
            }
        }
    }
    let idx: Vec<usize> = (0..hs.len()).collect();
    let batches: Vec<&[usize]> = idx.chunks(40).collect();
    let accs = crate::pool::par_items(&batches, 1, |_| Stats::new(), |acc, _, b| {
        let members: Vec<&History> = b.iter().map(|i| &hs[*i]).collect();
        let mut observed = run_batch(&members);
        if observed.is_err() || observed.as_ref().unwrap().iter().any(|o| o.is_none() || o.as_ref().unwrap().iter().any(|l| l.starts_with("!!"))) {
            let mut per = Vec::new();
            for m in &members {
                match run_batch(&[*m]) {
                    Ok(mut v) => per.push(v.pop().unwrap()),
                    Err(e) => per.push(Some(vec![format!("!!{}", e)])),
                }
            }
            observed = Ok(per);
        }
        for (m, got) in members.iter().zip(observed.unwrap().iter()) {
            acc.evaluations += 1;
            acc.traces_validated += 1;
            acc.nontrivial(fnv(format!("{}|{}", m.family, m.body.join("\n")).as_bytes()));
            let got = got.clone().unwrap_or_else(|| vec!["!!no output".into()]);
            if got == m.expected {
                acc.outcome("library-reentrancy:matches-model");
                continue;
            }
            acc.outcome("library-reentrancy:differs-from-model");
            let text = program(&[*m]);
            let mut files = serde_json::Map::new();
            files.insert(MAIN.to_string(), json!(text));
            acc.fail(Failure {
                sig: "library-function-not-reentrant".into(),
                preds: vec![],
                detail: format!("{} ops {:?}\n{}\nmodel:    {:?}\nobserved: {:?}", m.family, m.ops, m.body.join("\n"), m.expected, got),
                case: json!({"engine": "c18", "files": files, "expected": m.expected}),
                size: m.body.join("").len(),
            });
        }
    });
    st.merge(Stats::merge_all(accs));
}

fn num_text(f: f64) -> String {
    crate::refsylt::float_text(f)
}

fn helper_histories(out: &mut Vec<History>) {
    let ints = [-2i64, -1, 0, 1, 2];
    let floats = [-1.5f64, 0.0, 2.5];
    let fsrc = |f: f64| if f < 0.0 { format!("(-{:?})", -f) } else { format!("{:?}", f) };
    let isrc = |i: i64| if i < 0 { format!("(-{})", -i) } else { format!("{}", i) };
    let mut one = |family: &str, src: String, expected: String, name: &'static str| out.push(History { family: family.to_string(), body: vec![format!("print({})", src)], expected: vec![expected], ops: vec![name] });
    for a in ints {
        one("math:int", format!("abs({})", isrc(a)), format!("{}", a.abs()), "abs");
        one("math:int", format!("sign({})", isrc(a)), format!("{}", a.signum()), "sign");
        one("math:int", format!("floor({})", isrc(a)), format!("{}", a), "floor");
        for b in ints {
            one("math:int", format!("min({}, {})", isrc(a), isrc(b)), format!("{}", a.min(b)), "min");
            one("math:int", format!("max({}, {})", isrc(a), isrc(b)), format!("{}", a.max(b)), "max");
            // floor division, 0 for a zero divisor (documented in the runtime)
            let d = if b == 0 { 0 } else { (a as f64 / b as f64).floor() as i64 };
            one("math:int", format!("div({}, {})", isrc(a), isrc(b)), format!("{}", d), "div");
            for c in [-1i64, 1] {
                let (lo, hi) = (b.min(b + c), b.max(b + c));
                one("math:int", format!("clamp({}, {}, {})", isrc(a), isrc(lo), isrc(hi)), format!("{}", a.max(lo).min(hi)), "clamp");
            }
        }
    }
    for a in floats {
        one("math:float", format!("abs({})", fsrc(a)), num_text(a.abs()), "abs");
        one("math:float", format!("floor({})", fsrc(a)), format!("{}", a.floor() as i64), "floor");
        // sign: compared by value (1 vs 1.0 are equal in the language)
        one("math:float", format!("sign({}) == {}", fsrc(a), fsrc(if a > 0.0 { 1.0 } else if a < 0.0 { -1.0 } else { 0.0 })), "true".into(), "sign");
        for b in floats {
            one("math:float", format!("min({}, {})", fsrc(a), fsrc(b)), num_text(a.min(b)), "min");
            one("math:float", format!("max({}, {})", fsrc(a), fsrc(b)), num_text(a.max(b)), "max");
            let (lo, hi) = (b.min(b + 1.0), b.max(b + 1.0));
            one("math:float", format!("clamp({}, {}, {})", fsrc(a), fsrc(lo), fsrc(hi)), num_text(a.max(lo).min(hi)), "clamp");
        }
    }
    // Maybe helpers
    let just = "(Maybe.Just 5)";
    let none = "none_int()";
    for (m, is_just) in [(just, true), (none, false)] {
        one("maybe", format!("maybe.isJust({})", m), format!("{}", is_just), "isJust");
        one("maybe", format!("maybe.isNone({})", m), format!("{}", !is_just), "isNone");
        one("maybe", format!("maybe.orDefault({}, 7)", m), if is_just { "5".into() } else { "7".into() }, "orDefault");
        one("maybe", format!("maybe.map({}, pu x -> x + 1 end)", m), if is_just { "Just 6".into() } else { "None nil".into() }, "map");
        one("maybe", format!("maybe.map({}, pu x -> x + 1 end) == Maybe.None", m), format!("{}", !is_just), "map==None");
        one("maybe", format!("maybe.andThen({}, just_double)", m), if is_just { "Just 10".into() } else { "None nil".into() }, "andThen");
        one("maybe", format!("{} == Maybe.None", m), format!("{}", !is_just), "==None");
        one("maybe", format!("{} == (Maybe.Just 5)", m), format!("{}", is_just), "==Just");
    }
}

fn program(hs: &[&History]) -> String {
    let mut s = String::from("from maybe use Maybe\nnone_int :: fn -> Maybe(int)\n    Maybe.None\nend\njust_double :: pu x: int -> Maybe(int)\n    Maybe.Just (x * 2)\nend\n");
    for (k, h) in hs.iter().enumerate() {
        s.push_str(&format!("h{} :: fn do\n    print(\"#{}\")\n", k, k));
        for l in &h.body {
            s.push_str("    ");
            s.push_str(l);
            s.push('\n');
        }
        s.push_str("end\n");
    }
    // call them in groups (many call statements in one function would exceed Lua's local limit)
    let groups: Vec<Vec<usize>> = (0..hs.len()).collect::<Vec<_>>().chunks(30).map(|c| c.to_vec()).collect();
    for (g, ks) in groups.iter().enumerate() {
        s.push_str(&format!("g{} :: fn do\n", g));
        for k in ks {
            s.push_str(&format!("    h{}()\n", k));
        }
        s.push_str("end\n");
    }
    s.push_str("start :: fn do\n");
    for g in 0..groups.len() {
        s.push_str(&format!("    g{}()\n", g));
    }
    s.push_str("end\n");
    s
}

/// runs a batch; returns per-history observed lines or a batch-level error
fn run_batch(hs: &[&History]) -> Result<Vec<Option<Vec<String>>>, String> {
    let text = program(hs);
    let out = compile(&one_file(&text), MAIN, false);
    let lua = match out {
        Outcome::Ok(b) => b,
        other => return Err(format!("compile: {} {}", other.short(), if let Outcome::Err { errs, .. } = &other { errs.first().map(|e| e.dbg.clone()).unwrap_or_default() } else { String::new() })),
    };
    let r = run_lua(&lua, 200_000_000);
    // split by markers
    let mut per: Vec<Option<Vec<String>>> = vec![None; hs.len()];
    let mut cur: Option<usize> = None;
    for line in &r.out {
        if let Some(k) = line.strip_prefix('#').and_then(|x| x.parse::<usize>().ok()) {
            cur = Some(k);
            per[k] = Some(Vec::new());
        } else if let Some(k) = cur {
            per[k].as_mut().unwrap().push(line.clone());
        }
    }
    if r.end != LuaEnd::Done {
        // the history that was running when the error happened gets the error appended
        if let Some(k) = cur {
            per[k].as_mut().unwrap().push(format!("!!{:?}", r.end));
        } else {
            return Err(format!("lua: {:?}", r.end));
        }
    }
    Ok(per)
}

fn preds_for(h: &History, got: &[String]) -> Vec<String> {
    let mut v = vec![format!("family:{}", h.family.split('<').next().unwrap_or(&h.family))];
    // first differing line
    let idx = h.expected.iter().zip(got.iter()).position(|(a, b)| a != b).unwrap_or(h.expected.len().min(got.len()));
    let body_text = h.body.join("\n");
    if body_text.contains("== Maybe.None") && got.get(idx).map(|s| s == "false").unwrap_or(false) && h.expected.get(idx).map(|s| s == "true").unwrap_or(false) {
        v.push("library-None-compared-with-source-None".into());
    }
    if h.family.starts_with("dict") && !h.family.contains("<str>") && h.ops.contains(&"remove") {
        v.push("dict-remove-with-non-string-key".into());
    }
    v
}

pub fn run(run: &mut Run) {
    let thorough = run.thorough();
    let max_len = if thorough { 4 } else { 3 };
    let mut hs: Vec<History> = Vec::new();
    list_histories(max_len, &mut hs);
    keyed_histories(max_len, &mut hs);
    helper_histories(&mut hs);
    let batch = 60;
    let idx: Vec<usize> = (0..hs.len()).collect();
    let batches: Vec<&[usize]> = idx.chunks(batch).collect();
    let accs = crate::pool::par_items(&batches, 1, |_| Stats::new(), |acc, bi, b| {
        let members: Vec<&History> = b.iter().map(|i| &hs[*i]).collect();
        let mut observed = run_batch(&members);
        if observed.is_err() || observed.as_ref().unwrap().iter().any(|o| o.is_none() || o.as_ref().unwrap().iter().any(|l| l.starts_with("!!"))) {
            // re-run one by one so that one failing history cannot hide the others
            let mut per = Vec::new();
            for m in &members {
                match run_batch(&[*m]) {
                    Ok(mut v) => per.push(v.pop().unwrap()),
                    Err(e) => per.push(Some(vec![format!("!!{}", e)])),
                }
            }
            observed = Ok(per);
        }
        let observed = observed.unwrap();
        for (m, got) in members.iter().zip(observed.iter()) {
            acc.evaluations += 1;
            acc.states += 1 + m.ops.len() as u64;
            acc.transitions += m.ops.len() as u64;
            acc.traces_validated += 1;
            acc.nontrivial(fnv(format!("{}|{}", m.family, m.body.join("\n")).as_bytes()));
            let got = got.clone().unwrap_or_else(|| vec!["!!no output".into()]);
            if got == m.expected {
                acc.outcome("matches-model");
                continue;
            }
            let sig = if got.iter().any(|l| l.starts_with("!!compile")) {
                "history-rejected-by-compiler"
            } else if got.iter().any(|l| l.starts_with("!!")) {
                "runtime-error"
            } else {
                "differs-from-model"
            };
            acc.outcome(sig);
            let text = program(&[*m]);
            let mut files = serde_json::Map::new();
            files.insert(MAIN.to_string(), json!(text));
            acc.fail(Failure {
                sig: sig.into(),
                preds: preds_for(m, &got),
                detail: format!("{} ops {:?}\n{}\nmodel:    {:?}\nobserved: {:?}", m.family, m.ops, m.body.join("\n"), m.expected, got),
                case: json!({"engine": "c18", "files": files, "expected": m.expected}),
                size: m.body.len() * 100 + m.body.join("").len(),
            });
        }
        if bi % 37 == 0 {
            acc.sample(json!({"family": members[0].family, "history": members[0].body, "model": members[0].expected}));
        }
    });
    run.stats = Stats::merge_all(accs);
    run.rule = "every history of up to n operations (each with every argument of its small domain) on lists, dicts and sets with int, str, tuple and numeric-looking str (\"1\", \"01\", \"1.0\") elements/keys, including higher-order list functions re-entered from their own callbacks (filter inside map / filter, fold inside fold, map inside map), starting from the empty and from a two-element container, each step printing its result and the final container printed (lists) or probed for every key (dicts, sets); the math helpers on {-2..2} and {-1.5, 0.0, 2.5}; the Maybe helpers on Just/None; every Maybe produced by the library also compared with == against the source literal; distinct by history text; every history is non-trivial".into();
    run.bounds = json!({"max_history_len": max_len, "histories": hs.len(), "batch": batch});
    run.assumptions = vec![
        "models: Vec / BTreeMap / Option; numeric helper results are compared by value where the representation (1 vs 1.0) is not fixed by the statement".into(),
        "MiniLua's pairs() iterates the array part in index order (as real Lua does in practice); printing of multi-entry dicts/sets is never compared".into(),
        "list indices are taken from {0, 1, 2, 5, -1}; an index outside the list is a no-op for set and None for get".into(),
    ];
}

pub fn replay(case: &serde_json::Value) -> Option<(String, String)> {
    let text = case["files"][MAIN].as_str()?;
    let expected: Vec<String> = case["expected"].as_array()?.iter().filter_map(|x| x.as_str().map(|s| s.to_string())).collect();
    match compile(&one_file(text), MAIN, false) {
        Outcome::Ok(lua) => {
            let r = run_lua(&lua, 200_000_000);
            let got: Vec<String> = r.out.iter().filter(|l| !l.starts_with('#')).cloned().collect();
            if got == expected && r.end == LuaEnd::Done { None } else { Some(("differs-from-model".into(), format!("model {:?}\nobserved {:?} {:?}", expected, got, r.end))) }
        }
        other => Some(("history-rejected-by-compiler".into(), other.short())),
    }
}
