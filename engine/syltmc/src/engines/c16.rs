//! C16 — determinism: the same sources always give byte-identical Lua or the same error list,
//! across hash seeds (controlled through the getrandom seam, one fresh thread per execution),
//! positions in a history of earlier compilations, processes and environments.

use crate::harness::*;
use crate::report::{Failure, Run, Stats};
use serde_json::json;
use std::process::Command;

fn multi_error_inputs() -> Vec<(String, Files)> {
    let mut v: Vec<(String, Files)> = Vec::new();
    let hdr = "print: fn *X -> void : external\n";
    let start = "start :: fn do\n    print(1)\nend\n";
    let mut one = |id: &str, body: &str| v.push((id.to_string(), one_file(&format!("{}{}{}", hdr, body, start))));
    one("blob-3-unknown-generics", "A :: blob { a: *X, b: *Y, c: *Z }\n");
    one("blob-2-unknown-generics", "A :: blob { a: *X, b: *Y }\n");
    one("blob-5-unknown-generics", "A :: blob { a: *X, b: *Y, c: *Z, d: *W, e: *V }\n");
    one("enum-3-unknown-generics", "A :: enum\n    P *X,\n    Q *Y,\n    R *Z,\nend\n");
    one("enum-4-unknown-generics", "A :: enum\n    P *X,\n    Q *Y,\n    R *Z,\n    S *W,\nend\n");
    one("blob-unknown-types", "A :: blob { a: Nope1, b: Nope2, c: Nope3 }\n");
    one("enum-unknown-types", "A :: enum\n    P Nope1,\n    Q Nope2,\n    R Nope3,\nend\n");
    one("blob-literal-two-missing", "A :: blob { a: int, b: int, c: int }\nq :: A { a: 1 }\n");
    one("blob-literal-three-unknown", "A :: blob { a: int }\nq :: A { a: 1, x: 1, y: 2, z: 3 }\n");
    one("blob-literal-missing-and-unknown", "A :: blob { a: int, b: int }\nq :: A { x: 1, y: 2 }\n");
    one("two-blobs-faulty", "A :: blob { a: *X, b: *Y }\nB :: blob { c: *Z, d: *W }\n");
    one("two-type-errors", "f :: fn do\n    x := 1 + \"a\"\nend\ng :: fn do\n    y := not 1\nend\n");
    one("three-unresolved", "f :: fn do\n    print(nope1)\n    print(nope2)\nend\ng :: fn do\n    print(nope3)\nend\n");
    one("two-syntax-errors", "f :: fn do\n    x := 1 +\n    y := )\nend\n");
    one("duplicates", "d1 :: 1\nd1 :: 2\nd2 :: 1\nd2 :: 2\nd3 :: fn do end\nd3 :: 3\n");
    one("case-missing-and-extra", "E :: enum\n    A,\n    B,\n    C,\nend\nf :: fn do\n    case E.A do\n        A -> do end\n        X -> do end\n        Y -> do end\n    end\nend\n");
    one("cyclic-globals", "a :: b + 1\nb :: c + 1\nc :: a + 1\n");
    one("two-cycles", "a :: b + 1\nb :: a + 1\nc :: d + 1\nd :: c + 1\n");
    one("unused-generic-constraints", "f :: fn a: *A, b: *B -> *C\n    a\nend\n");
    // multi-file: errors in several files
    let mut m = Files::new();
    m.insert(MAIN.to_string(), format!("use a\nuse b\nuse c\n{}bad0 :: nope0\n{}", hdr, start));
    m.insert("/p/a.sy".to_string(), "bad1 :: nope1\n".to_string());
    m.insert("/p/b.sy".to_string(), "bad2 :: 1 +\n".to_string());
    m.insert("/p/c.sy".to_string(), "A :: blob { a: *X, b: *Y }\n".to_string());
    v.push(("errors-in-four-files".to_string(), m));
    let mut m = Files::new();
    m.insert(MAIN.to_string(), format!("use a\nuse b\nuse c\n{}{}", hdr, start));
    m.insert("/p/a.sy".to_string(), "use nofile1\n".to_string());
    m.insert("/p/b.sy".to_string(), "use nofile2\nuse a\n".to_string());
    m.insert("/p/c.sy".to_string(), "use nofile3\nuse b\n".to_string());
    v.push(("missing-imports".to_string(), m));
    let mut m = Files::new();
    m.insert(MAIN.to_string(), format!("from a use (x, y, z)\nfrom b use (x, y)\n{}{}", hdr, start));
    m.insert("/p/a.sy".to_string(), "x :: 1\n".to_string());
    m.insert("/p/b.sy".to_string(), "x :: 2\ny :: 3\n".to_string());
    v.push(("import-collisions".to_string(), m));
    v
}

/// every declaration of a blob / enum with up to three members whose names come from a two-letter alphabet (so
/// repeated names occur) and whose types come from a menu with unknown generics and unknown types; every blob
/// literal with up to three fields over known, unknown and repeated names; unresolved names near several
/// candidates. Each has zero, one or several independent errors.
fn declaration_family(thorough: bool) -> Vec<(String, Files)> {
    let mut v: Vec<(String, Files)> = Vec::new();
    let hdr = "print: fn *X -> void : external\n";
    let start = "start :: fn do\n    print(1)\nend\n";
    let types: &[&str] = &["int", "*X", "*Y", "Nope", "fn *K, *V -> *W", "(*X, Nope)", "str"];
    let max = 3usize;
    for len in 1..=max {
        let per = 2 * types.len();
        for mut k in 0..per.pow(len as u32) {
            let mut fields = Vec::new();
            let mut variants = Vec::new();
            for _ in 0..len {
                let c = k % per;
                k /= per;
                let (n, t) = (c % 2, types[c / 2]);
                fields.push(format!("{}: {}", ["a", "b"][n], t));
                variants.push(format!("    {} {},\n", ["P", "Q"][n], t));
            }
            let id = fields.join(", ");
            // full enumeration at length <= 2; at length 3 the quick tier keeps the shapes with a repeated name
            let repeated = { let names: Vec<&str> = fields.iter().map(|f| &f[..1]).collect(); names.iter().any(|n| names.iter().filter(|m| *m == n).count() > 1) };
            if len == 3 && !thorough && !(repeated && fields.iter().all(|f| !f.contains("fn ") && !f.contains('('))) {
                continue;
            }
            v.push((format!("decl blob {{ {} }}", id), one_file(&format!("{}A :: blob {{ {} }}\n{}", hdr, id, start))));
            v.push((format!("decl blob(*X) {{ {} }} used", id), one_file(&format!("{}A :: blob(*X) {{ {} }}\nq :: A {{ a: 1, b: 2 }}\n{}", hdr, id, start))));
            v.push((format!("decl enum {{ {} }}", id), one_file(&format!("{}A :: enum\n{}end\nq :: A.P 1\n{}", hdr, variants.concat(), start))));
        }
    }
    let names = ["a", "b", "x", "y"];
    for len in 1..=3usize {
        for mut k in 0..names.len().pow(len as u32) {
            let mut fs = Vec::new();
            for i in 0..len {
                fs.push(format!("{}: {}", names[k % names.len()], ["1", "\"s\"", "nope"][i % 3]));
                k /= names.len();
            }
            let lit = fs.join(", ");
            v.push((format!("literal A {{ {} }}", lit), one_file(&format!("{}A :: blob {{ a: int, b: int }}\nq :: A {{ {} }}\n{}", hdr, lit, start))));
        }
    }
    // unresolved names with several equally near candidates (globals, locals, both)
    let cands = ["scale_x", "scale_y", "scale_w", "scal_z"];
    for mask in 0u32..(1 << (2 * cands.len())) {
        // two bits per candidate: 0 absent, 1 global, 2 local, 3 both
        let mut globals = String::new();
        let mut locals = String::new();
        for (i, c) in cands.iter().enumerate() {
            let m = (mask >> (2 * i)) & 3;
            if m & 1 != 0 {
                globals.push_str(&format!("{} :: {}\n", c, i));
            }
            if m & 2 != 0 {
                locals.push_str(&format!("    {} := {}\n", c, i));
            }
        }
        v.push((format!("near-names mask={:08b}", mask), one_file(&format!("{}{}f :: fn do\n{}    print(scale_z)\nend\n{}", hdr, globals, locals, start))));
    }
    // the same with many names in scope: N globals of equal length (all equally near), and N locals
    for n in [8usize, 33, 64, 65, 66, 100, 129, 257] {
        let globals: String = (0..n).map(|i| format!("val_{:03}x :: {}\n", i, i)).collect();
        v.push((format!("near-names among {} globals", n), one_file(&format!("{}{}f :: fn do\n    print(val_zzzx)\nend\n{}", hdr, globals, start))));
        if n <= 129 {
            let locals: String = (0..n).map(|i| format!("    loc_{:03}x := {}\n", i, i)).collect();
            v.push((format!("near-names among {} locals", n), one_file(&format!("{}f :: fn do\n{}    print(loc_zzzx)\nend\n{}", hdr, locals, start))));
            let fields: String = (0..n).map(|i| format!("    fld_{:03}x: int,\n", i)).collect();
            v.push((format!("near-names among {} fields", n), one_file(&format!("{}W :: blob {{\n{}}}\nf :: fn w: W do\n    print(w.fld_zzzx)\nend\n{}", hdr, fields, start))));
        }
    }
    // constraint lists of function types: every assignment of a constraint choice (none, known, unknown, wrong arity, two
    // unknown ones) to three type variables of one signature, with and without a constrained variable the signature
    // never mentions - zero to four independent errors per declaration
    let cons: &[&str] = &["", "Num", "CmpEqu", "Blargh", "Sortable", "Num x", "Zork + Blargh"];
    for k in 0..cons.len().pow(3) {
        let picks = [cons[k % 7], cons[(k / 7) % 7], cons[k / 49]];
        for unused in [false, true] {
            let mut parts: Vec<String> = ["a", "b", "c"].iter().zip(picks.iter()).filter(|(_, c)| !c.is_empty()).map(|(v, c)| format!("{}: {}", v, c)).collect();
            if unused {
                parts.push("d: Quux".into());
            }
            if parts.is_empty() {
                continue;
            }
            let sig = format!("fn<{}> *a, *b, *c -> *a", parts.join(", "));
            v.push((format!("constraints {}", sig), one_file(&format!("{}pick: {} : external
f :: fn do
    print(pick(1, 2, 3))
end
{}", hdr, sig, start))));
        }
    }
    // repeated parameter names, repeated type variables, repeated case arms, repeated imports
    for (id, body) in [
        ("params a, a", "f :: fn a: int, a: str do\n    print(a)\nend\n"),
        ("typevars *T, *T", "A :: blob(*T, *T) { a: *T }\n"),
        ("enum typevars *T, *T", "A :: enum(*T, *T)\n    P *T,\nend\n"),
        ("case arm twice", "E :: enum\n    P int,\n    Q,\nend\nf :: fn do\n    case E.Q do\n        P x -> print(x)\n        P y -> print(y)\n        Q -> print(2)\n    end\nend\n"),
        ("two unknown externals", "g: Nope1 : external\nh: fn *A -> Nope2 : external\n"),
    ] {
        v.push((format!("repeat {}", id), one_file(&format!("{}{}{}", hdr, body, start))));
    }
    v
}

fn valid_inputs() -> Vec<(String, Files)> {
    let mut v = Vec::new();
    let mut p = crate::selftest::sample();
    crate::ast::number_unreachables(&mut p);
    v.push(("sample".to_string(), one_file(&crate::ast::print_program(&p).text)));
    // a declaration-heavy program: many blobs and enums with several fields each
    let mut p = crate::ast::Program { tops: crate::engines::faults::c05_prelude() };
    p.tops.push(crate::ast::start_fn(vec![crate::ast::print_of(crate::ast::int(1))]));
    v.push(("many-declarations".to_string(), one_file(&crate::ast::print_program(&p).text)));
    let mut m = Files::new();
    m.insert(MAIN.to_string(), "use a\nuse b\nfrom c use (h, k)\nprint: fn *X -> void : external\nB :: blob { p: int, q: str, r: (int, int), s: [int] }\nstart :: fn do\n    x :: B { s: [1], r: (1, 2), q: \"q\", p: 1 }\n    print(a.f(x.p) + b.g(2) + h(k))\nend\n".to_string());
    m.insert("/p/a.sy".to_string(), "use b\nf :: fn x: int -> int\n    b.g(x) + 1\nend\n".to_string());
    m.insert("/p/b.sy".to_string(), "use a\ng :: fn x: int -> int\n    x * 2\nend\n".to_string());
    m.insert("/p/c.sy".to_string(), "k :: 5\nh :: fn x: int -> int\n    x - 1\nend\n".to_string());
    v.push(("multi-file".to_string(), m));
    v
}

fn corpus_inputs(limit: usize) -> Vec<std::path::PathBuf> {
    let mut files = Vec::new();
    crate::util::collect_sy(std::path::Path::new("/repo/tests"), &mut files);
    files.retain(|f| !f.components().any(|c| c.as_os_str().to_string_lossy().starts_with('_')));
    files.truncate(limit);
    files
}

fn compile_disk(path: &std::path::Path) -> Outcome {
    let mut args = sylt::Args::default();
    args.args = vec![path.display().to_string()];
    let mut out = Vec::new();
    let res = std::panic::catch_unwind(std::panic::AssertUnwindSafe(|| sylt::compile_with_reader_to_writer(&args, sylt::read_file, &mut out)));
    match res {
        Ok(Ok(())) => Outcome::Ok(out),
        Ok(Err(errs)) => Outcome::Err { errs: errs.iter().map(|e| summarise(e, true)).collect(), bytes_written: out.len() },
        Err(p) => Outcome::Panic { msg: panic_text(&p), bytes_written: out.len() },
    }
}

fn outcome_fingerprint(o: &Outcome) -> String {
    match o {
        Outcome::Ok(b) => format!("Ok:{:016x}:{}", fnv(b), b.len()),
        Outcome::Err { errs, bytes_written } => {
            let mut s = format!("Err[{}] written={}", errs.len(), bytes_written);
            for e in errs {
                s.push_str(&format!("\n  {}|{}|{}:{}-{}:{}|{}|{}", e.kind, e.file, e.line, e.col_start, e.line_end, e.col_end, e.dbg, e.rendered.clone().unwrap_or_default()));
            }
            s
        }
        Outcome::Panic { msg, .. } => format!("Panic:{}", msg),
    }
}

/// number of distinct iteration orders of a 3-entry probe map across the seed set (shows that the
/// seed dimension really varies hash order)
fn probe_orders(seeds: u64) -> usize {
    let mut set = std::collections::BTreeSet::new();
    for s in 0..seeds {
        let order = crate::pool::on_fresh_thread(0xC16_0000 + s, || {
            let mut m = std::collections::HashMap::new();
            m.insert("a".to_string(), 1);
            m.insert("b".to_string(), 2);
            m.insert("c".to_string(), 3);
            m.keys().cloned().collect::<Vec<_>>().join("")
        });
        set.insert(order);
    }
    set.len()
}

pub fn sylt_bin() -> std::path::PathBuf {
    std::path::PathBuf::from(std::env::var("SYLT_BIN").unwrap_or_else(|_| "/verif/target/sylt-bin/debug/sylt".to_string()))
}

pub fn run(run: &mut Run) {
    let thorough = run.thorough();
    let seeds: u64 = if thorough { 64 } else { 16 };
    let mut st = Stats::new();
    let orders = probe_orders(seeds);
    st.count("distinct_probe_map_orders_over_seed_set", orders as u64);
    if orders < 2 {
        eprintln!("MACHINERY: the seed seam does not vary HashMap order (getrandom not interposed?)");
        std::process::exit(2);
    }
    let mut inputs: Vec<(String, Files, bool)> = Vec::new();
    for (id, f) in multi_error_inputs() {
        inputs.push((id, f, false));
    }
    for (id, f) in valid_inputs() {
        inputs.push((id, f, true));
    }
    let n_before_family = inputs.len();
    for (id, f) in declaration_family(thorough) {
        inputs.push((id, f, false));
    }
    st.count("declaration_family_inputs", (inputs.len() - n_before_family) as u64);
    // program families: every third program of the short statement families and recursion templates
    for (k, (fam, p)) in crate::stmtfam::all_programs_len(1).into_iter().enumerate() {
        if k % 3 == 0 {
            inputs.push((format!("family:{}#{}", fam, k), one_file(&crate::ast::print_program(&p).text), true));
        }
    }
    {
        let mut scale = Vec::new();
        crate::stmtfam::scale_programs(false, &mut scale);
        for (k, (fam, p)) in scale.into_iter().enumerate() {
            if k % 3 == 0 {
                inputs.push((format!("family:{}#{}", fam, k), one_file(&crate::ast::print_program(&p).text), true));
            }
        }
    }
    // two independent planted faults in two functions of one file
    let snips: Vec<&crate::engines::faults::Snip> = crate::engines::faults::C03_SNIPS.iter().filter(|s| matches!(s.kind, crate::engines::faults::Kind::S)).collect();
    for (a, sa) in snips.iter().enumerate() {
        for (b, sb) in snips.iter().enumerate() {
            if a < b && (a + b) % 5 == 0 {
                let text = format!(
                    "print: fn *X -> void : external\nm := 0\nP :: blob {{ x: int }}\nE :: enum\n    A int,\n    B,\nend\nfa :: fn do\n    {}\nend\nfb :: fn do\n    {}\nend\nstart :: fn do\n    print(1)\nend\n",
                    sa.fault.replace('\n', "\n    "),
                    sb.fault.replace('\n', "\n    ")
                );
                inputs.push((format!("two-faults:{}+{}", sa.id, sb.id), one_file(&text), false));
            }
        }
    }
    let filler = one_file("print: fn *X -> void : external\nQ :: blob { a: int, b: int, c: int }\nstart :: fn do\n    print(Q { a: 1, b: 2, c: 3 }.a)\nend\n");
    let bad_filler = one_file("// a longer file\n// with other text on the lines\nprint: fn *X -> void : external\nwrong_a :: 1 + \"a\"\nwrong_b :: nope\nstart :: fn do\n    print(1 +\nend\n");
    let mut bad_filler2 = Files::new();
    bad_filler2.insert(MAIN.to_string(), "use other\nprint: fn *X -> void : external\nq :: not 1\nstart :: fn do\n    print(other.x + \"s\")\nend\n".to_string());
    bad_filler2.insert("/p/other.sy".to_string(), "x :: 1\ny :: x + \"t\"\nz :: missing\n".to_string());
    // in-memory inputs: seeds x history positions
    let accs = crate::pool::par_items(&inputs, 1, |_| Stats::new(), |acc, _, (id, files, _valid)| {
        let mut prints: Vec<(String, String)> = Vec::new();
        for s in 0..seeds {
            for k in [0usize, 1, 7] {
                if k > 0 && s >= 4 {
                    continue;
                }
                let o = crate::pool::on_fresh_thread(0xC16_0000 + s, || {
                    for _ in 0..k {
                        let _ = compile(&filler, MAIN, true);
                    }
                    compile_with(files, MAIN, &CompileOpts { no_std: true, require: None, render: true })
                });
                acc.evaluations += 1;
                prints.push((format!("seed={} after={}compiles", s, k), outcome_fingerprint(&o)));
            }
            if s < 2 {
                // after failing compilations of other sources whose errors were rendered (state kept by the
                // diagnostics machinery would show up in the rendered text)
                let o = crate::pool::on_fresh_thread(0xC16_0000 + s, || {
                    let _ = compile_with(&bad_filler, MAIN, &CompileOpts { no_std: true, require: None, render: true });
                    let _ = compile_with(&bad_filler2, MAIN, &CompileOpts { no_std: true, require: None, render: true });
                    compile_with(files, MAIN, &CompileOpts { no_std: true, require: None, render: true })
                });
                acc.evaluations += 1;
                prints.push((format!("seed={} after two failing compilations with rendered errors", s), outcome_fingerprint(&o)));
            }
        }
        acc.nontrivial(fnv(id.as_bytes()));
        let first = prints[0].1.clone();
        let differing: Vec<&(String, String)> = prints.iter().filter(|p| p.1 != first).collect();
        acc.outcome(if differing.is_empty() { "identical-across-executions" } else { "DIFFERS" });
        if acc.samples.len() < 3 {
            acc.sample(json!({"input": id, "executions": prints.len(), "result": first.chars().take(200).collect::<String>()}));
        }
        if let Some(d) = differing.first() {
            let mut fm = serde_json::Map::new();
            for (k, v) in files {
                fm.insert(k.clone(), json!(v));
            }
            let distinct: std::collections::BTreeSet<&String> = prints.iter().map(|p| &p.1).collect();
            acc.fail(Failure {
                sig: "result-depends-on-execution".into(),
                preds: vec![format!("input:{}", id)],
                detail: format!("input {}: {} distinct results over {} executions\n--- {}\n{}\n--- {}\n{}", id, distinct.len(), prints.len(), prints[0].0, first, d.0, d.1),
                case: json!({"engine": "c16", "files": fm, "seeds": seeds}),
                size: files.values().map(|v| v.len()).sum(),
            });
        }
    });
    st.merge(Stats::merge_all(accs));

    // the repository's own programs, from disk, with std: seeds only
    let corpus = corpus_inputs(if thorough { 400 } else { 120 });
    let cseeds = if thorough { 8 } else { 3 };
    let accs = crate::pool::par_items(&corpus, 1, |_| Stats::new(), |acc, _, path| {
        let mut prints = Vec::new();
        for s in 0..cseeds {
            let o = crate::pool::on_fresh_thread(0xC16_1000 + s, || compile_disk(path));
            acc.evaluations += 1;
            prints.push(outcome_fingerprint(&o));
        }
        acc.nontrivial(fnv(path.display().to_string().as_bytes()));
        let same = prints.iter().all(|p| *p == prints[0]);
        acc.outcome(if same { "identical-across-executions" } else { "DIFFERS" });
        if !same {
            let other = prints.iter().find(|p| **p != prints[0]).unwrap();
            acc.fail(Failure {
                sig: "result-depends-on-execution".into(),
                preds: vec![format!("input:{}", path.display())],
                detail: format!("{}: results differ between seeds\n--- A\n{}\n--- B\n{}", path.display(), prints[0], other),
                case: json!({"engine": "c16-disk", "path": path.display().to_string(), "seeds": cseeds}),
                size: 1000,
            });
        }
    });
    st.merge(Stats::merge_all(accs));

    // rendered reports with the sources on disk: alone vs after other failing compilations in the same thread (the
    // rendered text quotes source lines, so state kept between compilations would show up here)
    {
        let hroot = crate::report::verif_root().join("scratch").join(format!("c16-hist-{}", std::process::id()));
        let _ = std::fs::remove_dir_all(&hroot);
        let write_tree = |name: &str, files: &Files| -> std::path::PathBuf {
            let root = hroot.join(name);
            for (p, text) in files {
                let dest = root.join(p.trim_start_matches('/'));
                std::fs::create_dir_all(dest.parent().unwrap()).unwrap();
                std::fs::write(&dest, text).unwrap();
            }
            root.join("p/main.sy")
        };
        let bad1 = write_tree("bad1", &bad_filler);
        let bad2 = write_tree("bad2", &bad_filler2);
        let rejected: Vec<(usize, &(String, Files, bool))> = inputs.iter().enumerate().filter(|(k, (id, _, valid))| !*valid && (k % 16 == 0 || !id.starts_with("decl ") && !id.starts_with("literal ") && !id.starts_with("near-names"))).collect();
        let accs = crate::pool::par_items(&rejected, 1, |_| Stats::new(), |acc, _, (idx, (id, files, _))| {
            let main = write_tree(&format!("i{}", idx), files);
            let alone = crate::pool::on_fresh_thread(0xC16_2000, || compile_disk(&main));
            let after = crate::pool::on_fresh_thread(0xC16_2000, || {
                let _ = compile_disk(&bad1);
                let _ = compile_disk(&bad2);
                compile_disk(&main)
            });
            let twice = crate::pool::on_fresh_thread(0xC16_2000, || {
                let _ = compile_disk(&main);
                compile_disk(&main)
            });
            acc.evaluations += 3;
            let fa = outcome_fingerprint(&alone);
            for (what, o) in [("after two failing compilations of other projects", &after), ("compiled a second time", &twice)] {
                let fo = outcome_fingerprint(o);
                if fo == fa {
                    acc.outcome("rendered-report:identical");
                } else {
                    acc.outcome("rendered-report:DIFFERS");
                    let mut fm = serde_json::Map::new();
                    for (k, v) in files.iter() {
                        fm.insert(k.clone(), json!(v));
                    }
                    acc.fail(Failure {
                        sig: "result-depends-on-execution".into(),
                        preds: vec![format!("input:{}", id), "rendered-report-on-disk".into()],
                        detail: format!("input {} (sources on disk): the rendered error report {} differs from the report of a first compilation\n--- alone\n{}\n--- {}\n{}", id, what, fa, what, fo),
                        case: json!({"engine": "c16", "files": fm, "seeds": 4}),
                        size: 300,
                    });
                }
            }
        });
        st.merge(Stats::merge_all(accs));
        let _ = std::fs::remove_dir_all(&hroot);
    }
    // cross-process: the built binary, real random seeds, different environments
    let bin = sylt_bin();
    if !bin.exists() {
        eprintln!("MACHINERY: {} not built", bin.display());
        std::process::exit(2);
    }
    let scratch = crate::report::verif_root().join("scratch").join(format!("c16-{}", std::process::id()));
    let _ = std::fs::remove_dir_all(&scratch);
    let reps = if thorough { 6 } else { 3 };
    let indexed: Vec<(usize, &(String, Files, bool))> = inputs.iter().enumerate().collect();
    let accs = crate::pool::par_items(&indexed, 1, |_| Stats::new(), |acc, _, (idx, (id, files, _valid))| {
        // materialise under a root that keeps the /p/ layout
        let root = scratch.join(format!("i{}", idx));
        for (p, text) in files {
            let dest = root.join(p.trim_start_matches('/'));
            std::fs::create_dir_all(dest.parent().unwrap()).unwrap();
            std::fs::write(&dest, text).unwrap();
        }
        let main = root.join("p/main.sy");
        let mut outs: Vec<(String, String)> = Vec::new();
        for r in 0..reps {
            for (envname, no_color, cwd) in [("plain", false, root.clone()), ("no_color+other-cwd", true, scratch.clone())] {
                let mut c = Command::new(&bin);
                c.arg("--no-std").arg("-o").arg("-").arg(&main).current_dir(&cwd).env("HOME", &cwd);
                if no_color {
                    c.env("NO_COLOR", "1");
                } else {
                    c.env_remove("NO_COLOR");
                }
                c.env("CLICOLOR_FORCE", "0");
                let o = c.output().expect("run sylt");
                acc.evaluations += 1;
                // colour escape codes are presentation, not content: strip them before comparing
                let text = strip_ansi(&String::from_utf8_lossy(&o.stdout));
                outs.push((format!("run{} {}", r, envname), format!("exit={:?}\n{}", o.status.code(), text)));
            }
        }
        let _ = std::fs::remove_dir_all(&root);
        let same = outs.iter().all(|o| o.1 == outs[0].1);
        acc.outcome(if same { "process:identical" } else { "process:DIFFERS" });
        if !same {
            let other = outs.iter().find(|o| o.1 != outs[0].1).unwrap();
            let mut fm = serde_json::Map::new();
            for (k, v) in files {
                fm.insert(k.clone(), json!(v));
            }
            acc.fail(Failure {
                sig: "process-result-differs".into(),
                preds: vec![format!("input:{}", id)],
                detail: format!("input {}: the sylt binary printed different results\n--- {}\n{}\n--- {}\n{}", id, outs[0].0, outs[0].1, other.0, other.1),
                case: json!({"engine": "c16", "files": fm, "seeds": 16}),
                size: 500,
            });
        }
    });
    st.merge(Stats::merge_all(accs));
    let _ = std::fs::remove_dir_all(&scratch);
    st.states = st.evaluations;
    run.stats = st;
    run.exhaustive = false;
    run.rule = "inputs: programs with several independent errors in one blob/enum/file/project, valid single- and multi-file programs, the repository's test programs; executions per input: every seed of the seed set (fresh thread each) x history positions {first, after 1, after 7 compiles, after two failing compilations of other sources with rendered errors}, plus, with the sources on disk, the rendered report alone vs after two failing compilations of other projects vs compiled twice; plus repeated runs of the built binary under two environments; non-trivial = every input (each is executed at least 16 times); distinct by input".into();
    run.bounds = json!({"seeds": seeds, "history_positions": [0, 1, 7], "process_repetitions": reps, "corpus_programs": corpus.len(), "corpus_seeds": cseeds});
    run.assumptions = vec![
        "the seed dimension is bounded, controlled repetition through the getrandom seam (2^128 keys exist); exhaustive only over the listed inputs".into(),
        "ANSI colour codes are stripped before process outputs are compared".into(),
    ];
}

fn strip_ansi(s: &str) -> String {
    let mut out = String::new();
    let mut it = s.chars().peekable();
    while let Some(c) = it.next() {
        if c == '\u{1b}' {
            if it.peek() == Some(&'[') {
                it.next();
                while let Some(d) = it.next() {
                    if d.is_ascii_alphabetic() {
                        break;
                    }
                }
            }
        } else {
            out.push(c);
        }
    }
    out
}

pub fn replay(case: &serde_json::Value) -> Option<(String, String)> {
    let seeds = case["seeds"].as_u64().unwrap_or(16);
    if case["engine"] == "c16-disk" {
        let path = std::path::PathBuf::from(case["path"].as_str()?);
        let mut prints = Vec::new();
        for s in 0..seeds {
            prints.push(outcome_fingerprint(&crate::pool::on_fresh_thread(0xC16_1000 + s, || compile_disk(&path))));
        }
        let other = prints.iter().find(|p| **p != prints[0])?;
        return Some(("result-depends-on-execution".into(), format!("--- A\n{}\n--- B\n{}", prints[0], other)));
    }
    let mut files = Files::new();
    for (k, v) in case["files"].as_object()? {
        files.insert(k.clone(), v.as_str()?.to_string());
    }
    let mut prints = Vec::new();
    for s in 0..seeds {
        let o = crate::pool::on_fresh_thread(0xC16_0000 + s, || compile_with(&files, MAIN, &CompileOpts { no_std: true, require: None, render: true }));
        prints.push(outcome_fingerprint(&o));
    }
    let other = prints.iter().find(|p| **p != prints[0])?;
    Some(("result-depends-on-execution".into(), format!("--- A\n{}\n--- B\n{}", prints[0], other)))
}
