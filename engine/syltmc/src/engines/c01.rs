//! C01 — compiled Lua behaves as the source denotes: every program of the families is
//! compiled by the real compiler, the emitted chunk is run under MiniLua and its trace is
//! compared with the RefSylt trace of the same AST.

use crate::ast::*;
use crate::families::*;
use crate::harness::*;
use crate::luarun::*;
use crate::refsylt::{self, End};
use crate::report::{Failure, Run, Stats};
use serde_json::json;
use std::sync::atomic::AtomicBool;
use std::sync::Arc;

pub const REF_BUDGET: u64 = 40_000;
pub const LUA_BUDGET: u64 = 4_000_000;

pub enum Verdict {
    Ok { nontrivial: bool },
    Skip(&'static str),
    /// `alternatives`: further acceptable (output, end) pairs (one per evaluation order of the assignment forms)
    Fail { sig: String, detail: String, preds: Vec<String>, expected_out: Vec<String>, expected_end: String, alternatives: Vec<(Vec<String>, String)> },
}

pub struct Checked {
    pub verdict: Verdict,
    pub text: String,
    pub lua: Option<Vec<u8>>,
}

fn expected_end(r: &End, lines: &[usize]) -> Option<LuaEnd> {
    Some(match r {
        End::Done => LuaEnd::Done,
        End::AssertFailed => LuaEnd::AssertFailed,
        End::Unreachable(id) => LuaEnd::Unreachable(*lines.get(*id as usize)?),
        _ => return None,
    })
}

/// structural predicates of a failing case, used by known-finding matchers
pub fn structural_preds(p: &Program, lua: Option<&[u8]>) -> Vec<String> {
    let mut v = Vec::new();
    if let Some(lua) = lua {
        if let Ok(chunk) = loads(lua) {
            let globals: Vec<String> = chunk.free_names_assigned().into_iter().filter(|n| n.len() > 1 && n.starts_with('V') && n[1..].bytes().all(|b| b.is_ascii_digit())).collect();
            let externals = p.tops.iter().filter(|t| matches!(t, Top::External { .. })).count();
            if globals.len() > externals {
                v.push("lua-assigns-undeclared-V-temporaries".to_string());
            }
        }
    }
    let feats = features(p);
    for f in feats {
        v.push(f);
    }
    v
}

fn has_field_read(e: &Expr) -> bool {
    match e {
        Expr::Field(..) => true,
        Expr::Bin(_, a, b) => has_field_read(a) || has_field_read(b),
        Expr::Un(_, a) | Expr::Paren(a) | Expr::Index(a, _) => has_field_read(a),
        Expr::Call(_, args, _) => args.iter().any(has_field_read),
        Expr::Tuple(xs) | Expr::List(xs) => xs.iter().any(has_field_read),
        _ => false,
    }
}

fn has_call(e: &Expr) -> bool {
    match e {
        Expr::Call(..) => true,
        Expr::Bin(_, a, b) => has_call(a) || has_call(b),
        Expr::Un(_, a) | Expr::Paren(a) | Expr::Index(a, _) | Expr::Field(a, _) => has_call(a),
        Expr::Tuple(xs) | Expr::List(xs) => xs.iter().any(has_call),
        Expr::If(..) | Expr::Case(..) => true,
        _ => false,
    }
}

fn features(p: &Program) -> Vec<String> {
    let mut f = std::collections::BTreeSet::new();
    fn ex(e: &Expr, f: &mut std::collections::BTreeSet<String>, value_pos: bool) {
        match e {
            Expr::If(bs, el) => {
                if value_pos {
                    f.insert("if-expression-used-as-value".into());
                }
                for (c, b) in bs {
                    ex(c, f, true);
                    bl(b, f);
                }
                if let Some(b) = el {
                    bl(b, f);
                }
            }
            Expr::Case(s, arms, el) => {
                if value_pos {
                    f.insert("case-expression-used-as-value".into());
                }
                if arms.iter().any(|a| a.bind.is_some()) {
                    f.insert("case-binding".into());
                }
                ex(s, f, true);
                for a in arms {
                    bl(&a.body, f);
                }
                if let Some(b) = el {
                    bl(b, f);
                }
            }
            Expr::Bin(op, a, b) => {
                if matches!(op, BinOp::And | BinOp::Or) {
                    f.insert("short-circuit".into());
                }
                if has_field_read(a) && has_call(b) {
                    f.insert("field-read-left-of-a-call-in-one-binary-expression".into());
                }
                ex(a, f, true);
                ex(b, f, true);
            }
            Expr::Un(_, a) | Expr::Paren(a) => ex(a, f, true),
            Expr::Index(a, _) => {
                f.insert("tuple-index".into());
                ex(a, f, true)
            }
            Expr::Field(a, _) => {
                f.insert("field-access".into());
                ex(a, f, true)
            }
            Expr::Call(c, args, _) => {
                ex(c, f, true);
                for a in args {
                    ex(a, f, true);
                }
            }
            Expr::Tuple(xs) | Expr::List(xs) => xs.iter().for_each(|x| ex(x, f, true)),
            Expr::Blob(_, fs) => fs.iter().for_each(|(_, x)| ex(x, f, true)),
            Expr::Variant(_, _, Some(x)) => ex(x, f, true),
            Expr::Fn(l) => {
                f.insert("function-literal".into());
                bl(&l.body, f)
            }
            _ => {}
        }
    }
    fn bl(b: &[Stmt], f: &mut std::collections::BTreeSet<String>) {
        for (i, s) in b.iter().enumerate() {
            let last = i + 1 == b.len();
            match s {
                Stmt::Def { value, .. } => ex(value, f, true),
                Stmt::Assign { target, op, value } => {
                    if op.is_some() {
                        f.insert("compound-assignment".into());
                    }
                    if !matches!(target, Expr::Var(_)) {
                        f.insert("field-assignment".into());
                    }
                    ex(target, f, true);
                    ex(value, f, true);
                }
                Stmt::Expr(e) => ex(e, f, last),
                Stmt::Loop(c, b) => {
                    f.insert("loop".into());
                    if let Some(c) = c {
                        ex(c, f, true);
                    }
                    bl(b, f);
                }
                Stmt::Ret(Some(e)) => ex(e, f, true),
                Stmt::Block(b) => bl(b, f),
                _ => {}
            }
        }
    }
    for t in &p.tops {
        if let Top::Def { value, .. } = t {
            ex(value, &mut f, true);
        }
    }
    f.into_iter().collect()
}

/// the full C01 pipeline on one program
pub fn check_semantics(p: &mut Program) -> Checked {
    number_unreachables(p);
    let printed = print_program(p);
    let text = printed.text.clone();
    let (rt, ambiguous) = refsylt::reference(p, REF_BUDGET);
    // the language does not fix whether an assignment reads its target before or after its right-hand side: when
    // that matters, the emitted code has to behave like one choice of order per assignment form
    let candidates: Vec<refsylt::Trace> = if ambiguous { refsylt::reference_all_orders(p, REF_BUDGET) } else { vec![rt.clone()] };
    for rt in &candidates {
        if rt.unstable_text {
            return Checked { verdict: Verdict::Skip("prints-text-not-fixed-by-the-language"), text, lua: None };
        }
        match &rt.end {
            End::Budget => return Checked { verdict: Verdict::Skip("reference-budget"), text, lua: None },
            End::TagError(_) | End::ScopeError(_) => return Checked { verdict: Verdict::Skip("reference-says-ill-typed"), text, lua: None },
            End::Unsupported(_) | End::FlowEscape => return Checked { verdict: Verdict::Skip("reference-unsupported"), text, lua: None },
            _ => {}
        }
    }
    let out = compile_src(&text);
    let lua = match out {
        Outcome::Ok(b) => b,
        Outcome::Err { .. } => return Checked { verdict: Verdict::Skip("rejected-by-compiler"), text, lua: None },
        Outcome::Panic { .. } => return Checked { verdict: Verdict::Skip("compiler-panic"), text, lua: None },
    };
    let lr = run_lua(&lua, LUA_BUDGET);
    if matches!(lr.end, LuaEnd::Budget | LuaEnd::StackOverflow) {
        return Checked { verdict: Verdict::Skip("lua-budget"), text, lua: Some(lua) };
    }
    let lines_of = |rt: &refsylt::Trace| -> Vec<String> { rt.out.iter().flat_map(|x| x.split('\n').map(|l| l.to_string()).collect::<Vec<_>>()).collect() };
    for rt in &candidates {
        let want_end = expected_end(&rt.end, &printed.unreachable_lines);
        // a printed value may contain line breaks: compare line by line
        if lr.out == lines_of(rt) && Some(&lr.end) == want_end.as_ref() {
            let nontrivial = !rt.out.is_empty() || rt.end != End::Done;
            return Checked { verdict: Verdict::Ok { nontrivial }, text, lua: Some(lua) };
        }
    }
    let want_end = expected_end(&rt.end, &printed.unreachable_lines);
    let ref_lines = lines_of(&rt);
    let same_out = lr.out == ref_lines;
    if ambiguous {
        let detail = format!(
            "program:\n{}\nthe order in which an assignment reads its target and evaluates its right-hand side matters here; no choice of order per assignment form gives what the emitted Lua does\nreference traces ({}):\n{}\nlua:       out={:?} end={:?}",
            text,
            candidates.len(),
            candidates.iter().map(|t| format!("  out={:?} end={:?}", t.out, t.end)).collect::<Vec<_>>().join("\n"),
            lr.out,
            lr.end
        );
        let preds = structural_preds(p, Some(&lua));
        return Checked { verdict: Verdict::Fail { sig: "matches-no-evaluation-order-of-assignments".into(), detail, preds, expected_out: ref_lines.clone(), expected_end: format!("{:?}", want_end), alternatives: candidates.iter().map(|t| (lines_of(t), format!("{:?}", expected_end(&t.end, &printed.unreachable_lines)))).collect() }, text, lua: Some(lua) };
    }
    let sig = match &lr.end {
        LuaEnd::LoadError(m) => format!("load-error: {}", m.split(':').last().unwrap_or("").trim().chars().take(60).collect::<String>()),
        LuaEnd::RuntimeError(m) => {
            let core = m.splitn(3, ':').last().unwrap_or(m).trim();
            // drop variable names so that the signature classifies the error kind
            let core = core.split(" (").next().unwrap_or(core);
            format!("lua-runtime-error: {}", core.chars().take(80).collect::<String>())
        }
        LuaEnd::Crash(m) => format!("lua-crash: {}", m.chars().take(60).collect::<String>()),
        _ if !same_out => "trace-mismatch".to_string(),
        _ => "outcome-mismatch".to_string(),
    };
    let detail = format!(
        "program:\n{}\nreference: out={:?} end={:?}\nlua:       out={:?} end={:?}",
        text, rt.out, rt.end, lr.out, lr.end
    );
    let preds = structural_preds(p, Some(&lua));
    Checked { verdict: Verdict::Fail { sig, detail, preds, expected_out: ref_lines.clone(), expected_end: format!("{:?}", want_end), alternatives: Vec::new() }, text, lua: Some(lua) }
}

pub fn record(acc: &mut Stats, engine: &str, family: &str, p: &mut Program, sample: bool) {
    let c = check_semantics(p);
    acc.evaluations += 1;
    acc.programs += 1;
    acc.states += 1;
    acc.transitions += 1;
    match c.verdict {
        Verdict::Ok { nontrivial } => {
            acc.traces_validated += 1;
            if nontrivial {
                acc.nontrivial(fnv(c.text.as_bytes()));
            }
            acc.outcome("traces-equal");
            if sample {
                acc.sample(json!({"family": family, "program": c.text}));
            }
        }
        Verdict::Skip(why) => {
            acc.count(&format!("skipped:{}", why), 1);
            if why == "rejected-by-compiler" || why == "reference-says-ill-typed" {
                acc.count(&format!("skipped:{}@{}", why, family), 1);
                if acc.samples.len() < 2 {
                    acc.sample(json!({"family": family, "skipped": why, "program": c.text}));
                }
            }
        }
        Verdict::Fail { sig, detail, preds, expected_out, expected_end, alternatives } => {
            acc.traces_validated += 1;
            acc.outcome(&sig);
            let mut files = serde_json::Map::new();
            files.insert(MAIN.to_string(), json!(c.text));
            acc.fail(Failure { sig, preds, detail, case: json!({"engine": engine, "family": family, "files": files, "expected_out": expected_out, "expected_end": expected_end, "alternatives": alternatives.iter().map(|(o, e)| json!({"out": o, "end": e})).collect::<Vec<_>>()}), size: c.text.len() });
        }
    }
}

/// (type, size) slices of the expression space with their sizes
pub fn expr_space(max_size: usize) -> Vec<(T, usize, Arc<Vec<Expr>>)> {
    let mut g = Gen::new();
    let mut v = Vec::new();
    for size in 0..=max_size {
        for t in TYPES {
            let xs = g.exact(t, size);
            if !xs.is_empty() {
                v.push((t, size, xs));
            }
        }
    }
    v
}

/// every program obtained from `p` by giving one parameter / local / case binding the name of another declaration, such
/// that the scope model binds every use to the declaration it denoted before (distinct by text)
pub fn shadow_variants(p: &Program) -> Vec<Program> {
    use crate::scope::{rename, resolve, Kind};
    let base = resolve(p);
    let mut seen = std::collections::BTreeSet::new();
    let mut out = Vec::new();
    for (i, (iname, ikind)) in base.binders.iter().enumerate() {
        if !matches!(ikind, Kind::Param | Kind::Local | Kind::CaseBinding) {
            continue;
        }
        for (j, (jname, jkind)) in base.binders.iter().enumerate() {
            if i == j || jname == iname || *jkind == Kind::SelfVar || jname == "start" {
                continue;
            }
            let mut names: Vec<Option<String>> = vec![None; base.binders.len()];
            names[i] = Some(jname.clone());
            let q = rename(p, &base, &names);
            let r = resolve(&q);
            if r.uses != base.uses || r.duplicate_globals || r.duplicate_params {
                continue;
            }
            if seen.insert(print_program(&q).text) {
                out.push(q);
            }
        }
    }
    out
}

/// Enumerates every program of the expression and statement families and hands it to `handler`.
pub fn for_each_program(thorough: bool, family_filter: &(dyn Fn(&str) -> bool + Sync), handler: &(dyn Fn(&mut Stats, &str, &mut Program, bool) + Sync)) -> (Stats, serde_json::Value) {
    // expression space: all contexts up to size A, print-only context up to size B
    let (all_ctx_size, print_size) = if thorough { (2, 3) } else { (1, 2) };
    let space = expr_space(print_size);
    let mut items: Vec<(usize, usize, u64)> = Vec::new(); // (slice, ctx, count)
    for (si, (_, size, xs)) in space.iter().enumerate() {
        for c in 0..N_CONTEXTS {
            if (c == 0 || *size <= all_ctx_size) && family_filter(&format!("expr@{}", context_name(c))) {
                items.push((si, c, xs.len() as u64));
            }
        }
    }
    let mut offsets = Vec::new();
    let mut total = 0u64;
    for it in &items {
        offsets.push(total);
        total += it.2;
    }
    let stop = AtomicBool::new(false);
    let accs = crate::pool::par_range(total, 256, |_| Stats::new(), |acc, i| {
        let k = match offsets.binary_search(&i) {
            Ok(k) => k,
            Err(k) => k - 1,
        };
        let (si, c, _) = items[k];
        let (t, size, xs) = &space[si];
        let e = xs[(i - offsets[k]) as usize].clone();
        if let Some(mut p) = place(c, *t, e) {
            let fam = format!("expr:{:?}:size{}@{}", t, size, context_name(c));
            handler(acc, &fam, &mut p, i % 20011 == 0);
            acc.count(&format!("context:{}", context_name(c)), 1);
        }
    }, &stop);
    let mut st = Stats::merge_all(accs);
    // statement-level families
    let progs: Vec<(String, Program)> = crate::stmtfam::all_programs(thorough).into_iter().filter(|(f, _)| family_filter(f)).collect();
    let accs = crate::pool::par_items(&progs, 64, |_| Stats::new(), |acc, i, (fam, p)| {
        let mut p = p.clone();
        handler(acc, fam, &mut p, i % 5003 == 0);
        acc.count(&format!("family:{}", fam.split(':').next().unwrap_or(fam)), 1);
    });
    st.merge(Stats::merge_all(accs));
    // shadowing variants of the statement-level programs: one parameter, local or case binding takes the name of another
    // declaration of the program, kept wherever the scope model (scope.rs) says that every use still denotes the same
    // declaration - so the program means what it meant, and a declaration that stays visible past its block, a branch
    // binding that survives the branch, or a temporary named after the wrong declaration shows as a different trace
    if family_filter("shadowed") {
        // both tiers take the programs of the quick sequence length as bases (about 13 variants per base)
        let short: Vec<(String, Program)>;
        let bases: &Vec<(String, Program)> = if thorough {
            short = crate::stmtfam::all_programs(false).into_iter().filter(|(f, _)| family_filter(f)).collect();
            &short
        } else {
            &progs
        };
        let accs = crate::pool::par_items(bases, 16, |_| Stats::new(), |acc, i, (fam, p)| {
            let head = fam.split(':').next().unwrap_or(fam);
            // the loop / list / blob bases have few binders and long-running variants: thorough tier only
            if !thorough && !["enums", "closures", "value-blocks", "recursion", "globals", "late-globals"].contains(&head) {
                return;
            }
            for (k, mut q) in shadow_variants(p).into_iter().enumerate() {
                handler(acc, &format!("shadowed:{}", head), &mut q, (i + k) % 7001 == 0);
                acc.count("family:shadowed", 1);
            }
        });
        st.merge(Stats::merge_all(accs));
    }
    for (t, size, xs) in &space {
        st.count(&format!("expressions:{:?}:size{}", t, size), xs.len() as u64);
    }
    let bounds = json!({"expression_size_all_contexts": all_ctx_size, "expression_size_print_context": print_size, "contexts": (0..N_CONTEXTS).map(context_name).collect::<Vec<_>>(), "reference_budget": REF_BUDGET, "lua_budget": LUA_BUDGET,
        "statement_family_sequence_length": if thorough {4} else {3}});
    (st, bounds)
}

pub const FAMILY_RULE: &str = "expression families: every well-typed expression with exactly n operator nodes (type-directed generation over ints, floats, bools, strings, tuples, blobs, enum values, lists; operators, calls with side effects, field/index access, if- and case-expressions) placed in every one of 24 statement contexts; statement families: every sequence of actions over themed menus (loops with break/continue/ret, closures, blobs with self, enums, globals) and the recursion templates (a value held across the recursive call at every expression position, depth 1-3); a three-file project whose modules have a `start` and a `g` of their own, under every order of the statements of each file; non-trivial = the reference trace prints something or ends abnormally; distinct by program text";

pub fn run(run: &mut Run) {
    let (mut st, bounds) = for_each_program(run.thorough(), &|_| true, &|acc, fam, p, sample| record(acc, "c01", fam, p, sample));
    // programs of several files: the entry point is main's `start`, modules have globals and a `start` of their own
    // (the three-file family of C11, every order of every file's statements, expected trace known by construction)
    crate::engines::c11::entry_family(&mut st);
    run.stats = st;
    run.rule = FAMILY_RULE.into();
    run.bounds = bounds;
    run.assumptions = vec![
        "MiniLua stands in for lua5.3 (validated by its conformance corpus and by the repository's program tests)".into(),
        "RefSylt decisions of DESIGN.md §3.3; where it matters whether an assignment reads its target before or after evaluating its right-hand side, the emitted code must agree with one choice of order per assignment form (compound assignment to a variable; plain / compound assignment to a field of a value; plain / compound assignment through a longer chain): 32 reference traces".into(),
        "programs the compiler rejects, and programs whose reference trace prints NaN / multi-field blobs / functions, are skipped and counted".into(),
    ];
}

pub fn replay(case: &serde_json::Value) -> Option<(String, String)> {
    // the failing program text is recompiled and re-run; its trace is compared with the reference
    // trace recorded when the case was found (the AST itself is not serialised)
    let text = case["files"][MAIN].as_str()?;
    let want_out: Vec<String> = case["expected_out"].as_array()?.iter().filter_map(|x| x.as_str().map(|s| s.to_string())).collect();
    let want_end = case["expected_end"].as_str().unwrap_or("");
    match compile_src(text) {
        Outcome::Ok(lua) => {
            let r = run_lua(&lua, LUA_BUDGET);
            let got_end = format!("{:?}", Some(&r.end));
            let alt_ok = case["alternatives"].as_array().map(|a| a.iter().any(|x| x["end"].as_str() == Some(got_end.as_str()) && x["out"].as_array().map(|o| o.iter().filter_map(|l| l.as_str().map(|s| s.to_string())).collect::<Vec<_>>() == r.out).unwrap_or(false))).unwrap_or(false);
            if alt_ok {
                None
            } else if r.out != want_out || got_end != want_end {
                Some(("trace-mismatch".into(), format!("reference: out={:?} end={}\nlua:       out={:?} end={}", want_out, want_end, r.out, got_end)))
            } else {
                None
            }
        }
        other => Some(("does-not-compile".into(), other.short())),
    }
}
