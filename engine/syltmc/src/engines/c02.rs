//! C02 — type soundness: single perturbations of well-typed programs (a sub-expression replaced
//! by a literal of another type or by another name, call arguments swapped, a statement dropped,
//! an annotation changed, a `ret` of a literal of any type inserted into any block). Every perturbed program the checker accepts is run under the strict
//! reference interpreter and under MiniLua: a tag / scope error is a violation.

use crate::ast::*;
use crate::harness::*;
use crate::luarun::*;
use crate::refsylt::{self, End};
use crate::report::{Failure, Run, Stats};
use serde_json::json;
use std::sync::Arc;

/// visits every expression node in a fixed order; the callback may replace the node and stop
fn visit_exprs(p: &mut Program, f: &mut dyn FnMut(&mut Expr) -> bool) {
    fn ex(e: &mut Expr, f: &mut dyn FnMut(&mut Expr) -> bool) -> bool {
        if f(e) {
            return true;
        }
        match e {
            Expr::Bin(_, a, b) => ex(a, f) || ex(b, f),
            Expr::Un(_, a) | Expr::Paren(a) | Expr::Index(a, _) | Expr::Field(a, _) => ex(a, f),
            Expr::Call(c, args, _) => {
                if ex(c, f) {
                    return true;
                }
                for a in args.iter_mut() {
                    if ex(a, f) {
                        return true;
                    }
                }
                false
            }
            Expr::Tuple(xs) | Expr::List(xs) => xs.iter_mut().any(|x| ex(x, f)),
            Expr::Blob(_, fs) => fs.iter_mut().any(|(_, x)| ex(x, f)),
            Expr::Variant(_, _, Some(x)) => ex(x, f),
            Expr::If(bs, el) => {
                for (c, b) in bs.iter_mut() {
                    if ex(c, f) || bl(b, f) {
                        return true;
                    }
                }
                el.as_mut().map(|b| bl(b, f)).unwrap_or(false)
            }
            Expr::Case(sc, arms, el) => {
                if ex(sc, f) {
                    return true;
                }
                for a in arms.iter_mut() {
                    if bl(&mut a.body, f) {
                        return true;
                    }
                }
                el.as_mut().map(|b| bl(b, f)).unwrap_or(false)
            }
            Expr::Fn(l) => bl(&mut Arc::make_mut(l).body, f),
            _ => false,
        }
    }
    fn bl(b: &mut Vec<Stmt>, f: &mut dyn FnMut(&mut Expr) -> bool) -> bool {
        for s in b.iter_mut() {
            let stop = match s {
                Stmt::Def { value, .. } => ex(value, f),
                Stmt::Assign { target, value, .. } => ex(target, f) || ex(value, f),
                Stmt::Expr(e) | Stmt::Ret(Some(e)) => ex(e, f),
                Stmt::Loop(c, b) => c.as_mut().map(|c| ex(c, f)).unwrap_or(false) || bl(b, f),
                Stmt::Block(b) => bl(b, f),
                _ => false,
            };
            if stop {
                return true;
            }
        }
        false
    }
    for t in p.tops.iter_mut() {
        if let Top::Def { value, .. } = t {
            if ex(value, f) {
                return;
            }
        }
    }
}

/// visits every statement list; callback gets the block and may edit it; returns true to stop
pub fn visit_blocks(p: &mut Program, f: &mut dyn FnMut(&mut Vec<Stmt>) -> bool) {
    fn ex(e: &mut Expr, f: &mut dyn FnMut(&mut Vec<Stmt>) -> bool) -> bool {
        match e {
            Expr::Bin(_, a, b) => ex(a, f) || ex(b, f),
            Expr::Un(_, a) | Expr::Paren(a) | Expr::Index(a, _) | Expr::Field(a, _) => ex(a, f),
            Expr::Call(c, args, _) => ex(c, f) || args.iter_mut().any(|a| ex(a, f)),
            Expr::Tuple(xs) | Expr::List(xs) => xs.iter_mut().any(|x| ex(x, f)),
            Expr::Blob(_, fs) => fs.iter_mut().any(|(_, x)| ex(x, f)),
            Expr::Variant(_, _, Some(x)) => ex(x, f),
            Expr::If(bs, el) => {
                for (c, b) in bs.iter_mut() {
                    if ex(c, f) || bl(b, f) {
                        return true;
                    }
                }
                el.as_mut().map(|b| bl(b, f)).unwrap_or(false)
            }
            Expr::Case(sc, arms, el) => ex(sc, f) || arms.iter_mut().any(|a| bl(&mut a.body, f)) || el.as_mut().map(|b| bl(b, f)).unwrap_or(false),
            Expr::Fn(l) => bl(&mut Arc::make_mut(l).body, f),
            _ => false,
        }
    }
    fn bl(b: &mut Vec<Stmt>, f: &mut dyn FnMut(&mut Vec<Stmt>) -> bool) -> bool {
        if f(b) {
            return true;
        }
        for s in b.iter_mut() {
            let stop = match s {
                Stmt::Def { value, .. } => ex(value, f),
                Stmt::Assign { value, .. } => ex(value, f),
                Stmt::Expr(e) | Stmt::Ret(Some(e)) => ex(e, f),
                Stmt::Loop(_, b) | Stmt::Block(b) => bl(b, f),
                _ => false,
            };
            if stop {
                return true;
            }
        }
        false
    }
    for t in p.tops.iter_mut() {
        if let Top::Def { value, .. } = t {
            if ex(value, f) {
                return;
            }
        }
    }
}

fn literals() -> Vec<(&'static str, Expr)> {
    vec![
        ("int", int(7)),
        ("float", Expr::Float(7.5)),
        ("str", s("s")),
        ("bool", Expr::Bool(true)),
        ("tuple", Expr::Tuple(vec![int(7), int(8)])),
        ("list", Expr::List(vec![int(7)])),
        ("nil", Expr::Nil),
        ("lambda", lambda(vec![], RetAnn::Ty(Ty::Int), vec![Stmt::Expr(int(7))])),
    ]
}

fn names_of(p: &Program) -> Vec<String> {
    let mut v = Vec::new();
    let mut q = p.clone();
    visit_exprs(&mut q, &mut |e| {
        if let Expr::Var(n) = e {
            if !v.contains(n) && n != "print" && n != "self" {
                v.push(n.clone());
            }
        }
        false
    });
    v
}

#[derive(Clone, Debug)]
enum Pert {
    ReplaceWithLiteral(usize, usize),
    ReplaceWithName(usize, usize),
    SwapArgs(usize),
    DropStmt(usize),
    DropTrailingOfBlock(usize),
    ChangeAnnotation(usize, usize),
    WidenTupleOrList(usize),
    /// `ret <literal>` inserted at the start (b even) or before the last statement (b odd) of block a
    InsertRet(usize, usize),
}

fn pert_json(p: &Pert) -> serde_json::Value {
    match p {
        Pert::ReplaceWithLiteral(a, b) => json!({"kind": "ReplaceWithLiteral", "a": a, "b": b}),
        Pert::ReplaceWithName(a, b) => json!({"kind": "ReplaceWithName", "a": a, "b": b}),
        Pert::SwapArgs(a) => json!({"kind": "SwapArgs", "a": a}),
        Pert::DropStmt(a) => json!({"kind": "DropStmt", "a": a}),
        Pert::DropTrailingOfBlock(a) => json!({"kind": "DropTrailingOfBlock", "a": a}),
        Pert::ChangeAnnotation(a, b) => json!({"kind": "ChangeAnnotation", "a": a, "b": b}),
        Pert::WidenTupleOrList(a) => json!({"kind": "WidenTupleOrList", "a": a}),
        Pert::InsertRet(a, b) => json!({"kind": "InsertRet", "a": a, "b": b}),
    }
}

fn pert_from_json(v: &serde_json::Value) -> Option<Pert> {
    let a = v["a"].as_u64()? as usize;
    let b = v["b"].as_u64().unwrap_or(0) as usize;
    Some(match v["kind"].as_str()? {
        "ReplaceWithLiteral" => Pert::ReplaceWithLiteral(a, b),
        "ReplaceWithName" => Pert::ReplaceWithName(a, b),
        "SwapArgs" => Pert::SwapArgs(a),
        "DropStmt" => Pert::DropStmt(a),
        "DropTrailingOfBlock" => Pert::DropTrailingOfBlock(a),
        "ChangeAnnotation" => Pert::ChangeAnnotation(a, b),
        "WidenTupleOrList" => Pert::WidenTupleOrList(a),
        "InsertRet" => Pert::InsertRet(a, b),
        _ => return None,
    })
}

fn count_nodes(p: &Program) -> usize {
    let mut n = 0;
    visit_exprs(&mut p.clone(), &mut |_| {
        n += 1;
        false
    });
    n
}

fn count_stmts(p: &Program) -> (usize, usize) {
    let mut stmts = 0;
    let mut blocks = 0;
    visit_blocks(&mut p.clone(), &mut |b| {
        stmts += b.len();
        blocks += 1;
        false
    });
    (stmts, blocks)
}

fn annotation_slots(p: &mut Program, f: &mut dyn FnMut(&mut Option<Ty>)) {
    fn bl(b: &mut Vec<Stmt>, f: &mut dyn FnMut(&mut Option<Ty>)) {
        for s in b.iter_mut() {
            match s {
                Stmt::Def { ty, value, .. } => {
                    f(ty);
                    ex(value, f);
                }
                Stmt::Expr(e) | Stmt::Ret(Some(e)) => ex(e, f),
                Stmt::Assign { value, .. } => ex(value, f),
                Stmt::Loop(_, b) | Stmt::Block(b) => bl(b, f),
                _ => {}
            }
        }
    }
    fn ex(e: &mut Expr, f: &mut dyn FnMut(&mut Option<Ty>)) {
        match e {
            Expr::Fn(l) => {
                let l = Arc::make_mut(l);
                for (_, t) in l.params.iter_mut() {
                    f(t);
                }
                let mut r = match &l.ret {
                    RetAnn::Ty(t) => Some(t.clone()),
                    _ => None,
                };
                let had = r.is_some();
                f(&mut r);
                if had {
                    if let Some(t) = r {
                        l.ret = RetAnn::Ty(t);
                    }
                }
                bl(&mut l.body, f);
            }
            Expr::If(bs, el) => {
                for (_, b) in bs.iter_mut() {
                    bl(b, f);
                }
                if let Some(b) = el {
                    bl(b, f);
                }
            }
            Expr::Case(_, arms, el) => {
                for a in arms.iter_mut() {
                    bl(&mut a.body, f);
                }
                if let Some(b) = el {
                    bl(b, f);
                }
            }
            Expr::Blob(_, fs) => fs.iter_mut().for_each(|(_, x)| ex(x, f)),
            Expr::Call(c, args, _) => {
                ex(c, f);
                args.iter_mut().for_each(|a| ex(a, f));
            }
            _ => {}
        }
    }
    for t in p.tops.iter_mut() {
        if let Top::Def { ty, value, .. } = t {
            f(ty);
            ex(value, f);
        }
    }
}

const ANN_TYPES: [Ty; 4] = [Ty::Int, Ty::Str, Ty::Bool, Ty::Float];

fn apply(p: &Program, pert: &Pert, names: &[String]) -> Option<Program> {
    let mut q = p.clone();
    let mut changed = false;
    match pert {
        Pert::ReplaceWithLiteral(k, li) => {
            let lit = literals()[*li].1.clone();
            let mut i = 0;
            visit_exprs(&mut q, &mut |e| {
                if i == *k {
                    if *e != lit {
                        *e = lit.clone();
                        changed = true;
                    }
                    return true;
                }
                i += 1;
                false
            });
        }
        Pert::ReplaceWithName(k, ni) => {
            let name = names.get(*ni)?.clone();
            let mut i = 0;
            visit_exprs(&mut q, &mut |e| {
                if i == *k {
                    if *e != Expr::Var(name.clone()) {
                        *e = Expr::Var(name.clone());
                        changed = true;
                    }
                    return true;
                }
                i += 1;
                false
            });
        }
        Pert::SwapArgs(k) => {
            let mut i = 0;
            visit_exprs(&mut q, &mut |e| {
                if let Expr::Call(_, args, _) = e {
                    if args.len() >= 2 {
                        if i == *k {
                            args.swap(0, 1);
                            changed = true;
                            return true;
                        }
                        i += 1;
                    }
                }
                false
            });
        }
        Pert::DropStmt(k) => {
            let mut i = 0;
            visit_blocks(&mut q, &mut |b| {
                if *k < i + b.len() {
                    b.remove(*k - i);
                    changed = true;
                    return true;
                }
                i += b.len();
                false
            });
        }
        Pert::DropTrailingOfBlock(k) => {
            let mut i = 0;
            visit_blocks(&mut q, &mut |b| {
                if i == *k {
                    if matches!(b.last(), Some(Stmt::Expr(_))) {
                        b.pop();
                        changed = true;
                    }
                    return true;
                }
                i += 1;
                false
            });
        }
        Pert::ChangeAnnotation(k, ti) => {
            let mut i = 0;
            annotation_slots(&mut q, &mut |slot| {
                if slot.is_some() {
                    if i == *k && slot.as_ref() != Some(&ANN_TYPES[*ti]) {
                        *slot = Some(ANN_TYPES[*ti].clone());
                        changed = true;
                    }
                    i += 1;
                }
            });
        }
        Pert::InsertRet(k, li) => {
            let lit = literals()[*li / 2].1.clone();
            let mut i = 0;
            visit_blocks(&mut q, &mut |b| {
                if i == *k {
                    let pos = if *li % 2 == 0 { 0 } else { b.len().saturating_sub(1) };
                    b.insert(pos, Stmt::Ret(Some(lit.clone())));
                    changed = true;
                    return true;
                }
                i += 1;
                false
            });
        }
        Pert::WidenTupleOrList(k) => {
            let mut i = 0;
            visit_exprs(&mut q, &mut |e| {
                match e {
                    Expr::Tuple(xs) | Expr::List(xs) => {
                        if i == *k {
                            xs.push(s("w"));
                            changed = true;
                            return true;
                        }
                        i += 1;
                    }
                    _ => {}
                }
                false
            });
        }
    }
    if changed { Some(q) } else { None }
}

/// no external declarations: `print` becomes an ordinary generic Sylt function that ignores its argument
fn without_externals(p: &Program) -> Program {
    let mut tops = Vec::new();
    for t in &p.tops {
        match t {
            Top::External { name, .. } if name == "print" => tops.push(top_fn("print", vec![("zz", None)], RetAnn::Void, vec![])),
            Top::External { .. } => {}
            other => tops.push(other.clone()),
        }
    }
    Program { tops }
}

fn bases(thorough: bool) -> Vec<(String, Program)> {
    let mut v = Vec::new();
    for (fam, p) in crate::stmtfam::all_programs_len(if thorough { 2 } else { 1 }) {
        // quick: the late-globals family with the user function first and the global a constant or a function
        if !thorough && fam.starts_with("late-globals:") && !(fam.ends_with(":o0") && (fam.contains(":g0:") || fam.contains(":g2:"))) {
            continue;
        }
        v.push((fam, without_externals(&p)));
    }
    {
        // counts, magnitudes and lengths beyond the other families
        let mut scale = Vec::new();
        crate::stmtfam::scale_programs(thorough, &mut scale);
        for (fam, p) in scale {
            // quick: the programs up to 65 items (the thresholds 8/9 .. 64/65); thorough: all of them
            if !thorough && crate::stmtfam::scale_n(&fam) > 65 && !fam.contains("magnitude") {
                continue;
            }
            v.push((fam, without_externals(&p)));
        }
    }
    let space = crate::engines::c01::expr_space(1);
    for (t, size, xs) in &space {
        for (i, e) in xs.iter().enumerate() {
            if i % (if thorough { 2 } else { 7 }) != 0 {
                continue;
            }
            for c in [1usize, 4, 12, 14, 15, 17, 23] {
                if let Some(p) = crate::families::place(c, *t, e.clone()) {
                    v.push((format!("expr:{:?}:size{}@{}", t, size, crate::families::context_name(c)), without_externals(&p)));
                }
            }
        }
    }
    // hand-written almost-well-typed seeds (generic higher-order functions, values of branches)
    for (name, src_tops) in seeds() {
        v.push((name.to_string(), Program { tops: src_tops }));
    }
    v
}

fn seeds() -> Vec<(&'static str, Vec<Top>)> {
    let keep = || top_fn("print", vec![("zz", None)], RetAnn::Void, vec![]);
    let mut v = Vec::new();
    // a function parameter used at its declared type
    v.push((
        "seed:higher-order",
        vec![
            keep(),
            top_fn("inc", vec![("q", Some(Ty::Int))], RetAnn::Ty(Ty::Int), vec![Stmt::Expr(bin(BinOp::Add, var("q"), int(1)))]),
            top_fn("twice", vec![("f", Some(Ty::Fn(vec![Ty::Int], Box::new(Ty::Int)))), ("x", Some(Ty::Int))], RetAnn::Ty(Ty::Int), vec![Stmt::Expr(callv("f", vec![callv("f", vec![var("x")])]))]),
            start_fn(vec![print_of(bin(BinOp::Add, callv("twice", vec![var("inc"), int(1)]), int(1)))]),
        ],
    ));
    // a generic function parameter applied at two types (the shape of F-02b)
    v.push((
        "seed:generic-function-parameter",
        vec![
            keep(),
            top_fn("inc", vec![("q", Some(Ty::Int))], RetAnn::Ty(Ty::Int), vec![Stmt::Expr(bin(BinOp::Add, var("q"), int(1)))]),
            top_fn(
                "both",
                vec![("f", Some(Ty::Fn(vec![Ty::Generic("T".into())], Box::new(Ty::Generic("T".into())))))],
                RetAnn::Void,
                vec![print_of(callv("f", vec![int(1)])), print_of(callv("f", vec![int(2)]))],
            ),
            start_fn(vec![Stmt::Expr(callv("both", vec![var("inc")]))]),
        ],
    ));
    // operators on composite values: the checker types them, the runtime must implement them for every component type
    v.push((
        "seed:composite-arithmetic",
        vec![
            keep(),
            start_fn(vec![
                def("ts", bin(BinOp::Add, Expr::Tuple(vec![s("ab"), int(1)]), Expr::Tuple(vec![s("cd"), int(2)]))),
                print_of(var("ts")),
                op_assign("ts", BinOp::Add, Expr::Tuple(vec![s("!"), int(3)])),
                def("tf", bin(BinOp::Mul, Expr::Tuple(vec![Expr::Float(1.5), int(2)]), Expr::Tuple(vec![Expr::Float(2.0), int(3)]))),
                def("tn", un(UnOp::Neg, Expr::Tuple(vec![int(1), Expr::Float(2.0)]))),
                def("td", bin(BinOp::Div, Expr::Tuple(vec![Expr::Float(1.0), Expr::Float(4.0)]), Expr::Float(2.0))),
                def("nested", bin(BinOp::Add, Expr::Tuple(vec![Expr::Tuple(vec![int(1), s("a")]), int(1)]), Expr::Tuple(vec![Expr::Tuple(vec![int(2), s("b")]), int(2)]))),
                print_of(bin(BinOp::Eq, Expr::Tuple(vec![int(1), s("a")]), Expr::Tuple(vec![int(1), s("a")]))),
                print_of(bin(BinOp::Lt, Expr::Tuple(vec![int(1), s("a")]), Expr::Tuple(vec![int(1), s("b")]))),
                print_of(bin(BinOp::Add, s("x"), s("y"))),
                print_of(Expr::Tuple(vec![var("tf"), var("tn"), var("td"), var("nested")])),
            ]),
        ],
    ));
    // untyped helpers that build composites from their parameters before operating on them
    v.push((
        "seed:untyped-composite-helpers",
        vec![
            keep(),
            top_fn("addt", vec![("a", None), ("b", None), ("c", None), ("d", None)], RetAnn::Implied, vec![Stmt::Expr(bin(BinOp::Add, Expr::Tuple(vec![var("a"), var("b")]), Expr::Tuple(vec![var("c"), var("d")])))]),
            top_fn("lesst", vec![("a", None), ("b", None), ("c", None), ("d", None)], RetAnn::Implied, vec![Stmt::Expr(bin(BinOp::Lt, Expr::Tuple(vec![var("a"), var("b")]), Expr::Tuple(vec![var("c"), var("d")])))]),
            top_fn("eql", vec![("a", None), ("b", None)], RetAnn::Implied, vec![Stmt::Expr(bin(BinOp::Eq, Expr::List(vec![var("a")]), Expr::List(vec![var("b")])))]),
            top_fn("negt", vec![("a", None), ("b", None)], RetAnn::Implied, vec![Stmt::Expr(un(UnOp::Neg, Expr::Tuple(vec![var("a"), var("b")])))]),
            start_fn(vec![
                print_of(callv("addt", vec![int(1), int(2), int(3), int(4)])),
                print_of(callv("addt", vec![s("a"), int(2), s("b"), int(4)])),
                print_of(callv("lesst", vec![int(1), int(2), int(1), int(4)])),
                print_of(callv("eql", vec![int(1), int(1)])),
                print_of(callv("negt", vec![int(1), Expr::Float(2.5)])),
            ]),
        ],
    ));
    // a local defined from a call that takes a function literal and the outer variable of the same name
    v.push((
        "seed:definition-from-call-with-lambda-shadowing",
        vec![
            keep(),
            top_fn("twice", vec![("f", Some(Ty::Fn(vec![Ty::Int], Box::new(Ty::Int)))), ("x", Some(Ty::Int))], RetAnn::Ty(Ty::Int), vec![Stmt::Expr(callv("f", vec![callv("f", vec![var("x")])]))]),
            start_fn(vec![
                def("y", int(5)),
                Stmt::Block(vec![
                    def("y", callv("twice", vec![lambda(vec![("a", Some(Ty::Int))], RetAnn::Ty(Ty::Int), vec![Stmt::Expr(bin(BinOp::Add, var("a"), int(1)))]), var("y")])),
                    print_of(var("y")),
                    def("z", call(Expr::Paren(Box::new(lambda(vec![("a", Some(Ty::Int))], RetAnn::Ty(Ty::Int), vec![Stmt::Expr(bin(BinOp::Add, var("a"), var("y")))]))), vec![var("y")])),
                    print_of(var("z")),
                ]),
                print_of(var("y")),
            ]),
        ],
    ));
    // several early returns in expression position inside one tuple / list / blob literal
    {
        let early = |n: i64, v: i64, alt: i64| if_e(bin(BinOp::Gt, var("q"), int(n)), vec![Stmt::Ret(Some(int(v)))], Some(vec![Stmt::Expr(int(alt))]));
        v.push((
            "seed:returns-inside-literals",
            vec![
                keep(),
                Top::Blob { name: "P".into(), fields: vec![("x".into(), Ty::Int), ("y".into(), Ty::Int)] },
                top_fn("ft", vec![("q", Some(Ty::Int))], RetAnn::Ty(Ty::Int), vec![def("t", Expr::Tuple(vec![early(5, 100, 1), early(3, 200, 2), early(1, 300, 3)])), Stmt::Expr(bin(BinOp::Add, Expr::Index(Box::new(var("t")), 0), Expr::Index(Box::new(var("t")), 2)))]),
                top_fn("fl", vec![("q", Some(Ty::Int))], RetAnn::Ty(Ty::Int), vec![def("t", Expr::List(vec![early(5, 100, 1), early(3, 200, 2)])), print_of(var("t")), Stmt::Expr(int(7))]),
                top_fn("fb", vec![("q", Some(Ty::Int))], RetAnn::Ty(Ty::Int), vec![def("t", Expr::Blob("P".into(), vec![("x".into(), early(5, 100, 1)), ("y".into(), early(3, 200, 2))])), Stmt::Expr(bin(BinOp::Add, field(var("t"), "x"), field(var("t"), "y")))]),
                start_fn(vec![
                    print_of(bin(BinOp::Add, callv("ft", vec![int(0)]), int(1))),
                    print_of(bin(BinOp::Add, callv("ft", vec![int(4)]), int(1))),
                    print_of(bin(BinOp::Add, callv("ft", vec![int(9)]), int(1))),
                    print_of(bin(BinOp::Add, callv("fl", vec![int(4)]), int(1))),
                    print_of(bin(BinOp::Add, callv("fb", vec![int(9)]), int(1))),
                    print_of(bin(BinOp::Add, callv("fb", vec![int(0)]), int(1))),
                ]),
            ],
        ));
    }
    // value of an if/case used afterwards
    v.push((
        "seed:branch-values",
        vec![
            keep(),
            Top::Enum { name: "E".into(), variants: vec![("A".into(), Some(Ty::Int)), ("B".into(), None)] },
            start_fn(vec![
                def("c", Expr::Bool(false)),
                def("x", if_e(var("c"), vec![Stmt::Expr(int(1))], Some(vec![def("u", int(5)), Stmt::Expr(bin(BinOp::Add, var("u"), int(1)))]))),
                print_of(bin(BinOp::Add, var("x"), int(1))),
                def("y", Expr::Case(Box::new(Expr::Variant("E".into(), "B".into(), None)), vec![CaseArm { variant: "A".into(), bind: Some("q".into()), body: vec![Stmt::Expr(var("q"))] }], Some(vec![def("w", int(2)), Stmt::Expr(bin(BinOp::Mul, var("w"), int(2)))]))),
                print_of(bin(BinOp::Mul, var("y"), int(3))),
            ]),
        ],
    ));
    // mutable variable assigned inside a closure
    v.push((
        "seed:closure-assigns",
        vec![
            keep(),
            start_fn(vec![
                def("n", int(0)),
                cdef("setn", lambda(vec![("q", None)], RetAnn::Void, vec![assign("n", var("q"))])),
                Stmt::Expr(callv("setn", vec![int(5)])),
                print_of(bin(BinOp::Add, var("n"), int(1))),
            ]),
        ],
    ));
    v
}

enum Judged {
    Rejected,
    Sound,
    Skipped(&'static str),
    Unsound(String, String),
}

fn judge(p: &mut Program) -> (Judged, String) {
    number_unreachables(p);
    let text = print_program(p).text;
    let out = compile_src(&text);
    let lua = match out {
        Outcome::Ok(b) => b,
        Outcome::Err { .. } => return (Judged::Rejected, text),
        Outcome::Panic { .. } => return (Judged::Skipped("compiler-panic"), text),
    };
    let (rt, _) = refsylt::reference(p, 60_000);
    match &rt.end {
        End::TagError(m) => return (Judged::Unsound("accepted-but-tag-error".into(), format!("strict reference run: {}\nprogram:\n{}", m, text)), text),
        End::ScopeError(m) => return (Judged::Unsound("accepted-but-scope-error".into(), format!("strict reference run: {}\nprogram:\n{}", m, text)), text),
        End::Unsupported(_) | End::FlowEscape => return (Judged::Skipped("reference-unsupported"), text),
        End::Budget => return (Judged::Skipped("reference-budget"), text),
        _ => {}
    }
    let lr = run_lua(&lua, 3_000_000);
    match lr.end {
        LuaEnd::RuntimeError(m) => (Judged::Unsound("accepted-but-lua-runtime-error".into(), format!("{}\nprogram:\n{}", m, text)), text),
        LuaEnd::LoadError(_) => (Judged::Skipped("does-not-load(C06)"), text),
        _ => (Judged::Sound, text),
    }
}

fn classify_preds(text: &str, sig: &str, detail: &str) -> Vec<String> {
    let _ = sig;
    let mut v = Vec::new();
    if detail.contains("that has none") || detail.contains("no-value") {
        v.push("value-of-a-block-or-function-that-yields-none-is-used".to_string());
    }
    if text.contains("fn *") {
        v.push("generic-function-typed-parameter".to_string());
    }
    v
}

pub fn run(run: &mut Run) {
    let thorough = run.thorough();
    let bs = bases(thorough);
    let accs = crate::pool::par_items(&bs, 2, |_| Stats::new(), |acc, bi, (fam, base)| {
        // the base itself must be accepted and sound (control)
        let mut b0 = base.clone();
        match judge(&mut b0).0 {
            Judged::Sound => {}
            Judged::Rejected => {
                acc.count("base-rejected", 1);
                if acc.samples.len() < 2 {
                    acc.sample(json!({"base_rejected": print_program(base).text, "family": fam}));
                }
                return;
            }
            Judged::Skipped(w) => {
                acc.count(&format!("base-skipped:{}", w), 1);
                return;
            }
            Judged::Unsound(sig, detail) => {
                acc.outcome(&sig);
                let mut files = serde_json::Map::new();
                files.insert(MAIN.to_string(), json!(print_program(base).text));
                acc.fail(Failure { sig: sig.clone(), preds: classify_preds(&print_program(base).text, &sig, &detail), detail, case: json!({"engine": "c02", "files": files}), size: 1 });
                return;
            }
        }
        acc.states += 1;
        let names = names_of(base);
        let nn = count_nodes(base);
        let (ns, nb) = count_stmts(base);
        let mut perts = Vec::new();
        // the large programs of the scale family: the first and last few nodes, every (nn / 8)-th in between, and
        // the first and last two names - an ill-typed item far down a long program is what they are there for
        let sparse = fam.starts_with("scale:") && nn > 120;
        let keep_node = |k: usize| !sparse || k < 6 || k + 8 >= nn || k % (nn / 8).max(1) == 0;
        let keep_name = |ni: usize| !sparse || ni < 2 || ni + 2 >= names.len();
        let keep_stmt = |k: usize| !sparse || k < 4 || k + 4 >= ns || k % (ns / 8).max(1) == 0;
        for k in (0..nn).filter(|k| keep_node(*k)) {
            for li in 0..literals().len() {
                perts.push(Pert::ReplaceWithLiteral(k, li));
            }
            for ni in (0..names.len()).filter(|ni| keep_name(*ni)) {
                perts.push(Pert::ReplaceWithName(k, ni));
            }
        }
        for k in (0..nn).filter(|k| keep_node(*k)) {
            perts.push(Pert::SwapArgs(k));
            perts.push(Pert::WidenTupleOrList(k));
        }
        for k in (0..ns).filter(|k| keep_stmt(*k)) {
            perts.push(Pert::DropStmt(k));
        }
        for k in 0..nb {
            perts.push(Pert::DropTrailingOfBlock(k));
            for li in 0..2 * literals().len() {
                // quick: int / float / str / bool
                if thorough || li < 8 {
                    perts.push(Pert::InsertRet(k, li));
                }
            }
        }
        for k in 0..12 {
            for ti in 0..ANN_TYPES.len() {
                perts.push(Pert::ChangeAnnotation(k, ti));
            }
        }
        for pert in perts {
            let mut q = match apply(base, &pert, &names) {
                Some(q) => q,
                None => continue,
            };
            acc.evaluations += 1;
            acc.transitions += 1;
            let (j, text) = judge(&mut q);
            match j {
                Judged::Rejected => acc.outcome("perturbed:rejected"),
                Judged::Sound => {
                    acc.outcome("perturbed:accepted-and-sound");
                    acc.nontrivial(fnv(text.as_bytes()));
                    acc.traces_validated += 1;
                }
                Judged::Skipped(w) => acc.count(&format!("perturbed-skipped:{}", w), 1),
                Judged::Unsound(sig, detail) => {
                    acc.outcome(&sig);
                    acc.nontrivial(fnv(text.as_bytes()));
                    let mut files = serde_json::Map::new();
                    files.insert(MAIN.to_string(), json!(text));
                    let kind = format!("{:?}", pert);
                    let kind = kind.split('(').next().unwrap_or("").to_string();
                    let mut preds = classify_preds(&text, &sig, &detail);
                    preds.push(format!("perturbation:{}", kind));
                    acc.fail(Failure { sig: sig.clone(), preds, detail: format!("family {} perturbation {:?}\n{}", fam, pert, detail), case: json!({"engine": "c02", "files": files, "base_index": bi, "thorough": thorough, "perturbation": pert_json(&pert)}), size: text.len() });
                }
            }
        }
        if bi % 211 == 0 {
            acc.sample(json!({"family": fam, "base": print_program(base).text}));
        }
    });
    run.stats = Stats::merge_all(accs);
    run.rule = "bases: the statement families (short sequences), the recursion templates, expressions of size <= 1 in seven contexts and four hand-written higher-order / branch-value seeds, all without `external` (print is an ordinary generic function); for every base every single perturbation: each expression node replaced by a literal of each of 8 kinds and by each other name of the program, the first two arguments of each call swapped, a string appended to each tuple/list literal, each statement dropped, the trailing expression of each block dropped, each annotation changed to each of 4 types; non-trivial = the perturbed program is accepted (and therefore executed under both interpreters); distinct by text".into();
    run.bounds = json!({"bases": bs.len()});
    run.assumptions = vec![
        "strict RefSylt raises on every operation applied to a value of the wrong tag, on a read of an unbound / uninitialised name and on a use of the value of a block that has none".into(),
        "Lua errors of the assertion / !!CRASH!! / budget classes are the failures Sylt defines; any other Lua run-time error in an accepted program is a violation".into(),
    ];
}

pub fn replay(case: &serde_json::Value) -> Option<(String, String)> {
    // regenerate the base by index, re-apply the recorded perturbation and judge it again (the strict
    // reference run needs the AST; a tag error does not always surface in Lua, which coerces)
    if let (Some(bi), Some(pert)) = (case["base_index"].as_u64(), pert_from_json(&case["perturbation"])) {
        let bs = bases(case["thorough"].as_bool().unwrap_or(false));
        let (_, base) = bs.get(bi as usize)?;
        let names = names_of(base);
        let mut q = apply(base, &pert, &names)?;
        let (j, text) = judge(&mut q);
        if Some(text.as_str()) != case["files"][MAIN].as_str() {
            println!("note: the regenerated program differs from the recorded one (the families changed since the case was recorded)");
        }
        return match j {
            Judged::Unsound(sig, detail) => Some((sig, detail)),
            _ => None,
        };
    }
    let text = case["files"][MAIN].as_str()?;
    match compile_src(text) {
        Outcome::Ok(lua) => match run_lua(&lua, 3_000_000).end {
            LuaEnd::RuntimeError(m) => Some(("accepted-but-lua-runtime-error".into(), m)),
            _ => None,
        },
        _ => None,
    }
}
