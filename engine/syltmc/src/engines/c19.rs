//! C19 — structural comparison, ordering and arithmetic on composite values: every ordered
//! pair of every finite value domain, every operator the checker types for it; printed results
//! compared with the structural definition (RefSylt) and with the algebraic laws.

use crate::ast::*;
use crate::harness::*;
use crate::luarun::*;
use crate::refsylt;
use crate::report::{Failure, Run, Stats};
use serde_json::json;

fn neg(i: i64) -> Expr {
    un(UnOp::Neg, int(i))
}
fn i(v: i64) -> Expr {
    if v < 0 { neg(-v) } else { int(v) }
}
fn f(v: f64) -> Expr {
    if v < 0.0 { un(UnOp::Neg, Expr::Float(-v)) } else { Expr::Float(v) }
}
fn tup(xs: Vec<Expr>) -> Expr {
    Expr::Tuple(xs)
}
fn q(a: Expr, b: Expr) -> Expr {
    Expr::Blob("Q".into(), vec![("a".into(), a), ("b".into(), b)])
}
fn qq(inner: Expr, n: Expr) -> Expr {
    Expr::Blob("N".into(), vec![("inner".into(), inner), ("n".into(), n)])
}
fn ev(name: &str, p: Option<Expr>) -> Expr {
    Expr::Variant("F".into(), name.into(), p.map(Box::new))
}

struct Domain {
    name: &'static str,
    values: Vec<Expr>,
    /// operator classes typed for pairs of this domain
    eq: bool,
    lt: bool,
    le: bool,
    arith: &'static [BinOp],
    negate: bool,
}

fn domains(thorough: bool) -> Vec<Domain> {
    use BinOp::*;
    let mut ints = vec![i(-1), i(0), i(1), i(2), i(7)];
    let mut floats = vec![f(-1.5), f(0.5), f(1.0), f(2.0), f(2.5)];
    let mut strs = vec![s(""), s("a"), s("b"), s("ab"), s("B")];
    let mut t2 = vec![tup(vec![i(0), i(0)]), tup(vec![i(0), i(1)]), tup(vec![i(1), i(0)]), tup(vec![i(1), i(1)]), tup(vec![i(-1), i(2)]), tup(vec![i(2), i(-1)])];
    let mut lists = vec![Expr::List(vec![i(1)]), Expr::List(vec![i(1), i(2)]), Expr::List(vec![i(2), i(1)]), Expr::List(vec![i(1), i(1)]), Expr::List(vec![i(2)]), Expr::List(vec![i(1), i(2), i(3)])];
    ints.extend(vec![i(-7), i(3), i(100), int(9223372036854775807), i(-2)]);
    floats.extend(vec![f(-0.5), f(3.25), f(100.0), f(1e10), f(0.25)]);
    strs.extend(vec![s("aa"), s("ba"), s("é"), s(" "), s("abc")]);
    t2.extend(vec![tup(vec![i(2), i(2)]), tup(vec![i(0), i(-1)]), tup(vec![i(7), i(0)])]);
    lists.extend(vec![Expr::List(vec![i(3), i(2), i(1)]), Expr::List(vec![i(0)])]);
    if thorough {
        ints.extend(vec![i(4), i(5), i(-100), i(1000000), i(12345678901)]);
        floats.extend(vec![f(-100.5), f(0.125), f(7.75), f(1e-3), f(65536.0)]);
        strs.extend(vec![s("a "), s("A"), s("z"), s("éa"), s("0")]);
        t2.extend(vec![tup(vec![i(3), i(3)]), tup(vec![i(-2), i(-2)]), tup(vec![i(100), i(-100)])]);
        lists.extend(vec![Expr::List(vec![i(1), i(2), i(3), i(4)]), Expr::List(vec![i(-1), i(-1)])]);
    }
    let t1 = vec![tup(vec![i(0)]), tup(vec![i(1)]), tup(vec![i(-1)])];
    let t0 = vec![tup(vec![]), tup(vec![])];
    let t3 = vec![tup(vec![i(0), i(0), i(1)]), tup(vec![i(0), i(1), i(0)]), tup(vec![i(1), i(0), i(0)]), tup(vec![i(0), i(0), i(0)]), tup(vec![i(0), i(1), i(1)])];
    let tf = vec![tup(vec![f(0.5), i(1)]), tup(vec![f(0.5), i(2)]), tup(vec![f(1.5), i(0)]), tup(vec![f(-0.5), i(3)])];
    let ts = vec![tup(vec![i(1), s("a")]), tup(vec![i(1), s("b")]), tup(vec![i(2), s("")]), tup(vec![i(0), s("b")])];
    let nested = vec![
        tup(vec![tup(vec![i(0), i(1)]), i(0)]),
        tup(vec![tup(vec![i(0), i(1)]), i(1)]),
        tup(vec![tup(vec![i(1), i(0)]), i(0)]),
        tup(vec![tup(vec![i(0), i(0)]), i(2)]),
        tup(vec![tup(vec![i(1), i(1)]), i(-1)]),
    ];
    let deep = vec![
        tup(vec![tup(vec![tup(vec![i(0), i(1)]), i(2)]), i(3)]),
        tup(vec![tup(vec![tup(vec![i(0), i(1)]), i(2)]), i(4)]),
        tup(vec![tup(vec![tup(vec![i(0), i(2)]), i(0)]), i(0)]),
        tup(vec![tup(vec![tup(vec![i(1), i(0)]), i(0)]), i(0)]),
        tup(vec![tup(vec![tup(vec![i(0), i(1)]), i(2)]), i(3)]),
    ];
    let tuple_with_list = vec![
        tup(vec![Expr::List(vec![i(1), i(2)]), i(1)]),
        tup(vec![Expr::List(vec![i(1), i(2)]), i(2)]),
        tup(vec![Expr::List(vec![i(2), i(1)]), i(1)]),
        tup(vec![Expr::List(vec![i(1)]), i(1)]),
        tup(vec![Expr::List(vec![i(1), i(2)]), i(1)]),
    ];
    let list_of_tuples = vec![
        Expr::List(vec![tup(vec![i(1), i(2)])]),
        Expr::List(vec![tup(vec![i(2), i(1)])]),
        Expr::List(vec![tup(vec![i(1), i(2)]), tup(vec![i(1), i(2)])]),
        Expr::List(vec![tup(vec![i(1), i(2)]), tup(vec![i(2), i(1)])]),
    ];
    let list_of_lists = vec![Expr::List(vec![Expr::List(vec![i(1)])]), Expr::List(vec![Expr::List(vec![i(1)]), Expr::List(vec![i(2)])]), Expr::List(vec![Expr::List(vec![i(1), i(2)])]), Expr::List(vec![Expr::List(vec![i(2)])])];
    let blobs = vec![q(i(1), tup(vec![i(1), i(2)])), q(i(1), tup(vec![i(2), i(1)])), q(i(2), tup(vec![i(1), i(2)])), q(i(1), tup(vec![i(1), i(2)])), q(i(0), tup(vec![i(0), i(0)]))];
    let nblobs = vec![qq(q(i(1), tup(vec![i(1), i(2)])), i(1)), qq(q(i(1), tup(vec![i(1), i(2)])), i(2)), qq(q(i(2), tup(vec![i(1), i(2)])), i(1)), qq(q(i(1), tup(vec![i(1), i(2)])), i(1))];
    let enums = vec![ev("A", Some(i(1))), ev("A", Some(i(2))), ev("B", None), ev("C", Some(tup(vec![i(1), s("z")]))), ev("C", Some(tup(vec![i(1), s("y")]))), ev("A", Some(i(1))), ev("B", None)];
    let bools = vec![Expr::Bool(true), Expr::Bool(false)];
    vec![
        Domain { name: "int", values: ints, eq: true, lt: true, le: true, arith: &[Add, Sub, Mul, Div], negate: true },
        Domain { name: "float", values: floats, eq: true, lt: true, le: true, arith: &[Add, Sub, Mul, Div], negate: true },
        Domain { name: "str", values: strs, eq: true, lt: true, le: true, arith: &[Add], negate: false },
        Domain { name: "bool", values: bools, eq: true, lt: false, le: false, arith: &[], negate: false },
        Domain { name: "(int,int)", values: t2, eq: true, lt: true, le: true, arith: &[Add, Sub, Mul, Div], negate: true },
        Domain { name: "(int,)", values: t1, eq: true, lt: true, le: true, arith: &[Add, Sub, Mul], negate: true },
        Domain { name: "()", values: t0, eq: true, lt: true, le: true, arith: &[Add], negate: true },
        Domain { name: "(int,int,int)", values: t3, eq: true, lt: true, le: true, arith: &[Add, Sub, Mul], negate: true },
        Domain { name: "(float,int)", values: tf, eq: true, lt: true, le: true, arith: &[Add, Sub, Mul], negate: true },
        Domain { name: "(int,str)", values: ts, eq: true, lt: true, le: true, arith: &[Add], negate: false },
        Domain { name: "((int,int),int)", values: nested, eq: true, lt: true, le: true, arith: &[Add, Sub, Mul], negate: true },
        Domain { name: "(((int,int),int),int)", values: deep, eq: true, lt: true, le: true, arith: &[Add, Sub, Mul], negate: true },
        Domain { name: "([int],int)", values: tuple_with_list, eq: true, lt: false, le: false, arith: &[], negate: false },
        Domain { name: "[int]", values: lists, eq: true, lt: false, le: false, arith: &[], negate: false },
        Domain { name: "[(int,int)]", values: list_of_tuples, eq: true, lt: false, le: false, arith: &[], negate: false },
        Domain { name: "[[int]]", values: list_of_lists, eq: true, lt: false, le: false, arith: &[], negate: false },
        Domain { name: "blob", values: blobs, eq: true, lt: false, le: false, arith: &[], negate: false },
        Domain { name: "nested-blob", values: nblobs, eq: true, lt: false, le: false, arith: &[], negate: false },
        Domain { name: "enum", values: enums, eq: true, lt: false, le: false, arith: &[], negate: false },
    ]
}

fn tops() -> Vec<Top> {
    vec![
        Top::External { name: "print".into(), ty: "fn *X -> void".into() },
        Top::Blob { name: "Q".into(), fields: vec![("a".into(), Ty::Int), ("b".into(), Ty::Tuple(vec![Ty::Int, Ty::Int]))] },
        Top::Blob { name: "N".into(), fields: vec![("inner".into(), Ty::User("Q".into())), ("n".into(), Ty::Int)] },
        Top::Enum { name: "F".into(), variants: vec![("A".into(), Some(Ty::Int)), ("B".into(), None), ("C".into(), Some(Ty::Tuple(vec![Ty::Int, Ty::Str])))] },
    ]
}

struct Job {
    domain: usize,
    op: Option<BinOp>,
    /// mixed int/float comparison domain
    mixed: bool,
}

/// run one program; returns (lua lines, reference lines) or a failure
fn run_program(p: &mut Program) -> Result<(Vec<String>, Vec<String>, String), (String, String, String)> {
    number_unreachables(p);
    let text = print_program(p).text;
    let (rt, _) = refsylt::reference(p, 2_000_000);
    if !matches!(rt.end, refsylt::End::Done) {
        return Err(("machinery".into(), format!("reference ended with {:?}", rt.end), text));
    }
    match compile_src(&text) {
        Outcome::Ok(lua) => {
            let r = run_lua(&lua, 50_000_000);
            if r.end != LuaEnd::Done {
                return Err(("lua-error".into(), format!("{:?}", r.end), text));
            }
            Ok((r.out, rt.out, text))
        }
        other => Err(("rejected".into(), other.short(), text)),
    }
}

/// composites that mention one variable at several positions - `(v, v) op (w, w)`, `(v, (v, v)) op (w, (w, w))`,
/// `(v, v) / w` - next to the same composites written with a literal at every position. The result is also
/// consumed at its type (bound to a name, compared with the literal form), so a component typed differently the
/// second time it occurs shows as a rejection. Both programs are accepted and print the reference's lines, or both
/// are rejected.
/// how often every program repeats all its comparisons in one run
const ROUNDS: usize = 24;

fn repeated_variable_check(acc: &mut Stats, d: &Domain, op: Option<BinOp>) {
    let scalar = d.name == "int" || d.name == "float";
    let shapes: Vec<&str> = match op {
        Some(BinOp::Div) if scalar => vec!["pair", "nested", "pair-by-scalar"],
        _ => vec!["pair", "nested"],
    };
    let is_cmp = matches!(op, Some(BinOp::Eq | BinOp::Ne | BinOp::Lt | BinOp::Gt | BinOp::Le | BinOp::Ge));
    let opname = op.map(|o| o.text().to_string()).unwrap_or("neg".into());
    for shape in shapes {
        let build = |with_vars: bool| -> (Program, usize) {
            let mut ts = tops();
            for (k, a) in d.values.iter().enumerate() {
                ts.push(Top::Def { name: format!("v{}", k), mutable: true, ty: None, value: a.clone() });
            }
            let atom = |k: usize, vars: bool| if vars { var(&format!("v{}", k)) } else { d.values[k].clone() };
            let comp = |k: usize, vars: bool, right: bool| -> Expr {
                match shape {
                    "pair" => tup(vec![atom(k, vars), atom(k, vars)]),
                    "nested" => tup(vec![atom(k, vars), tup(vec![atom(k, vars), atom(k, vars)])]),
                    _ => if right { atom(k, vars) } else { tup(vec![atom(k, vars), atom(k, vars)]) },
                }
            };
            let mut stmts: Vec<Vec<Stmt>> = Vec::new();
            let n = d.values.len();
            let pairs: Vec<(usize, usize)> = match op {
                Some(_) => (0..n).flat_map(|k| (0..n).map(move |l| (k, l))).collect(),
                None => (0..n).map(|k| (k, k)).collect(),
            };
            for (k, l) in &pairs {
                let e = |vars: bool| match op {
                    Some(o) => bin(o, comp(*k, vars, false), comp(*l, vars, true)),
                    None => un(UnOp::Neg, Expr::Paren(Box::new(comp(*k, vars, false)))),
                };
                let mut one = Vec::new();
                if is_cmp {
                    one.push(print_of(e(with_vars)));
                } else {
                    let r = format!("r{}_{}", k, l);
                    one.push(def(&r, e(with_vars)));
                    one.push(print_of(var(&r)));
                    if d.eq {
                        one.push(print_of(bin(BinOp::Eq, var(&r), e(false))));
                    }
                }
                stmts.push(one);
            }
            let mut calls = Vec::new();
            for (ci, chunk) in stmts.chunks(6).enumerate() {
                let name = format!("rpart{}", ci);
                ts.push(top_fn(&name, vec![], RetAnn::Void, chunk.iter().flatten().cloned().collect()));
                calls.push(Stmt::Expr(callv(&name, vec![])));
            }
            let mut start_body = Vec::new();
            for (gi, chunk) in calls.chunks(20).enumerate() {
                let name = format!("rgroup{}", gi);
                ts.push(top_fn(&name, vec![], RetAnn::Void, chunk.to_vec()));
                start_body.push(Stmt::Expr(callv(&name, vec![])));
            }
            ts.push(start_fn(start_body));
            (Program { tops: ts }, pairs.len())
        };
        let (mut with_vars, npairs) = build(true);
        let (mut with_lits, _) = build(false);
        acc.programs += 2;
        let a = run_program(&mut with_vars);
        let b = run_program(&mut with_lits);
        let what = format!("{} {} {}", d.name, opname, shape);
        let mut fail = |acc: &mut Stats, sig: &str, detail: String, text: &str, extra: serde_json::Value| {
            acc.outcome(sig);
            let mut files = serde_json::Map::new();
            files.insert(MAIN.to_string(), json!(text));
            let mut case = json!({"engine": "c19", "files": files});
            if let (Some(o), Some(e)) = (case.as_object_mut(), extra.as_object()) {
                for (k, v) in e {
                    o.insert(k.clone(), v.clone());
                }
            }
            acc.fail(Failure { sig: format!("{}:{}", sig, opname), preds: vec![format!("domain:{}", d.name), format!("repeated-variable:{}", shape)], detail, case, size: text.len() });
        };
        match (a, b) {
            (Ok((lua, reference, text)), Ok(_)) => {
                acc.states += npairs as u64;
                acc.traces_validated += 1;
                acc.nontrivial(fnv(format!("repeated {}", what).as_bytes()));
                let mut bad = None;
                for idx in 0..reference.len().max(lua.len()) {
                    acc.evaluations += 1;
                    if lua.get(idx) != reference.get(idx) {
                        bad = Some(idx);
                        break;
                    }
                }
                match bad {
                    None => acc.outcome("repeated-variable:agrees-with-structural-definition"),
                    Some(idx) => fail(acc, "wrong-result", format!("{} with one variable at every position: line {} is {:?}, the structural definition gives {:?}", what, idx, lua.get(idx), reference.get(idx)), &text, json!({"line": idx, "expected": reference.get(idx)})),
                }
            }
            (Err((sa, _, _)), Err((sb, _, _))) if sa == "rejected" && sb == "rejected" => {
                acc.count(&format!("rejected-by-compiler:repeated-variable {}", what), 1);
            }
            (Err((sa, da, ta)), Ok(_)) if sa == "rejected" => {
                fail(acc, "typed-for-literals-but-rejected-for-one-variable-repeated", format!("{}: the program with a literal at every position is accepted, the one that mentions a variable several times is rejected: {}", what, da), &ta, json!({"expect": "accepted"}));
            }
            (Ok((_, _, ta)), Err((sb, db, _))) if sb == "rejected" => {
                fail(acc, "rejected-for-literals-but-accepted-for-one-variable-repeated", format!("{}: the program with a literal at every position is rejected ({}), the one that mentions a variable several times is accepted", what, db), &ta, json!({"expect": "rejected"}));
            }
            (Err((sa, da, ta)), _) => fail(acc, &sa, da, &ta, json!({})),
            (_, Err((sb, db, tb))) => fail(acc, &sb, db, &tb, json!({})),
        }
    }
}

pub fn run(run: &mut Run) {
    let thorough = run.thorough();
    let doms = domains(thorough);
    use BinOp::*;
    let mut jobs = Vec::new();
    for (di, d) in doms.iter().enumerate() {
        if d.eq {
            jobs.push(Job { domain: di, op: Some(Eq), mixed: false });
            jobs.push(Job { domain: di, op: Some(Ne), mixed: false });
        }
        if d.lt {
            jobs.push(Job { domain: di, op: Some(Lt), mixed: false });
            jobs.push(Job { domain: di, op: Some(Gt), mixed: false });
        }
        if d.le {
            jobs.push(Job { domain: di, op: Some(Le), mixed: false });
            jobs.push(Job { domain: di, op: Some(Ge), mixed: false });
        }
        for op in d.arith {
            jobs.push(Job { domain: di, op: Some(*op), mixed: false });
        }
        if d.negate {
            jobs.push(Job { domain: di, op: None, mixed: false });
        }
    }
    // int x float comparisons (only < and > are typed for mixed operands)
    jobs.push(Job { domain: 0, op: Some(Lt), mixed: true });
    jobs.push(Job { domain: 0, op: Some(Gt), mixed: true });
    let results = crate::pool::par_items(&jobs, 1, |_| (Stats::new(), Vec::new()), |(acc, mats): &mut (Stats, Vec<(usize, String, Vec<String>)>), _, job| {
        let d = &doms[job.domain];
        let others: &Vec<Expr> = if job.mixed { &doms[1].values } else { &d.values };
        if !job.mixed {
            repeated_variable_check(acc, d, job.op);
        }
        let mut body = Vec::new();
        let mut labels = Vec::new();
        match job.op {
            Some(op) => {
                for a in &d.values {
                    for b in others {
                        // tuple / tuple and x / 0 style NaN results are avoided: 0/0 only
                        body.push(print_of(bin(op, a.clone(), b.clone())));
                        labels.push(format!("{} {} {}", Printer::new(PrintOpts::default()).expr(a, 0), op.text(), Printer::new(PrintOpts::default()).expr(b, 0)));
                    }
                }
            }
            None => {
                for a in &d.values {
                    body.push(print_of(un(UnOp::Neg, Expr::Paren(Box::new(a.clone())))));
                    labels.push(format!("-({})", Printer::new(PrintOpts::default()).expr(a, 0)));
                }
            }
        }
        // composite values also through variables (not only literals): second half of the program
        if job.op.is_some() && !job.mixed {
            let mut defs = Vec::new();
            for (k, a) in d.values.iter().enumerate() {
                defs.push(def(&format!("v{}", k), a.clone()));
            }
            let mut more = Vec::new();
            for k in 0..d.values.len() {
                for l in 0..d.values.len() {
                    more.push(print_of(bin(job.op.unwrap(), var(&format!("v{}", k)), var(&format!("v{}", l)))));
                }
            }
            body.extend(defs);
            body.extend(more);
        }
        // small functions: a long body would exceed Lua's 200 locals (known finding F-06d)
        let mut ts = tops();
        let ndefs = body.iter().filter(|s| matches!(s, Stmt::Def { .. })).count();
        let (prints1, rest): (Vec<Stmt>, Vec<Stmt>) = {
            let first_def = body.iter().position(|s| matches!(s, Stmt::Def { .. })).unwrap_or(body.len());
            (body[..first_def].to_vec(), body[first_def..].to_vec())
        };
        let mut calls = Vec::new();
        for (k, chunk) in prints1.chunks(8).enumerate() {
            let name = format!("part{}", k);
            ts.push(top_fn(&name, vec![], RetAnn::Void, chunk.to_vec()));
            calls.push(Stmt::Expr(callv(&name, vec![])));
        }
        if ndefs > 0 {
            // the through-variables half: values become globals so that the parts can share them
            let defs: Vec<Stmt> = rest.iter().filter(|s| matches!(s, Stmt::Def { .. })).cloned().collect();
            let prints2: Vec<Stmt> = rest.iter().filter(|s| !matches!(s, Stmt::Def { .. })).cloned().collect();
            for d in defs {
                if let Stmt::Def { name, value, .. } = d {
                    ts.push(Top::Def { name, mutable: true, ty: None, value });
                }
            }
            for (k, chunk) in prints2.chunks(8).enumerate() {
                let name = format!("vpart{}", k);
                ts.push(top_fn(&name, vec![], RetAnn::Void, chunk.to_vec()));
                calls.push(Stmt::Expr(callv(&name, vec![])));
            }
        }
        // composite values assembled from component globals that are declared *after* them (top-level order is
        // irrelevant): third block of prints
        if job.op.is_some() && !job.mixed {
            let mut comps: Vec<Top> = Vec::new();
            for (k, a) in d.values.iter().enumerate() {
                let mut ci = 0usize;
                let mut hoist = |x: &Expr, comps: &mut Vec<Top>| -> Expr {
                    let name = format!("c{}_{}", k, ci);
                    ci += 1;
                    comps.push(Top::Def { name: name.clone(), mutable: false, ty: None, value: x.clone() });
                    var(&name)
                };
                let w = match a {
                    Expr::Tuple(xs) if !xs.is_empty() => Expr::Tuple(xs.iter().map(|x| hoist(x, &mut comps)).collect()),
                    Expr::List(xs) if !xs.is_empty() => Expr::List(xs.iter().map(|x| hoist(x, &mut comps)).collect()),
                    Expr::Blob(n, fs) => Expr::Blob(n.clone(), fs.iter().map(|(f, x)| (f.clone(), hoist(x, &mut comps))).collect()),
                    Expr::Variant(en, v, Some(p)) => Expr::Variant(en.clone(), v.clone(), Some(Box::new(hoist(p, &mut comps)))),
                    other => hoist(other, &mut comps),
                };
                ts.push(Top::Def { name: format!("w{}", k), mutable: false, ty: None, value: w });
            }
            ts.extend(comps);
            let mut prints3 = Vec::new();
            for k in 0..d.values.len() {
                for l in 0..d.values.len() {
                    prints3.push(print_of(bin(job.op.unwrap(), var(&format!("w{}", k)), var(&format!("w{}", l)))));
                }
            }
            for (k, chunk) in prints3.chunks(8).enumerate() {
                let name = format!("wpart{}", k);
                ts.push(top_fn(&name, vec![], RetAnn::Void, chunk.to_vec()));
                calls.push(Stmt::Expr(callv(&name, vec![])));
            }
        }
        // start itself calls the parts in chunks as well
        let mut start_body = Vec::new();
        for (k, chunk) in calls.chunks(20).enumerate() {
            let name = format!("group{}", k);
            ts.push(top_fn(&name, vec![], RetAnn::Void, chunk.to_vec()));
            start_body.push(Stmt::Expr(callv(&name, vec![])));
        }
        // everything once more in the same run: a result must not depend on how many comparisons came before it
        ts.push(top_fn("all_once", vec![], RetAnn::Void, start_body));
        let start_body = vec![
            def("round", int(0)),
            Stmt::Loop(Some(bin(BinOp::Lt, var("round"), int(ROUNDS as i64))), vec![Stmt::Expr(callv("all_once", vec![])), Stmt::Assign { target: var("round"), op: Some(BinOp::Add), value: int(1) }]),
        ];
        ts.push(start_fn(start_body));
        let mut p = Program { tops: ts };
        acc.programs += 1;
        let opname = job.op.map(|o| o.text().to_string()).unwrap_or("neg".into());
        match run_program(&mut p) {
            Err((sig, detail, text)) => {
                if sig == "rejected" {
                    acc.count(&format!("rejected-by-compiler:{} {}", d.name, opname), 1);
                    if acc.samples.len() < 3 {
                        acc.sample(json!({"rejected": detail, "domain": d.name, "op": opname}));
                    }
                    return;
                }
                acc.outcome(&sig);
                let mut files = serde_json::Map::new();
                files.insert(MAIN.to_string(), json!(text));
                acc.fail(Failure { sig: format!("{}:{}", sig, opname), preds: vec![format!("domain:{}", d.name)], detail, case: json!({"engine": "c19", "files": files}), size: text.len() });
            }
            Ok((lua, reference, text)) => {
                acc.states += labels.len() as u64;
                acc.traces_validated += 1;
                let n = labels.len();
                let blocks = (lua.len() / n.max(1)).max(1);
                let per_round = (blocks / ROUNDS).max(1);
                for (k, label) in labels.iter().enumerate() {
                    for half in 0..blocks {
                        let idx = half * n + k;
                        if idx >= lua.len() || idx >= reference.len() {
                            continue;
                        }
                        acc.nontrivial(fnv(format!("{}#{}", label, half).as_bytes()));
                        acc.evaluations += 1;
                        acc.transitions += 1;
                        if lua[idx] != reference[idx] {
                            acc.outcome("differs-from-structural-definition");
                            let mut files = serde_json::Map::new();
                            files.insert(MAIN.to_string(), json!(text));
                            acc.fail(Failure {
                                sig: format!("wrong-result:{}", opname),
                                preds: vec![format!("domain:{}", d.name)],
                                detail: format!("{} ({}, round {} of 24 in one run): Lua printed {:?}, the structural definition gives {:?}", label, match half % per_round { 0 => "literals", 1 => "through variables", _ => "assembled from component globals declared later" }, half / per_round + 1, lua[idx], reference[idx]),
                                case: json!({"engine": "c19", "files": files, "line": idx, "expected": reference[idx]}),
                                size: label.len(),
                            });
                        } else {
                            acc.outcome("agrees-with-structural-definition");
                        }
                    }
                }
                if !job.mixed && job.op.is_some() {
                    mats.push((job.domain, opname.clone(), lua[..n.min(lua.len())].to_vec()));
                }
                if acc.samples.len() < 2 {
                    acc.sample(json!({"domain": d.name, "op": opname, "first_lines": labels.iter().zip(lua.iter()).take(6).map(|(l, r)| format!("{} => {}", l, r)).collect::<Vec<_>>()}));
                }
            }
        }
    });
    let mut st = Stats::new();
    let mut mats: Vec<(usize, String, Vec<String>)> = Vec::new();
    for (s, m) in results {
        st.merge(s);
        mats.extend(m);
    }
    // one user-written generic helper (`fn a, b -> a op b end`, no annotations) used at two domains in one program, in
    // both orders of the two uses and three times over: what the first use settled about the operands must not leak
    // into the second (every operator x every ordered pair of distinct domains typed for it)
    {
        let mut gjobs: Vec<(BinOp, usize, usize)> = Vec::new();
        for op in [Eq, Ne, Lt, Gt, Le, Ge, Add, Sub, Mul, Div] {
            let typed = |d: &Domain| match op {
                Eq | Ne => d.eq,
                Lt | Gt => d.lt,
                Le | Ge => d.le,
                _ => d.arith.contains(&op),
            };
            for (i, a) in doms.iter().enumerate() {
                for (j, b) in doms.iter().enumerate() {
                    if i != j && typed(a) && typed(b) {
                        gjobs.push((op, i, j));
                    }
                }
            }
        }
        let accs = crate::pool::par_items(&gjobs, 4, |_| Stats::new(), |acc, _, (op, i, j)| {
            let (da, db) = (&doms[*i], &doms[*j]);
            let pick = |d: &Domain, k: usize| d.values[k % d.values.len()].clone();
            let mut ts = tops();
            ts.push(Top::Def { name: "helper".into(), mutable: false, ty: None, value: lambda(vec![("a", None), ("b", None)], RetAnn::Implied, vec![Stmt::Expr(bin(*op, var("a"), var("b")))]) });
            let mut body = Vec::new();
            for round in 0..3usize {
                body.push(print_of(callv("helper", vec![pick(da, round), pick(da, round + 1)])));
                body.push(print_of(callv("helper", vec![pick(db, round), pick(db, round + 1)])));
            }
            ts.push(start_fn(body));
            let mut p = Program { tops: ts };
            acc.evaluations += 1;
            let what = format!("helper `a {} b` used at {} then {}", op.text(), da.name, db.name);
            let mut files = serde_json::Map::new();
            match run_program(&mut p) {
                Ok((lua, reference, text)) => {
                    acc.nontrivial(fnv(what.as_bytes()));
                    if lua == reference {
                        acc.outcome("generic-helper:matches-structural-definition");
                    } else {
                        files.insert(MAIN.to_string(), json!(text));
                        acc.outcome("generic-helper:wrong-result");
                        acc.fail(Failure { sig: format!("wrong-result:{}", op.text()), preds: vec![format!("domain:{}", da.name), "generic-helper".into()], detail: format!("{}: Lua printed {:?}, the structural definition gives {:?}", what, lua, reference), case: json!({"engine": "c19", "files": files}), size: text.len() });
                    }
                }
                Err((kind, detail, text)) if kind == "machinery" => {
                    let _ = text;
                    acc.count(&format!("generic-helper:not-decided-by-the-reference {}", detail), 1);
                }
                Err((kind, detail, text)) => {
                    files.insert(MAIN.to_string(), json!(text));
                    acc.outcome("generic-helper:FAIL");
                    acc.fail(Failure { sig: format!("generic-helper-{}:{}", kind, op.text()), preds: vec![format!("domain:{}", da.name), "generic-helper".into()], detail: format!("{}: each use alone is typed and defined, the program with both is not: {}", what, detail), case: json!({"engine": "c19", "files": files, "expect": "accepted"}), size: text.len() });
                }
            }
        });
        st.merge(Stats::merge_all(accs));
    }
    // laws on the result matrices (from the Lua side)
    for (di, d) in doms.iter().enumerate() {
        let n = d.values.len();
        let get = |op: &str| -> Option<Vec<bool>> { mats.iter().find(|m| m.0 == di && m.1 == op).map(|m| m.2.iter().map(|x| x == "true").collect()) };
        let label = |a: usize| Printer::new(PrintOpts::default()).expr(&d.values[a], 0);
        let mut law_fail = |st: &mut Stats, law: &str, detail: String| {
            st.outcome(&format!("law-violated:{}", law));
            st.fail(Failure { sig: format!("law-violated:{}", law), preds: vec![format!("domain:{}", d.name)], detail, case: json!({"engine": "c19-law", "domain": d.name, "law": law}), size: 10 });
        };
        if let (Some(eq), Some(ne)) = (get("=="), get("!=")) {
            for a in 0..n {
                st.evaluations += 1;
                if !eq[a * n + a] {
                    law_fail(&mut st, "reflexive", format!("{} == itself is false", label(a)));
                }
                for b in 0..n {
                    if eq[a * n + b] != eq[b * n + a] {
                        law_fail(&mut st, "symmetric", format!("{} == {} differs from the swapped comparison", label(a), label(b)));
                    }
                    if eq[a * n + b] == ne[a * n + b] {
                        law_fail(&mut st, "complementary", format!("{} == and != agree on {}", label(a), label(b)));
                    }
                    for c in 0..n {
                        if eq[a * n + b] && eq[b * n + c] && !eq[a * n + c] {
                            law_fail(&mut st, "eq-transitive", format!("{} == {} == {} but not first == last", label(a), label(b), label(c)));
                        }
                    }
                }
            }
            st.outcome("laws:equality-checked");
            if let (Some(lt), Some(gt)) = (get("<"), get(">")) {
                for a in 0..n {
                    for b in 0..n {
                        if lt[a * n + b] != gt[b * n + a] {
                            law_fail(&mut st, "lt-gt-mirror", format!("{} < {} differs from the mirrored >", label(a), label(b)));
                        }
                        let cnt = [lt[a * n + b], eq[a * n + b], gt[a * n + b]].iter().filter(|x| **x).count();
                        if cnt != 1 {
                            law_fail(&mut st, "trichotomy", format!("{} vs {}: <={} =={} >={}", label(a), label(b), lt[a * n + b], eq[a * n + b], gt[a * n + b]));
                        }
                        for c in 0..n {
                            if lt[a * n + b] && lt[b * n + c] && !lt[a * n + c] {
                                law_fail(&mut st, "lt-transitive", format!("{} < {} < {} but not first < last", label(a), label(b), label(c)));
                            }
                        }
                    }
                }
                st.outcome("laws:order-checked");
                if let (Some(le), Some(ge)) = (get("<="), get(">=")) {
                    for a in 0..n {
                        for b in 0..n {
                            if le[a * n + b] != (lt[a * n + b] || eq[a * n + b]) {
                                law_fail(&mut st, "le-is-lt-or-eq", format!("{} <= {}", label(a), label(b)));
                            }
                            if ge[a * n + b] != le[b * n + a] {
                                law_fail(&mut st, "le-ge-mirror", format!("{} >= {}", label(a), label(b)));
                            }
                        }
                    }
                    st.outcome("laws:le-ge-checked");
                }
            }
        }
    }
    library_values(&mut st);
    run.stats = st;
    run.rule = "value domains: ints, floats, strings, bools, tuples of arity 0-3 (int, float/int, int/str, nested), lists (of ints, tuples, lists), a two-field blob, a blob nesting a blob, an enum with payload / without / tuple payload; every ordered pair of each domain (as literals, through variables, and as constants assembled from component globals declared after them) under every operator the checker types for it (== != < <= > >= + - * / and unary -), int x float under < >; every program evaluates all its pairs 24 times in one run (a result must not depend on how many comparisons came before); the same operators on composites that mention one variable at every position ((v, v), (v, (v, v)), and (v, v) / w for numbers) with the result bound to a name and compared with the form that has a literal at every position - both forms accepted with the reference's output or both rejected; enum values made by the standard library (list.get / last / pop / find, dict.get) against the same values written in source, bare and nested in tuples and lists, under == and != (121 ordered pairs x 5 nestings); non-trivial = every evaluated operator application; distinct by operands+operator".into();
    run.bounds = json!({"domains": doms.iter().map(|d| json!({"name": d.name, "values": d.values.len()})).collect::<Vec<_>>()});
    run.assumptions = vec![
        "the structural definition is RefSylt's (element-wise arithmetic, lexicographic order, structural equality), the laws are checked on the Lua results alone".into(),
        "operator/domain combinations the compiler rejects are outside the property's typed domain and are counted".into(),
    ];
}

/// enum values made by the standard library (list.get / last / find / pop, dict.get) against the same values written
/// in source, bare and nested in tuples and lists, under == and != in both orders (std bundled)
fn library_values(st: &mut Stats) {
    // (source text, structural identity)
    let vals: Vec<(&str, &str)> = vec![
        ("list.get(l, 7)", "None"),
        ("list.get(l, 0)", "Just 1"),
        ("list.last(l)", "Just 1"),
        ("list.pop(e)", "None"),
        ("list.find(l, pu x -> x == 9 end)", "None"),
        ("list.find(l, pu x -> x == 1 end)", "Just 1"),
        ("dict.get(d, 5)", "None"),
        ("dict.get(d, 1)", "Just 1"),
        ("none_int()", "None"),
        ("(Maybe.Just 1)", "Just 1"),
        ("(Maybe.Just 2)", "Just 2"),
    ];
    let wraps: [(&str, &str); 5] = [("bare", "{}"), ("in tuple", "({}, 1)"), ("in list", "[{}]"), ("in nested tuple", "(({},),)"), ("in list in tuple", "(0, [{}])")];
    for (a, ia) in &vals {
        // one program per left operand (chunk-level locals are limited, known finding F-06d)
        let mut text = String::from("from maybe use Maybe\nnone_int :: fn -> Maybe(int)\n    Maybe.None\nend\n");
        let mut expected: Vec<(String, String)> = Vec::new();
        let mut calls: Vec<String> = Vec::new();
        for (k, (b, ib)) in vals.iter().enumerate() {
            text.push_str(&format!("p{} :: fn do\n    l: [int] = [1]\n    e: [int] = []\n    d: dict.Dict(int, int) = dict.from_list([(1, 1)])\n    a: Maybe(int) : {}\n    b: Maybe(int) : {}\n", k, a, b));
            for (wn, w) in &wraps {
                let wa = w.replace("{}", "a");
                let wb = w.replace("{}", "b");
                text.push_str(&format!("    print({} == {})\n    print({} != {})\n", wa, wb, wa, wb));
                expected.push((format!("{} == {} ({})", a, b, wn), format!("{}", ia == ib)));
                expected.push((format!("{} != {} ({})", a, b, wn), format!("{}", ia != ib)));
            }
            text.push_str("end\n");
            calls.push(format!("p{}()", k));
        }
        text.push_str("start :: fn do\n");
        for c in &calls {
            text.push_str(&format!("    {}\n", c));
        }
        text.push_str("end\n");
        let mut files = serde_json::Map::new();
        files.insert(MAIN.to_string(), json!(text));
        let lua = match compile(&one_file(&text), MAIN, false) {
            Outcome::Ok(b) => b,
            other => {
                eprintln!("MACHINERY: C19 library-values program does not compile: {}\n{}", other.short(), text);
                std::process::exit(2);
            }
        };
        let r = run_lua(&lua, 50_000_000);
        if r.end != LuaEnd::Done || r.out.len() != expected.len() {
            st.outcome("library-values:run-failed");
            st.fail(Failure { sig: "library-values-run-failed".into(), preds: vec!["domain:library-made-enum-values".into()], detail: format!("{:?}, {} of {} lines", r.end, r.out.len(), expected.len()), case: json!({"engine": "c19", "files": files, "no_std": false, "line": 0, "expected": ""}), size: 10 });
            continue;
        }
        for (idx, ((label, want), got)) in expected.iter().zip(r.out.iter()).enumerate() {
            st.evaluations += 1;
            st.transitions += 1;
            st.nontrivial(fnv(label.as_bytes()));
            if want == got {
                st.outcome("agrees-with-structural-definition");
            } else {
                st.outcome("differs-from-structural-definition");
                st.fail(Failure {
                    sig: format!("wrong-result:{}", if label.contains(" == ") { "==" } else { "!=" }),
                    preds: vec!["domain:library-made-enum-values".into()],
                    detail: format!("{}: Lua printed {:?}, the structural definition gives {:?}", label, got, want),
                    case: json!({"engine": "c19", "files": files, "line": idx, "expected": want, "no_std": false}),
                    size: label.len(),
                });
            }
        }
    }
}

pub fn replay(case: &serde_json::Value) -> Option<(String, String)> {
    if case["engine"] == "c19-law" {
        println!("law violations are recomputed by re-running ./check C19");
        return Some(("law-violated".into(), format!("{} on {}", case["law"], case["domain"])));
    }
    let text = case["files"][MAIN].as_str()?;
    match compile(&one_file(text), MAIN, case["no_std"].as_bool().unwrap_or(true)) {
        Outcome::Ok(lua) => {
            let r = run_lua(&lua, 50_000_000);
            if r.end != LuaEnd::Done {
                return Some(("lua-error".into(), format!("{:?}", r.end)));
            }
            if case["expect"] == "rejected" {
                return Some(("accepted".into(), "the form with a literal at every position is rejected".into()));
            }
            let line = case["line"].as_u64()? as usize;
            let want = case["expected"].as_str()?;
            if r.out.get(line).map(|s| s.as_str()) != Some(want) {
                Some(("wrong-result".into(), format!("line {}: {:?} expected {:?}", line, r.out.get(line), want)))
            } else {
                None
            }
        }
        other => Some(("rejected".into(), other.short())),
    }
}
