pub mod c17;
pub mod c13;
pub mod faults;
