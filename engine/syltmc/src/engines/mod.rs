pub mod c17;
pub mod c13;
pub mod faults;
pub mod c15;
pub mod c16;
pub mod c07;
pub mod c01;
