pub mod c17;
pub mod c13;
