pub mod c17;
