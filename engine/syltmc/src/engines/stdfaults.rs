//! Faults that involve the bundled standard library (C03 mismatches through library signatures, C04 impurity
//! through library higher-order functions, C05 shape faults on values the library hands out). The library is
//! source like any other (std/*.sy): a wrong signature there lets the same faults through that the checker itself
//! would otherwise catch. Every snippet is planted in every context of a small fixed list, with a permitted twin
//! as control, compiled with std bundled.

use crate::harness::*;
use crate::report::{Failure, Stats};
use serde_json::json;

pub struct StdSnip {
    pub id: &'static str,
    pub fault: &'static str,
    pub twin: &'static str,
}

const fn s(id: &'static str, fault: &'static str, twin: &'static str) -> StdSnip {
    StdSnip { id, fault, twin }
}

const TOPS: &str = "from maybe use Maybe\nP2 :: blob { x: int, y: int }\nE2 :: enum\n    A int,\n    B,\nend\nidi_imp :: fn q: int -> int\n    q\nend\nidp_pure :: pu q: int -> int\n    q\nend\npred_imp :: fn q: int -> bool\n    q > 0\nend\npred_pure :: pu q: int -> bool\n    q > 0\nend\nadd_imp :: fn q: int, acc: int -> int\n    q + acc\nend\nadd_pure :: pu q: int, acc: int -> int\n    q + acc\nend\n";

const IMPURE_LOCALS: &str = "l: [int] = [1, 2]\nd: dict.Dict(int, str) = dict.new()\ns: set.Set(int) = set.new()\nlp: [P2] = [P2 { x: 1, y: 2 }]\nlt: [(int, int)] = [(1, 2)]\nle: [E2] = [E2.A 1]\ndp: dict.Dict(int, P2) = dict.new()\n";
const PURE_LOCALS: &str = "l :: [1, 2]\nd: dict.Dict(int, str) : dict.new()\ns: set.Set(int) : set.new()\n";

/// C03: definite mismatches against library signatures (arguments, results, callback types, payloads)
pub const C03_STD: &[StdSnip] = &[
    s("push-element-type", "list.push(l, \"a\")", "list.push(l, 3)"),
    s("prepend-element-type", "list.prepend(l, \"a\")", "list.prepend(l, 3)"),
    s("pop-result-annotation", "w: Maybe(str) = list.pop(l)", "w: Maybe(int) = list.pop(l)"),
    s("pop-payload-operator", "case list.pop(l) do\n Just x -> print(x + \"!\")\n else do end\nend", "case list.pop(l) do\n Just x -> print(x + 1)\n else do end\nend"),
    s("get-result-annotation", "w: Maybe(str) = list.get(l, 0)", "w: Maybe(int) = list.get(l, 0)"),
    s("get-index-type", "w :: list.get(l, \"0\")", "w :: list.get(l, 0)"),
    s("get-payload-operator", "case list.get(l, 0) do\n Just x -> print(x + \"!\")\n else do end\nend", "case list.get(l, 0) do\n Just x -> print(x + 1)\n else do end\nend"),
    s("last-payload-operator", "case list.last(l) do\n Just x -> print(x + \"!\")\n else do end\nend", "case list.last(l) do\n Just x -> print(x + 1)\n else do end\nend"),
    s("find-payload-operator", "case list.find(l, pu x -> x == 1 end) do\n Just x -> print(x + \"!\")\n else do end\nend", "case list.find(l, pu x -> x == 1 end) do\n Just x -> print(x + 1)\n else do end\nend"),
    s("set-element-type", "list.set(l, 0, \"a\")", "list.set(l, 0, 3)"),
    s("set-index-type", "list.set(l, \"0\", 3)", "list.set(l, 0, 3)"),
    s("len-result-annotation", "w: str = list.len(l)", "w: int = list.len(l)"),
    s("contains-element-type", "w :: list.contains(l, \"a\")", "w :: list.contains(l, 1)"),
    s("find-predicate-result", "w :: list.find(l, pu x -> x + 1 end)", "w :: list.find(l, pu x -> x == 1 end)"),
    s("find-predicate-parameter", "w :: list.find(l, pu x -> x == \"a\" end)", "w :: list.find(l, pu x -> x == 1 end)"),
    s("map-callback-body", "w :: map(l, pu x -> x + \"!\" end)", "w :: map(l, pu x -> x + 1 end)"),
    s("map-result-annotation", "w: [str] = map(l, pu x -> x + 1 end)", "w: [int] = map(l, pu x -> x + 1 end)"),
    s("filter-predicate-result", "w :: filter(l, pu x -> x + 1 end)", "w :: filter(l, pu x -> x > 1 end)"),
    s("filter-result-annotation", "w: [str] = filter(l, pu x -> x > 1 end)", "w: [int] = filter(l, pu x -> x > 1 end)"),
    s("fold-accumulator-type", "w :: fold(l, \"\", pu x, acc -> acc + x end)", "w :: fold(l, 0, pu x, acc -> acc + x end)"),
    s("fold-result-annotation", "w: str = fold(l, 0, pu x, acc -> acc + x end)", "w: int = fold(l, 0, pu x, acc -> acc + x end)"),
    s("push-too-few-arguments", "list.push(l)", "list.push(l, 3)"),
    s("len-too-many-arguments", "w :: list.len(l, 1)", "w :: list.len(l)"),
    s("push-through-variable", "vs := \"a\"\nlist.push(l, vs)", "vs := 3\nlist.push(l, vs)"),
    s("dict-update-key-type", "dict.update(d, \"k\", \"v\")", "dict.update(d, 1, \"v\")"),
    s("dict-update-value-type", "dict.update(d, 1, 2)", "dict.update(d, 1, \"v\")"),
    s("dict-get-key-type", "w :: dict.get(d, \"k\")", "w :: dict.get(d, 1)"),
    s("dict-get-payload-operator", "case dict.get(d, 1) do\n Just x -> print(x + 1)\n else do end\nend", "case dict.get(d, 1) do\n Just x -> print(x + \"!\")\n else do end\nend"),
    s("dict-remove-key-type", "dict.remove(d, \"k\")", "dict.remove(d, 1)"),
    s("dict-len-result-annotation", "w: str = dict.len(d)", "w: int = dict.len(d)"),
    s("dict-contains-key-type", "w :: dict.contains_key(d, \"k\")", "w :: dict.contains_key(d, 1)"),
    s("dict-from-list-value-type", "w: dict.Dict(int, str) = dict.from_list([(1, 2)])", "w: dict.Dict(int, str) = dict.from_list([(1, \"v\")])"),
    s("set-add-element-type", "set.add(s, \"a\")", "set.add(s, 1)"),
    s("set-contains-element-type", "w :: set.contains(s, \"a\")", "w :: set.contains(s, 1)"),
    s("set-remove-element-type", "set.remove(s, \"a\")", "set.remove(s, 1)"),
    s("set-len-result-annotation", "w: str = set.len(s)", "w: int = set.len(s)"),
    s("set-from-list-element-type", "w: set.Set(int) = set.from_list([\"a\"])", "w: set.Set(int) = set.from_list([1])"),
    s("abs-of-string", "w :: abs(\"a\")", "w :: abs(1)"),
    s("abs-of-string-variable", "vs := \"a\"\nw :: abs(vs)", "vs := 1\nw :: abs(vs)"),
    s("abs-result-annotation", "w: str = abs(1)", "w: int = abs(1)"),
    s("min-mixed", "w :: min(1, \"a\")", "w :: min(1, 2)"),
    s("max-mixed-variables", "va := 1\nvb := \"a\"\nw :: max(va, vb)", "va := 1\nvb := 2\nw :: max(va, vb)"),
    s("clamp-mixed", "w :: clamp(1, \"a\", 3)", "w :: clamp(1, 0, 3)"),
    s("sign-of-string", "w :: sign(\"a\")", "w :: sign(1)"),
    s("floor-of-string", "w :: floor(\"a\")", "w :: floor(1.5)"),
    s("floor-result-annotation", "w: str = floor(1.5)", "w: int = floor(1.5)"),
    s("div-float", "w :: div(1.5, 2)", "w :: div(3, 2)"),
    s("sqrt-int", "w :: sqrt(4)", "w :: sqrt(4.0)"),
];

/// C04: inside a `pu` function - impure callbacks handed to the library's pure higher-order functions, and calls of
/// library functions that are declared impure
pub const C04_STD: &[StdSnip] = &[
    s("map-impure-callback", "zz :: map(l, idi_imp)", "zz :: map(l, idp_pure)"),
    s("filter-impure-callback", "zz :: filter(l, pred_imp)", "zz :: filter(l, pred_pure)"),
    s("fold-impure-callback", "zz :: fold(l, 0, add_imp)", "zz :: fold(l, 0, add_pure)"),
    s("map-impure-closure", "zz :: map(l, fn x -> x + 1 end)", "zz :: map(l, pu x -> x + 1 end)"),
    s("filter-impure-closure", "zz :: filter(l, fn x -> x > 1 end)", "zz :: filter(l, pu x -> x > 1 end)"),
    s("fold-impure-closure", "zz :: fold(l, 0, fn x, acc -> acc + x end)", "zz :: fold(l, 0, pu x, acc -> acc + x end)"),
    s("call-list-push", "list.push(l, 1)", "zz :: list.get(l, 0)"),
    s("call-list-pop", "zz :: list.pop(l)", "zz :: list.get(l, 0)"),
    s("call-list-find", "zz :: list.find(l, pred_pure)", "zz :: filter(l, pred_pure)"),
    s("call-dict-update", "dict.update(d, 1, \"v\")", "zz :: dict.get(d, 1)"),
    s("call-dict-remove", "dict.remove(d, 1)", "zz :: dict.get(d, 1)"),
    s("call-set-add", "set.add(s, 1)", "zz :: set.contains(s, 1)"),
    s("call-random", "zz :: random()", "zz :: sqrt(4.0)"),
    s("call-print", "print(1)", "zz :: abs(1)"),
    s("set-map-impure-callback", "zz :: set.map(s, idi_imp)", "zz :: set.map(s, idp_pure)"),
    s("for-each-in-pure", "list.for_each(l, fn x do end)", "zz :: map(l, pu x -> x end)"),
];

/// C05: shape faults on values handed out by the library (the payload of pop / get / last / find / dict.get, the
/// parameter of map / filter / fold callbacks), and on the library's own enum
pub const C05_STD: &[StdSnip] = &[
    s("pop-payload-absent-field", "case list.pop(lp) do\n Just v -> print(v.nope)\n else do end\nend", "case list.pop(lp) do\n Just v -> print(v.x)\n else do end\nend"),
    s("get-payload-absent-field", "case list.get(lp, 0) do\n Just v -> print(v.nope)\n else do end\nend", "case list.get(lp, 0) do\n Just v -> print(v.x)\n else do end\nend"),
    s("last-payload-absent-field", "case list.last(lp) do\n Just v -> print(v.nope)\n else do end\nend", "case list.last(lp) do\n Just v -> print(v.x)\n else do end\nend"),
    s("find-payload-absent-field", "case list.find(lp, pu v -> v.x == 1 end) do\n Just v -> print(v.nope)\n else do end\nend", "case list.find(lp, pu v -> v.x == 1 end) do\n Just v -> print(v.x)\n else do end\nend"),
    s("dict-get-payload-absent-field", "case dict.get(dp, 1) do\n Just v -> print(v.nope)\n else do end\nend", "case dict.get(dp, 1) do\n Just v -> print(v.x)\n else do end\nend"),
    s("pop-payload-tuple-index", "case list.pop(lt) do\n Just v -> print(v[2])\n else do end\nend", "case list.pop(lt) do\n Just v -> print(v[1])\n else do end\nend"),
    s("get-payload-tuple-index", "case list.get(lt, 0) do\n Just v -> print(v[2])\n else do end\nend", "case list.get(lt, 0) do\n Just v -> print(v[1])\n else do end\nend"),
    s("pop-payload-unknown-variant", "case list.pop(le) do\n Just v -> do\n  case v do\n   A q -> print(q) end\n   Nope -> print(0) end\n   else do end\n  end\n end\n else do end\nend", "case list.pop(le) do\n Just v -> do\n  case v do\n   A q -> print(q) end\n   B -> print(0) end\n   else do end\n  end\n end\n else do end\nend"),
    s("pop-payload-case-not-total", "case list.pop(le) do\n Just v -> do\n  case v do\n   A q -> print(q) end\n  end\n end\n else do end\nend", "case list.pop(le) do\n Just v -> do\n  case v do\n   A q -> print(q) end\n   B -> print(0) end\n  end\n end\n else do end\nend"),
    s("get-payload-case-not-total", "case list.get(le, 0) do\n Just v -> do\n  case v do\n   A q -> print(q) end\n  end\n end\n else do end\nend", "case list.get(le, 0) do\n Just v -> do\n  case v do\n   A q -> print(q) end\n   B -> print(0) end\n  end\n end\n else do end\nend"),
    s("map-parameter-absent-field", "w :: map(lp, pu v -> v.nope end)", "w :: map(lp, pu v -> v.x end)"),
    s("filter-parameter-absent-field", "w :: filter(lp, pu v -> v.nope == 1 end)", "w :: filter(lp, pu v -> v.x == 1 end)"),
    s("fold-parameter-absent-field", "w :: fold(lp, 0, pu v, acc -> acc + v.nope end)", "w :: fold(lp, 0, pu v, acc -> acc + v.x end)"),
    s("map-parameter-tuple-index", "w :: map(lt, pu v -> v[2] end)", "w :: map(lt, pu v -> v[1] end)"),
    s("maybe-unknown-variant", "case list.get(l, 0) do\n Some v -> print(v)\n else do end\nend", "case list.get(l, 0) do\n Just v -> print(v)\n else do end\nend"),
    s("maybe-case-not-total", "case list.get(l, 0) do\n Just v -> print(v) end\nend", "case list.get(l, 0) do\n Just v -> print(v) end\n None -> print(0) end\nend"),
    s("maybe-constructor-unknown", "w: Maybe(int) = Maybe.Some 1", "w: Maybe(int) = Maybe.Just 1"),
    s("dict-blob-absent-field", "print(d.nope)", "print(dict.len(d))"),
    s("list-element-missing-field", "list.push(lp, P2 { x: 1 })", "list.push(lp, P2 { x: 1, y: 2 })"),
    s("list-element-tuple-length", "list.push(lt, (1, 2, 3))", "list.push(lt, (1, 2))"),
];

fn indent(text: &str, n: usize) -> String {
    let pad = " ".repeat(n);
    text.lines().map(|l| format!("{}{}\n", pad, l)).collect()
}

/// (context name, program text) for one snippet body
fn contexts(body: &str, pure: bool) -> Vec<(&'static str, String)> {
    let mut v = Vec::new();
    if pure {
        let b = format!("{}{}", PURE_LOCALS, body);
        v.push(("pu-global-function", format!("{}pf :: pu q: int -> int\n{}    q\nend\nstart :: fn do\n    print(pf(1))\nend\n", TOPS, indent(&b, 4))));
        v.push(("pu-closure", format!("{}start :: fn do\n    pc :: pu q: int -> int\n{}        q\n    end\n    print(pc(1))\nend\n", TOPS, indent(&b, 8))));
        v.push(("pu-closure-in-pu-function", format!("{}pf :: pu q: int -> int\n    pc :: pu r: int -> int\n{}        r\n    end\n    pc(q)\nend\nstart :: fn do\n    print(pf(1))\nend\n", TOPS, indent(&b, 8))));
        v.push(("branch-in-pu-function", format!("{}pf :: pu q: int -> int\n    if q > 0 do\n{}    end\n    q\nend\nstart :: fn do\n    print(pf(1))\nend\n", TOPS, indent(&b, 8))));
    } else {
        let b = format!("{}{}", IMPURE_LOCALS, body);
        v.push(("start-body", format!("{}start :: fn do\n{}end\n", TOPS, indent(&b, 4))));
        v.push(("called-function", format!("{}work :: fn do\n{}end\nstart :: fn do\n    work()\nend\n", TOPS, indent(&b, 4))));
        v.push(("uncalled-function", format!("{}work :: fn do\n{}end\nstart :: fn do\n    print(0)\nend\n", TOPS, indent(&b, 4))));
        v.push(("branch", format!("{}start :: fn do\n    if true do\n{}    end\nend\n", TOPS, indent(&b, 8))));
        v.push(("loop-body", format!("{}start :: fn do\n    loop do\n{}        break\n    end\nend\n", TOPS, indent(&b, 8))));
        v.push(("closure", format!("{}start :: fn do\n    cl :: fn do\n{}    end\n    cl()\nend\n", TOPS, indent(&b, 8))));
        v.push(("case-else-arm", format!("{}start :: fn do\n    case E2.B do\n        A q -> do end\n        else do\n{}        end\n    end\nend\n", TOPS, indent(&b, 12))));
    }
    v
}

pub fn judge_std(fault_text: &str, twin_text: &str) -> (Option<(String, String)>, bool, String) {
    let to = compile(&one_file(twin_text), MAIN, false);
    let control_ok = to.is_ok();
    let fo = compile(&one_file(fault_text), MAIN, false);
    let (fail, outcome) = match &fo {
        Outcome::Ok(_) => (Some(("accepted-fault".to_string(), format!("the compiler accepted{}:\n{}", if control_ok { "" } else { " (and rejected the permitted twin)" }, fault_text))), "accepted".to_string()),
        Outcome::Panic { msg, .. } => (Some(("panic-on-fault".to_string(), format!("panic {} on:\n{}", msg, fault_text))), "panic".to_string()),
        Outcome::Err { errs, bytes_written } => {
            if errs.is_empty() {
                (Some(("rejected-without-error".to_string(), fault_text.to_string())), "empty-error-list".to_string())
            } else if *bytes_written > 0 {
                (Some(("lua-written-on-error".to_string(), format!("{} bytes of Lua were written although compilation failed:\n{}", bytes_written, fault_text))), "bytes-written".to_string())
            } else {
                (None, format!("rejected:{}", errs[0].kind))
            }
        }
    };
    (fail, control_ok, outcome)
}

/// plant every snippet of `snips` in every context; `pure` selects the in-pure contexts
pub fn run_std(st: &mut Stats, snips: &'static [StdSnip], pure: bool, engine: &str) {
    let mut cases: Vec<(usize, &'static str, String, String)> = Vec::new();
    for (si, sn) in snips.iter().enumerate() {
        let f = contexts(sn.fault, pure);
        let t = contexts(sn.twin, pure);
        for ((cn, ft), (_, tt)) in f.into_iter().zip(t.into_iter()) {
            cases.push((si, cn, ft, tt));
        }
    }
    let engine = engine.to_string();
    let accs = crate::pool::par_items(&cases, 4, |_| Stats::new(), |acc, _, (si, cn, ft, tt)| {
        let sn = &snips[*si];
        let (fail, control_ok, outcome) = judge_std(ft, tt);
        acc.evaluations += 2;
        if !control_ok && fail.is_none() {
            acc.count("std:control_rejected(case not counted)", 1);
            acc.count(&format!("std:control_rejected:{}@{}", sn.id, cn), 1);
            if acc.samples.len() < 3 {
                acc.sample(json!({"control_rejected": tt}));
            }
            return;
        }
        if outcome == "rejected:SyntaxError" {
            acc.count("fault_is_syntax_error(machinery)", 1);
            acc.count(&format!("syntax_error:std:{}", sn.id), 1);
            return;
        }
        acc.nontrivial(fnv(ft.as_bytes()));
        acc.outcome(&outcome);
        if let Some((sig, detail)) = fail {
            let mut files = serde_json::Map::new();
            files.insert(MAIN.to_string(), json!(ft));
            acc.fail(Failure {
                sig,
                preds: vec![format!("snippet:std:{}", sn.id)],
                detail,
                case: json!({"engine": engine, "snippet": format!("std:{}", sn.id), "context": cn, "files": files, "twin": tt, "no_std": false}),
                size: ft.len(),
            });
        }
    });
    st.merge(Stats::merge_all(accs));
    st.count("std_snippets", snips.len() as u64);
}
