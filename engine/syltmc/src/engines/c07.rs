//! C07 — totality: for every input the compiler terminates with Ok or a non-empty list of
//! errors that all render; never a panic, abort or hang. Inputs are enumerated exhaustively
//! (short token sequences, sequences in scaffold holes, every distance-1 edit of the corpus,
//! project shapes, nesting ladders) and run in supervised worker *processes*: a worker that
//! dies (stack overflow, abort) or stalls is an observation about the case it was on.

use crate::harness::*;
use crate::report::{Failure, Run, Stats};
use serde_json::json;
use std::io::{Read, Write};
use std::path::PathBuf;
use std::process::{Command, Stdio};
use std::sync::atomic::{AtomicU64, Ordering};
use std::time::{Duration, Instant};

/// one representative text per token kind, plus error / non-ASCII / conflict-marker texts
pub const TOKENS: &[&str] = &[
    "x", "Abc", "void", "bool", "int", "float", "str", "\"s\"", "1.5", "1", "nil", "true", "if", "elif", "else",
    "case", "is", "break", "continue", "in", "loop", "blob", "externblob", "enum", "ret", "+", "-", "*", "/",
    "+=", "-=", "*=", "/=", "#", ":", "::", ":=", "=", "==", "!=", "<=>", "<!>", "(", ")", "[", "]", "{", "}",
    "do", "end", ">", ">=", "<", "<=", "fn", "pu", "and", "or", "not", "!", "?", "|", "'", ",", ".", "->", "\n",
    "use", "from", "as", "external", "<<<<<<<", ">>>>>>>", "// c", "$", "é", "self", "start", "_", "\"a\nb\"",
    "9223372036854775808", "1e999", "\"éééé€€\n\"", "\"ü\n\nb\"", "\r\n",
];

/// the subset used for corpus replacement/insertion edits
pub const CRITICAL: &[&str] = &["x", "Abc", "1", "\"s\"", "(", ")", "{", "}", "do", "end", "fn", ":", "::", ",", "\n", "->", "'", ".", "blob", "if", "else", "case", "use", "=", "+", "$", "self", "ret"];

const SCAFFOLD: &[(&str, &str)] = &[
    ("top-level", "print: fn *X -> void : external\n{}\nstart :: fn do\n    print(1)\nend\n"),
    ("statement", "print: fn *X -> void : external\nstart :: fn do\n    {}\n    print(1)\nend\n"),
    ("operand", "print: fn *X -> void : external\nstart :: fn do\n    x := 1 + {}\n    print(x)\nend\n"),
    ("argument", "print: fn *X -> void : external\nstart :: fn do\n    print({})\nend\n"),
    ("blob-field", "print: fn *X -> void : external\nP :: blob {{ a: int }}\nstart :: fn do\n    p := P {{ a: {} }}\n    print(p.a)\nend\n"),
    ("case-arm", "print: fn *X -> void : external\nE :: enum\n    A int,\n    B,\nend\nstart :: fn do\n    case E.B do\n        A v -> {} end\n        else do end\n    end\nend\n"),
    ("type-annotation", "print: fn *X -> void : external\nstart :: fn do\n    x: {} = 1\n    print(x)\nend\n"),
    ("blob-declaration", "print: fn *X -> void : external\nP :: blob {{ a: {} }}\nstart :: fn do\n    print(1)\nend\n"),
    ("function-header", "print: fn *X -> void : external\nf :: fn {} do\n    print(1)\nend\nstart :: fn do\n    print(1)\nend\n"),
    ("inside-function-statement-pair", "print: fn *X -> void : external\nT :: blob {{ a: int }}\nstart :: fn do\n    {}\nend\n"),
];

/// short statements over untyped variables: sequences of them drive the inference engine through
/// unusual unification orders (recursive types, functions applied to themselves, fields of unknowns)
pub const STMT_MENU: &[&str] = &[
    "x := y", "x = y", "y = x", "x = (x, 1)", "x = (y, x)", "x = [x]", "x = [y]", "y = (x,)", "x = x + y", "x + x", "x + y", "-x", "not x",
    "x == y", "x < y", "x <= (x, 1)", "x.f", "x.f = y", "x.f = x", "x[0]", "x[0] == y", "x()", "x(x)", "x = x(y)", "y = fn -> x end", "x = fn a -> a end",
    "x = fn a -> x end", "x(fn a -> a(a) end)", "z := x", "z := (x, y)", "x = z", "ret x", "ret (x, x)", "if x do y = x end", "loop x do break end",
    "case x do A a -> y = a end else end end", "x = P { a: x }", "x = P { a: y }.a", "x = E.A x", "x = E.A y", "x <=> y", "x = x / y", "x = (x, y) * (y, x)",
    "x += y", "x += (x, 1)", "x -> y()", "y' x",
    "x == (y,)", "y[0] == z", "z == ((x,),)", "x == z", "z := y", "z = (x,)", "y == [z]", "z.f == x", "x = z.f", "z == fn a -> x end",
];

/// unification puzzles: three independently inferred parameters and a sequence of equalities between them and
/// one-level constructions of them; every order of merging type variables, including the cyclic ones, within the bound
const UNIFY_VARS: [&str; 3] = ["a", "b", "p"];
const UNIFY_FORMS: [(&str, &str); 6] = [("", " == {}"), ("", " == ({},)"), ("[0]", " == {}"), ("", " == (({},),)"), ("", " == [{}]"), (".f", " == {}")];

fn unify_atoms(forms: usize) -> Vec<String> {
    let mut v = Vec::new();
    for (fi, (lhs_suffix, rhs)) in UNIFY_FORMS.iter().take(forms).enumerate() {
        for x in UNIFY_VARS {
            for y in UNIFY_VARS {
                if fi == 0 && x == y {
                    continue;
                }
                v.push(format!("{}{}{}", x, lhs_suffix, rhs.replace("{}", y)));
            }
        }
    }
    v
}

fn unify_program(seq: &[&String]) -> String {
    let mut s = String::from("print: fn *X -> void : external\nf :: fn a, b, p do\n");
    for st in seq {
        s.push_str("    ");
        s.push_str(st);
        s.push('\n');
    }
    s.push_str("end\nstart :: fn do\n    print(1)\nend\n");
    s
}

fn stmt_program(seq: &[&str]) -> String {
    let mut s = String::from("P :: blob(*T) { a: *T }\nE :: enum(*T)\n    A *T,\n    B,\nend\nf :: fn y do\n    x := y\n");
    for st in seq {
        s.push_str("    ");
        s.push_str(st);
        s.push('\n');
    }
    s.push_str("end\nstart :: fn do\nend\n");
    s
}

fn bracket_inputs() -> Vec<(String, String)> {
    // every bracket construct x contents x a line break in each gap, in four statement positions
    let constructs: &[(&str, &str, &str)] = &[("tuple", "(", ")"), ("list", "[", "]"), ("call", "id(", ")"), ("blob", "P {", "}"), ("grouping", "(", ")"), ("index", "(1, 2)[", "]"), ("prime-in-parens", "(id' ", ")"), ("arrow-call", "(1 -> two(", "))")];
    let contents: &[&[&str]] = &[&[], &["1"], &["1", ","], &["1", ",", "2"], &["1", ",", "2", ","], &[","], &["a", ":", "1"], &["a", ":", "1", ","]];
    let positions: &[(&str, &str, &str)] = &[("definition", "    x := ", "\n"), ("ret", "    ret ", "\n"), ("statement", "    ", "\n"), ("argument", "    id(", ")\n"), ("operand", "    y := 1 + ", "\n")];
    let hdr = "P :: blob { a: int }\nid :: fn q -> q end\ntwo :: fn a, b -> a end\n";
    let mut v = Vec::new();
    for (cn, open, close) in constructs {
        for cont in contents {
            let mut toks: Vec<&str> = vec![open];
            toks.extend(cont.iter());
            toks.push(close);
            // a line break (or none) in each gap: bit mask over gaps
            let gaps = toks.len() - 1;
            for mask in 0..(1u32 << gaps) {
                let mut text = String::new();
                for (i, t) in toks.iter().enumerate() {
                    text.push_str(t);
                    if i < gaps {
                        text.push_str(if (mask >> i) & 1 == 1 { "\n" } else { " " });
                    }
                }
                for (pn, before, after) in positions {
                    v.push((format!("brackets {} {:?} breaks={:b} as {}", cn, cont, mask, pn), format!("{}start :: fn do\n{}{}{}end\n", hdr, before, text, after)));
                }
            }
        }
    }
    v
}

/// two declared shapes meet: every ordered pair of small types (blobs over the field subsets of {x, y, z}, one with a
/// field of another type; enums over the variant subsets of {P, Q int, R}; tuples, functions, lists, scalars), a value of
/// the one used where the other is expected, in every unification position (argument, both directions of assignment,
/// comparison, list element, branch values, annotated definition, declared result, field of a third blob)
fn type_pair_inputs() -> Vec<(String, String)> {
    // (declaration with {N} for the type name, annotation, value)
    let mut items: Vec<(String, String, String)> = Vec::new();
    let fields = [("x", "int", "1"), ("y", "int", "2"), ("z", "int", "3")];
    for mask in 1u32..8 {
        let fs: Vec<_> = fields.iter().enumerate().filter(|(i, _)| (mask >> i) & 1 == 1).map(|(_, f)| *f).collect();
        let decl = format!("{{N}} :: blob {{ {} }}\n", fs.iter().map(|(n, t, _)| format!("{}: {}", n, t)).collect::<Vec<_>>().join(", "));
        let value = format!("{{N}} {{ {} }}", fs.iter().map(|(n, _, v)| format!("{}: {}", n, v)).collect::<Vec<_>>().join(", "));
        items.push((decl, "{N}".into(), value));
    }
    items.push(("{N} :: blob { x: str }\n".into(), "{N}".into(), "{N} { x: \"s\" }".into()));
    items.push(("{N} :: blob(*T) { x: *T }\n".into(), "{N}(int)".into(), "{N} { x: 1 }".into()));
    let variants = [("P", "P", "P"), ("Q", "Q int", "Q 1"), ("R", "R", "R")];
    for mask in 1u32..8 {
        let vs: Vec<_> = variants.iter().enumerate().filter(|(i, _)| (mask >> i) & 1 == 1).map(|(_, v)| *v).collect();
        let decl = format!("{{N}} :: enum\n{}end\n", vs.iter().map(|(_, d, _)| format!("    {},\n", d)).collect::<String>());
        items.push((decl, "{N}".into(), format!("{{N}}.{}", vs[0].2)));
    }
    for (ann, value) in [("(int,)", "(1,)"), ("(int, int)", "(1, 2)"), ("(int, str)", "(1, \"a\")"), ("fn -> int", "fn -> 1 end"), ("fn int -> int", "fn q: int -> q end"),
        ("fn int, int -> int", "fn q: int, r: int -> q end"), ("[int]", "[1]"), ("[str]", "[\"a\"]"), ("int", "1"), ("str", "\"a\"")] {
        items.push((String::new(), ann.into(), value.into()));
    }
    let positions: &[(&str, &str)] = &[
        ("argument", "    take(b)\n"), ("assign", "    a = b\n"), ("assign-back", "    b = a\n"), ("compare", "    print(a == b)\n"), ("list", "    l := [a, b]\n"),
        ("branches", "    c := if true do a else b end\n"), ("annotated", "    q: {A} = b\n"), ("result", "    give :: fn -> {A}\n        ret b\n    end\n"),
        ("field", "    h := Holder { v: b }\n"), ("field-assign", "    h := Holder { v: a }\n    h.v = b\n"),
    ];
    let mut v = Vec::new();
    for (i, (da, aa, va)) in items.iter().enumerate() {
        for (j, (db, ab, vb)) in items.iter().enumerate() {
            let (na, nb) = ("Ta", "Tb");
            let aa = aa.replace("{N}", na);
            let hdr = format!("print: fn *X -> void : external\n{}{}Holder :: blob {{ v: {} }}\ntake :: fn p: {} do\nend\n", da.replace("{N}", na), db.replace("{N}", nb), aa, aa);
            for (pn, text) in positions {
                let body = format!("    a := {}\n    b := {}\n{}", va.replace("{N}", na), vb.replace("{N}", nb), text.replace("{A}", &aa));
                let _ = ab;
                v.push((format!("type-pair {}x{} at {}", i, j, pn), format!("{}start :: fn do\n{}end\n", hdr, body)));
            }
        }
    }
    v
}

fn nest_inputs() -> Vec<(String, String)> {
    // block-forming constructs nested on one line and across lines
    let forms: &[(&str, &str, &str)] = &[
        ("if", "if true do ", " end"), ("if-else", "if true do else do ", " end"), ("loop", "loop false do ", " end"), ("do", "do ", " end"),
        ("fn", "q :: fn do ", " end"), ("case", "case E.B do B -> ", " end else end end"), ("case-else", "case E.B do else ", " end end"), ("paren-if", "z := (if true do ", " 1 else 2 end)"),
    ];
    let leaves: &[&str] = &["", "x := 1", "break", "ret", "<!>", "1", "// c"];
    let mut v = Vec::new();
    let hdr = "E :: enum\n    A,\n    B,\nend\n";
    for (n1, o1, c1) in forms {
        for leaf in leaves {
            for sep in [" ", "\n"] {
                let body = format!("{}{}{}", o1, leaf, c1).replace(' ', sep).replace("\n\n", "\n");
                let _ = body;
                v.push((format!("nest {} [{}] sep={:?}", n1, leaf, sep), format!("{}start :: fn do\n    {}{}{}\nend\n", hdr, o1, leaf, c1)));
            }
            for (n2, o2, c2) in forms {
                v.push((format!("nest {}>{} [{}]", n1, n2, leaf), format!("{}start :: fn do\n    {}{}{}{}{}\nend\n", hdr, o1, o2, leaf, c2, c1)));
                v.push((format!("nest {}>{} [{}] multi-line", n1, n2, leaf), format!("{}start :: fn do\n    {}\n{}\n{}\n{}\n{}\nend\n", hdr, o1.trim_end(), o2.trim_end(), leaf, c2.trim_start(), c1.trim_start())));
                for (n3, o3, c3) in forms.iter().take(4) {
                    v.push((format!("nest {}>{}>{} [{}]", n1, n2, n3, leaf), format!("{}start :: fn do\n    {}{}{}{}{}{}{}\nend\n", hdr, o1, o2, o3, leaf, c3, c2, c1)));
                }
            }
        }
    }
    v
}

#[derive(Clone, Debug)]
pub enum Part {
    Seq { len: usize, nl: bool },
    Hole { len: usize },
    Corpus,
    Projects,
    Ladders,
}

fn corpus_seeds(max: usize) -> Vec<(String, String, bool)> {
    let mut files = Vec::new();
    crate::util::collect_sy(std::path::Path::new("/repo/tests"), &mut files);
    crate::util::collect_sy(std::path::Path::new("/repo/std"), &mut files);
    let mut v: Vec<(String, String, bool)> = files
        .iter()
        .filter_map(|p| std::fs::read_to_string(p).ok().map(|t| (p.display().to_string(), t)))
        .map(|(p, t)| {
            // programs that do not mention a std name compile without std (much faster)
            let needs_std = p.starts_with("/repo/tests");
            (p, t, needs_std)
        })
        .collect();
    v.sort_by_key(|x| (x.1.len(), x.0.clone()));
    v.truncate(max);
    v
}

/// byte ranges of the tokens of a text (lexed with the real tokenizer; only used to choose edit points)
fn token_ranges(text: &str) -> Vec<(usize, usize)> {
    let toks = sylt_tokenizer::string_to_tokens(0, text);
    // recompute byte ranges from line/col
    let mut rows: Vec<Vec<usize>> = vec![Vec::new()];
    for (b, c) in text.char_indices() {
        rows.last_mut().unwrap().push(b);
        if c == '\n' {
            rows.push(Vec::new());
        }
    }
    rows.last_mut().unwrap().push(text.len());
    let mut out = Vec::new();
    let mut prev = 0usize;
    for t in toks {
        let s = crate::harness::sp_of(&t.span);
        let start = rows.get(s.line_start.wrapping_sub(1)).and_then(|r| r.get(s.col_start.wrapping_sub(1))).copied();
        if let Some(st) = start {
            if st >= prev {
                out.push(st);
                prev = st;
            }
        }
    }
    let mut ranges = Vec::new();
    for i in 0..out.len() {
        let end = if i + 1 < out.len() { out[i + 1] } else { text.len() };
        ranges.push((out[i], end));
    }
    ranges
}

pub struct Space {
    pub parts: Vec<(String, u64)>,
    seeds: Vec<(String, String, bool)>,
    seed_edits: Vec<(usize, Vec<(usize, usize)>, u64)>,
    projects: Vec<(String, Files, bool)>,
    ladders: Vec<(String, String)>,
    nests: Vec<(String, String)>,
    stmt_len: usize,
    unify: Vec<String>,
    thorough: bool,
}

fn project_shapes() -> Vec<(String, Files, bool)> {
    let hdr = "print: fn *X -> void : external\n";
    let start = "start :: fn do\n    print(1)\nend\n";
    let mut v = Vec::new();
    let mut add = |id: &str, fs: &[(&str, String)]| {
        for no_std in [true, false] {
            let mut m = Files::new();
            for (p, t) in fs {
                m.insert(p.to_string(), t.clone());
            }
            v.push((format!("{}{}", id, if no_std { "" } else { "+std" }), m, no_std));
        }
    };
    add("missing-import", &[(MAIN, format!("use nofile\n{}{}", hdr, start))]);
    add("missing-from-import", &[(MAIN, format!("from nofile use x\n{}{}", hdr, start))]);
    add("import-dir-without-exports", &[(MAIN, format!("use sub/\n{}{}", hdr, start))]);
    add("import-dir-with-exports", &[(MAIN, format!("use sub/\n{}{}", hdr, start)), ("/p/sub/exports.sy", "x :: 1\n".to_string())]);
    add("cycle-1", &[(MAIN, format!("use main\n{}{}", hdr, start))]);
    add("cycle-2", &[(MAIN, format!("use a\n{}{}", hdr, start)), ("/p/a.sy", "use main\nx :: 1\n".to_string())]);
    add("cycle-3", &[(MAIN, format!("use a\n{}{}", hdr, start)), ("/p/a.sy", "use b\nx :: 1\n".to_string()), ("/p/b.sy", "use a\nuse main\ny :: 2\n".to_string())]);
    add("cyclic-values", &[(MAIN, format!("use a\n{}q :: a.x + 1\n{}", hdr, start)), ("/p/a.sy", "use main\nx :: main.q + 1\n".to_string())]);
    add("same-stem", &[(MAIN, format!("use a\nuse sub/a\n{}{}", hdr, start)), ("/p/a.sy", "x :: 1\n".to_string()), ("/p/sub/a.sy", "x :: 2\n".to_string())]);
    add("same-use-twice", &[(MAIN, format!("use a\nuse a\n{}{}", hdr, start)), ("/p/a.sy", "x :: 1\n".to_string())]);
    add("use-as-twice", &[(MAIN, format!("use a as b\nuse a as c\n{}{}", hdr, start)), ("/p/a.sy", "x :: 1\n".to_string())]);
    add("alias-collides-with-global", &[(MAIN, format!("use a\n{}a :: 1\n{}", hdr, start)), ("/p/a.sy", "x :: 1\n".to_string())]);
    add("from-use-missing-name", &[(MAIN, format!("from a use nope\n{}{}", hdr, start)), ("/p/a.sy", "x :: 1\n".to_string())]);
    add("from-use-collision", &[(MAIN, format!("from a use x\nfrom b use x\n{}{}", hdr, start)), ("/p/a.sy", "x :: 1\n".to_string()), ("/p/b.sy", "x :: 2\n".to_string())]);
    add("use-std-named-file", &[(MAIN, format!("use list\n{}{}", hdr, start)), ("/p/list.sy", "x :: 1\n".to_string())]);
    add("use-maybe-again", &[(MAIN, format!("use maybe\n{}{}", hdr, start))]);
    add("empty-main", &[(MAIN, String::new())]);
    add("only-newlines", &[(MAIN, "\n\n\n".to_string())]);
    add("only-comment", &[(MAIN, "// nothing".to_string())]);
    add("main-without-start", &[(MAIN, format!("{}x :: 1\n", hdr))]);
    add("start-in-import-only", &[(MAIN, "use a\n".to_string()), ("/p/a.sy", format!("{}{}", hdr, start))]);
    add("start-only-as-import-alias", &[(MAIN, format!("from a use run as start\n{}", hdr)), ("/p/a.sy", format!("{}run :: fn do\n    print(1)\nend\n", hdr))]);
    add("start-only-as-from-import", &[(MAIN, format!("from a use start\n{}", hdr)), ("/p/a.sy", format!("{}{}", hdr, start))]);
    add("start-is-a-namespace", &[(MAIN, format!("use start\n{}", hdr)), ("/p/start.sy", "x :: 1\n".to_string())]);
    add("start-is-a-namespace-alias", &[(MAIN, format!("use a as start\n{}", hdr)), ("/p/a.sy", "x :: 1\n".to_string())]);
    add("start-is-an-alias-of-a-value", &[(MAIN, format!("from a use x as start\n{}", hdr)), ("/p/a.sy", "x :: 1\n".to_string())]);
    add("start-is-a-blob", &[(MAIN, format!("{}Start :: blob {{ a: int }}\nstart :: Start {{ a: 1 }}\n", hdr))]);
    add("start-is-external", &[(MAIN, format!("{}start: fn -> void : external\n", hdr))]);
    add("imported-file-empty", &[(MAIN, format!("use a\n{}{}", hdr, start)), ("/p/a.sy", String::new())]);
    add("imported-file-syntax-error", &[(MAIN, format!("use a\n{}{}", hdr, start)), ("/p/a.sy", "x := := 1\n".to_string())]);
    add("imported-file-conflict-marker", &[(MAIN, format!("use a\n{}{}", hdr, start)), ("/p/a.sy", "<<<<<<< HEAD\nx :: 1\n=======\n>>>>>>> other\n".to_string())]);
    add("namespace-as-value", &[(MAIN, format!("use a\n{}start :: fn do\n    print(a)\nend\n", hdr)), ("/p/a.sy", "x :: 1\n".to_string())]);
    add("namespace-field-of-namespace", &[(MAIN, format!("use a\n{}start :: fn do\n    print(a.b.x)\nend\n", hdr)), ("/p/a.sy", "use b\n".to_string()), ("/p/b.sy", "x :: 1\n".to_string())]);
    add("blob-from-namespace-missing", &[(MAIN, format!("use a\n{}start :: fn do\n    q :: a.Nope {{ x: 1 }}\nend\n", hdr)), ("/p/a.sy", "x :: 1\n".to_string())]);
    add("type-in-function-shadowing-global", &[(MAIN, format!("{}T :: blob {{ a: int }}\nstart :: fn do\n    T :: blob {{ a: int }}\nend\n", hdr))]);
    add("enum-in-function", &[(MAIN, format!("{}start :: fn do\n    E :: enum\n        A,\n    end\nend\n", hdr))]);
    add("external-in-function", &[(MAIN, format!("{}start :: fn do\n    q: int : external\nend\n", hdr))]);
    add("use-in-function", &[(MAIN, format!("{}start :: fn do\n    use a\nend\n", hdr)), ("/p/a.sy", "x :: 1\n".to_string())]);
    // every import graph over three files (each file imports any subset of {main, a, b}, itself included) x every
    // subset of the files broken by a syntax error: the loader must terminate on all of them
    for graph in 0..512u32 {
        for broken in 0..8u32 {
            let names = ["main", "a", "b"];
            let mut m = Files::new();
            for (fi, n) in names.iter().enumerate() {
                let mut text = String::new();
                for (ti, t) in names.iter().enumerate() {
                    if graph >> (fi * 3 + ti) & 1 == 1 {
                        text.push_str(&format!("use {}\n", t));
                    }
                }
                if fi == 0 {
                    text.push_str(hdr);
                }
                text.push_str(&format!("v{} :: {}\n", n, fi));
                if broken >> fi & 1 == 1 {
                    text.push_str("bad := := 1\n");
                }
                if fi == 0 {
                    text.push_str(start);
                }
                m.insert(format!("/p/{}.sy", n), text);
            }
            v.push((format!("import-graph {:09b} broken {:03b}", graph, broken), m, true));
        }
    }
    for odd in ["/", "", "main.sy", "./main.sy", "/p/../p/main.sy", "/p/", "nodir/main.sy"] {
        let mut m = Files::new();
        m.insert(MAIN.to_string(), format!("{}{}", hdr, start));
        m.insert("main.sy".to_string(), format!("{}{}", hdr, start));
        m.insert("./main.sy".to_string(), format!("{}{}", hdr, start));
        m.insert("\u{0}main-path".to_string(), odd.to_string());
        v.push((format!("main-path {:?}", odd), m, true));
    }
    v
}

fn ladder_inputs(max_depth: usize) -> Vec<(String, String)> {
    let hdr = "print: fn *X -> void : external\nid :: fn q -> q end\n";
    let wrap = |body: String| format!("{}start :: fn do\n    x := {}\n    print(1)\nend\n", hdr, body);
    let mut v = Vec::new();
    let mut d = 1;
    while d <= max_depth {
        v.push((format!("parens-{}", d), wrap(format!("{}1{}", "(".repeat(d), ")".repeat(d)))));
        v.push((format!("lists-{}", d), wrap(format!("{}1{}", "[".repeat(d), "]".repeat(d)))));
        v.push((format!("tuples-{}", d), wrap(format!("{}1{}", "(".repeat(d), ",)".repeat(d)))));
        v.push((format!("unary-{}", d), wrap(format!("{}1", "-".repeat(d)))));
        v.push((format!("not-{}", d), wrap(format!("{}true", "not ".repeat(d)))));
        v.push((format!("calls-{}", d), wrap(format!("{}1{}", "id(".repeat(d), ")".repeat(d)))));
        v.push((format!("prime-calls-{}", d), wrap(format!("{}1", "id' ".repeat(d)))));
        v.push((format!("arrows-{}", d), wrap(format!("1{}", " -> id()".repeat(d)))));
        v.push((format!("binary-left-{}", d), wrap(format!("1{}", " + 1".repeat(d)))));
        v.push((format!("binary-right-{}", d), wrap(format!("{}1{}", "1 + (".repeat(d), ")".repeat(d)))));
        v.push((format!("if-{}", d), format!("{}start :: fn do\n{}    print(1)\n{}end\n", hdr, "    if true do\n".repeat(d), "    end\n".repeat(d))));
        v.push((format!("fn-{}", d), format!("{}start :: fn do\n{}    print(1)\n{}end\n", hdr, "    f :: fn do\n".repeat(d), "    end\n".repeat(d))));
        v.push((format!("do-{}", d), format!("{}start :: fn do\n{}    print(1)\n{}end\n", hdr, "    do\n".repeat(d), "    end\n".repeat(d))));
        v.push((format!("open-parens-{}", d), wrap("(".repeat(d))));
        v.push((format!("open-blocks-{}", d), format!("{}start :: fn do\n{}", hdr, "    if true do\n".repeat(d))));
        v.push((format!("type-nesting-{}", d), format!("{}start :: fn do\n    x: {}int{} = 1\nend\n", hdr, "[".repeat(d), "]".repeat(d))));
        d *= 2;
    }
    v
}

impl Space {
    pub fn new(thorough: bool) -> Space {
        let nt = TOKENS.len() as u64;
        let mut parts = Vec::new();
        let maxlen = if thorough { 4 } else { 3 };
        for len in 0..=maxlen {
            for nl in [false, true] {
                if len == 4 && nl {
                    continue;
                }
                parts.push((format!("seq:{}:{}", len, nl), nt.pow(len as u32)));
            }
        }
        let hole_len = if thorough { 3 } else { 2 };
        for len in 1..=hole_len {
            parts.push((format!("hole:{}", len), nt.pow(len as u32) * SCAFFOLD.len() as u64));
        }
        let seeds = corpus_seeds(if thorough { 10_000 } else { 60 });
        let mut seed_edits = Vec::new();
        let mut total_edits = 0u64;
        for (si, (_, text, _)) in seeds.iter().enumerate() {
            let ranges = token_ranges(text);
            let n = ranges.len() as u64;
            let nc = CRITICAL.len() as u64;
            // deletion n, replacement n*nc, insertion (n+1)*nc, swap n-1, truncation at every token n, truncation at every byte
            let bytes = text.char_indices().count() as u64;
            let count = n + n * nc + (n + 1) * nc + n.saturating_sub(1) + n + bytes;
            seed_edits.push((si, ranges, count));
            total_edits += count;
        }
        parts.push(("corpus".to_string(), total_edits));
        let projects = project_shapes();
        parts.push(("projects".to_string(), projects.len() as u64));
        let ladders = ladder_inputs(64);
        parts.push(("ladders".to_string(), ladders.len() as u64));
        let mut nests = nest_inputs();
        nests.extend(bracket_inputs());
        nests.extend(type_pair_inputs());
        parts.push(("nests".to_string(), nests.len() as u64));
        let stmt_len = if thorough { 4 } else { 2 };
        let nm = STMT_MENU.len() as u64;
        parts.push(("stmts".to_string(), (1..=stmt_len as u32).map(|l| nm.pow(l)).sum()));
        let unify = unify_atoms(if thorough { 6 } else { 4 });
        let nu = unify.len() as u64;
        parts.push(("unify".to_string(), (1..=4u32).map(|l| nu.pow(l)).sum()));
        Space { parts, seeds, seed_edits, projects, ladders, nests, stmt_len, unify, thorough }
    }

    pub fn total(&self) -> u64 {
        self.parts.iter().map(|p| p.1).sum()
    }

    /// decode global index -> (description, files, no_std)
    pub fn case(&self, mut i: u64) -> (String, Files, bool) {
        let _ = self.thorough;
        let nt = TOKENS.len() as u64;
        for (name, count) in &self.parts {
            if i >= *count {
                i -= *count;
                continue;
            }
            if let Some(rest) = name.strip_prefix("seq:") {
                let mut it = rest.split(':');
                let len: usize = it.next().unwrap().parse().unwrap();
                let nl = it.next().unwrap() == "true";
                let mut toks = Vec::new();
                let mut k = i;
                for _ in 0..len {
                    toks.push(TOKENS[(k % nt) as usize]);
                    k /= nt;
                }
                let mut text = toks.join(" ");
                if nl {
                    text.push('\n');
                }
                return (format!("{} {:?}", name, text), one_file(&text), true);
            }
            if let Some(rest) = name.strip_prefix("hole:") {
                let len: usize = rest.parse().unwrap();
                let hole = (i % SCAFFOLD.len() as u64) as usize;
                let mut k = i / SCAFFOLD.len() as u64;
                let mut toks = Vec::new();
                for _ in 0..len {
                    toks.push(TOKENS[(k % nt) as usize]);
                    k /= nt;
                }
                let text = SCAFFOLD[hole].1.replace("{{", "\u{1}").replace("}}", "\u{2}").replace("{}", &toks.join(" ")).replace('\u{1}', "{").replace('\u{2}', "}");
                return (format!("hole {} <- {:?}", SCAFFOLD[hole].0, toks.join(" ")), one_file(&text), true);
            }
            if name == "corpus" {
                for (si, ranges, count) in &self.seed_edits {
                    if i >= *count {
                        i -= *count;
                        continue;
                    }
                    let (path, text, needs_std) = &self.seeds[*si];
                    let n = ranges.len() as u64;
                    let nc = CRITICAL.len() as u64;
                    let mut k = i;
                    let (desc, edited) = if k < n {
                        let (s, e) = ranges[k as usize];
                        (format!("delete token #{}", k), format!("{}{}", &text[..s], &text[e..]))
                    } else if {
                        k -= n;
                        k < n * nc
                    } {
                        let (s, e) = ranges[(k / nc) as usize];
                        let r = CRITICAL[(k % nc) as usize];
                        // keep the whitespace that followed the token
                        let tok_end = s + text[s..e].trim_end_matches(|c| c == ' ' || c == '\t' || c == '\r').len();
                        (format!("replace token #{} by {:?}", k / nc, r), format!("{}{}{}", &text[..s], r, &text[tok_end.max(s)..]))
                    } else if {
                        k -= n * nc;
                        k < (n + 1) * nc
                    } {
                        let pos = if (k / nc) < n { ranges[(k / nc) as usize].0 } else { text.len() };
                        let r = CRITICAL[(k % nc) as usize];
                        (format!("insert {:?} before token #{}", r, k / nc), format!("{}{} {}", &text[..pos], r, &text[pos..]))
                    } else if {
                        k -= (n + 1) * nc;
                        k < n.saturating_sub(1)
                    } {
                        let (s1, e1) = ranges[k as usize];
                        let (s2, e2) = ranges[k as usize + 1];
                        (format!("swap tokens #{} and #{}", k, k + 1), format!("{}{}{}{}", &text[..s1], &text[s2..e2], &text[s1..e1], &text[e2..]))
                    } else if {
                        k -= n.saturating_sub(1);
                        k < n
                    } {
                        let (s, _) = ranges[k as usize];
                        (format!("truncate before token #{}", k), text[..s].to_string())
                    } else {
                        k -= n;
                        let b = text.char_indices().nth(k as usize).map(|x| x.0).unwrap_or(text.len());
                        (format!("truncate at char {}", k), text[..b].to_string())
                    };
                    // imports of the seed keep resolving relative to its real location
                    let mut files = Files::new();
                    files.insert(path.clone(), edited);
                    return (format!("corpus {} :: {}", path, desc), files, !*needs_std);
                }
                unreachable!();
            }
            if name == "projects" {
                let (id, files, no_std) = &self.projects[i as usize];
                return (format!("project {}", id), files.clone(), *no_std);
            }
            if name == "ladders" {
                let (id, text) = &self.ladders[i as usize];
                return (format!("ladder {}", id), one_file(text), true);
            }
            if name == "nests" {
                let (id, text) = &self.nests[i as usize];
                return (id.clone(), one_file(text), true);
            }
            if name == "unify" {
                let nu = self.unify.len() as u64;
                let mut len = 1u32;
                let mut k = i;
                while k >= nu.pow(len) {
                    k -= nu.pow(len);
                    len += 1;
                }
                let mut seq = Vec::new();
                for _ in 0..len {
                    seq.push(&self.unify[(k % nu) as usize]);
                    k /= nu;
                }
                return (format!("unify {:?}", seq), one_file(&unify_program(&seq)), true);
            }
            if name == "stmts" {
                let nm = STMT_MENU.len() as u64;
                let mut len = 1u32;
                let mut k = i;
                while k >= nm.pow(len) {
                    k -= nm.pow(len);
                    len += 1;
                }
                let _ = self.stmt_len;
                let mut seq = Vec::new();
                for _ in 0..len {
                    seq.push(STMT_MENU[(k % nm) as usize]);
                    k /= nm;
                }
                return (format!("stmts {:?}", seq), one_file(&stmt_program(&seq)), true);
            }
        }
        panic!("index out of range");
    }
}

/// the judged observation for one input, in-process part (panic / shape / rendering)
pub fn judge_inprocess(files: &Files, no_std: bool, scratch: Option<&std::path::Path>) -> Option<(String, String)> {
    let main = if let Some(p) = files.get("\u{0}main-path") {
        p.clone()
    } else if files.contains_key(MAIN) {
        MAIN.to_string()
    } else {
        files.keys().next().unwrap().clone()
    };
    // reader: in-memory first, then the real file system (corpus seeds import their neighbours)
    let mut args = sylt::Args::default();
    args.args = vec![main.clone()];
    args.no_std = no_std;
    let reader = |p: &std::path::Path| -> Result<String, sylt_common::Error> {
        let key = p.display().to_string();
        match files.get(&key) {
            Some(s) => Ok(s.clone()),
            None => std::fs::read_to_string(p).map_err(|_| sylt_common::Error::FileNotFound(p.to_path_buf())),
        }
    };
    let mut out = Vec::new();
    let res = std::panic::catch_unwind(std::panic::AssertUnwindSafe(|| sylt::compile_with_reader_to_writer(&args, reader, &mut out)));
    match res {
        Err(p) => {
            let loc = LAST_PANIC_LOC.with(|c| c.borrow().clone());
            Some(("panic".into(), format!("{} @ {}", panic_text(&p), loc)))
        }
        Ok(Ok(())) => None,
        Ok(Err(errs)) => {
            if errs.is_empty() {
                return Some(("empty-error-list".into(), "compilation failed with an empty list of errors".into()));
            }
            // rendering with the sources absent (in-memory paths) ...
            for e in &errs {
                let r = std::panic::catch_unwind(std::panic::AssertUnwindSafe(|| format!("{}", e)));
                match r {
                    Err(p) => return Some(("render-panic".into(), format!("rendering {:?} panicked: {}", e, panic_text(&p)))),
                    Ok(t) if t.is_empty() => return Some(("render-empty".into(), format!("{:?} renders to nothing", e))),
                    Ok(_) => {}
                }
            }
            // ... and present: materialise /p/ files under the scratch root and re-point the errors
            if let Some(root) = scratch {
                if files.keys().all(|k| k.starts_with("/p/")) {
                    for (k, v) in files {
                        let dest = root.join(k.trim_start_matches('/'));
                        if let Some(par) = dest.parent() {
                            let _ = std::fs::create_dir_all(par);
                        }
                        let _ = std::fs::write(&dest, v);
                    }
                    for e in &errs {
                        let moved = repoint(e, root);
                        let r = std::panic::catch_unwind(std::panic::AssertUnwindSafe(|| format!("{}", moved)));
                        if let Err(p) = r {
                            return Some(("render-panic".into(), format!("rendering {:?} with its source on disk panicked: {}", e, panic_text(&p))));
                        }
                    }
                }
            }
            None
        }
    }
}

fn repoint(e: &sylt_common::Error, root: &std::path::Path) -> sylt_common::Error {
    use sylt_common::{Error as E, FileOrLib as F};
    let mv = |f: &F| match f {
        F::File(p) => F::File(root.join(p.display().to_string().trim_start_matches('/'))),
        other => other.clone(),
    };
    match e {
        E::GitConflictError { file, span } => E::GitConflictError { file: mv(file), span: *span },
        E::SyntaxError { file, span, message } => E::SyntaxError { file: mv(file), span: *span, message: message.clone() },
        E::CompileError { file, span, message, helpers } => E::CompileError {
            file: mv(file),
            span: *span,
            message: message.clone(),
            helpers: helpers.iter().map(|h| sylt_common::error::Helper { at: h.at.as_ref().map(|(f, s)| (mv(f), *s)), message: h.message.clone() }).collect(),
        },
        E::TypeError { kind, file, span, message, helpers } => E::TypeError {
            kind: kind.clone(),
            file: mv(file),
            span: *span,
            message: message.clone(),
            helpers: helpers.iter().map(|h| sylt_common::error::Helper { at: h.at.as_ref().map(|(f, s)| (mv(f), *s)), message: h.message.clone() }).collect(),
        },
        other => other.clone(),
    }
}

/// after this many process deaths / hangs the exploration stops early (reported as not exhaustive)
const CRASH_CAP: u64 = 6;
static CRASHES: AtomicU64 = AtomicU64::new(0);

fn scratch_root() -> PathBuf {
    let base = if std::path::Path::new("/dev/shm").is_dir() { PathBuf::from("/dev/shm") } else { crate::report::verif_root().join("scratch") };
    base.join(format!("syltmc-c07-{}", std::process::id()))
}

/// worker process: handles indices start, start+stride, ... < end; protocol on stdout:
/// 8-byte little-endian index before each case; failures as length-prefixed JSON after 0xFFFF_FFFF_FFFF_FFFF
pub fn worker(args: &[String]) -> i32 {
    let thorough = args[0] == "thorough";
    let start: u64 = args[1].parse().unwrap();
    let stride: u64 = args[2].parse().unwrap();
    let end: u64 = args[3].parse().unwrap();
    let space = Space::new(thorough);
    let root = scratch_root();
    let _ = std::fs::create_dir_all(&root);
    let stdout = std::io::stdout();
    let mut out = stdout.lock();
    let mut i = start;
    let mut since_flush = 0;
    while i < end.min(space.total()) {
        out.write_all(&i.to_le_bytes()).unwrap();
        since_flush += 1;
        if since_flush >= 64 {
            out.flush().unwrap();
            since_flush = 0;
        }
        let (desc, files, no_std) = space.case(i);
        let t0 = Instant::now();
        let f = judge_inprocess(&files, no_std, Some(&root));
        let ms = t0.elapsed().as_millis() as u64;
        let us = t0.elapsed().as_micros() as u64;
        let is_ladder = desc.starts_with("ladder ");
        // slowness below the hang deadline is not a verdict (it depends on machine load)
        if f.is_some() || is_ladder {
            let (sig, detail) = match f {
                Some(x) => x,
                None => ("timing".into(), String::new()),
            };
            let doc = json!({"i": i, "sig": sig, "detail": detail, "desc": desc, "ms": ms, "us": us}).to_string();
            out.write_all(&u64::MAX.to_le_bytes()).unwrap();
            out.write_all(&(doc.len() as u64).to_le_bytes()).unwrap();
            out.write_all(doc.as_bytes()).unwrap();
            out.flush().unwrap();
            since_flush = 0;
        }
        i += stride;
    }
    out.write_all(&(u64::MAX - 1).to_le_bytes()).unwrap();
    out.flush().unwrap();
    let _ = std::fs::remove_dir_all(&root);
    0
}

fn preds_for(desc: &str, files: &Files, sig: &str, detail: &str) -> Vec<String> {
    let mut v = Vec::new();
    let text: String = files.values().cloned().collect::<Vec<_>>().join("\n");
    if sig == "panic" && detail.contains("Illegal inner statement") {
        v.push("type-or-external-declaration-inside-a-function".into());
    }
    let _ = (desc, text);
    v
}

pub fn run(run: &mut Run) {
    let thorough = run.thorough();
    let space = Space::new(thorough);
    let total = space.total();
    let nworkers = crate::pool::threads() as u64;
    let exe = std::env::current_exe().expect("current exe");
    let progress: Vec<AtomicU64> = (0..nworkers).map(|_| AtomicU64::new(u64::MAX)).collect();
    let deadline = Duration::from_secs(if thorough { 15 } else { 10 });
    let mut st = Stats::new();
    let results: Vec<(Vec<serde_json::Value>, Vec<(u64, String)>, u64)> = std::thread::scope(|s| {
        let mut hs = Vec::new();
        for w in 0..nworkers {
            let exe = exe.clone();
            let progress = &progress;
            let tier = if thorough { "thorough" } else { "quick" };
            hs.push(s.spawn(move || {
                let mut reported: Vec<serde_json::Value> = Vec::new();
                let mut crashes: Vec<(u64, String)> = Vec::new();
                let mut done_cases = 0u64;
                let mut unreproduced = 0;
                let mut next = w;
                while next < total {
                    if CRASHES.load(Ordering::Relaxed) >= CRASH_CAP {
                        break;
                    }
                    let mut child = Command::new(&exe)
                        .args(["c07-worker", tier, &next.to_string(), &nworkers.to_string(), &total.to_string()])
                        .stdout(Stdio::piped())
                        .stderr(Stdio::null())
                        .env("RUST_MIN_STACK", "67108864")
                        .spawn()
                        .expect("spawn worker");
                    let mut pipe = child.stdout.take().unwrap();
                    // reader thread: forwards progress
                    let (tx, rx) = std::sync::mpsc::channel::<Result<u64, serde_json::Value>>();
                    let reader = std::thread::spawn(move || {
                        let mut buf = [0u8; 8];
                        loop {
                            if pipe.read_exact(&mut buf).is_err() {
                                break;
                            }
                            let v = u64::from_le_bytes(buf);
                            if v == u64::MAX {
                                if pipe.read_exact(&mut buf).is_err() {
                                    break;
                                }
                                let n = u64::from_le_bytes(buf) as usize;
                                let mut doc = vec![0u8; n];
                                if pipe.read_exact(&mut doc).is_err() {
                                    break;
                                }
                                if let Ok(j) = serde_json::from_slice::<serde_json::Value>(&doc) {
                                    let _ = tx.send(Err(j));
                                }
                            } else if tx.send(Ok(v)).is_err() {
                                break;
                            }
                        }
                    });
                    let mut last = next;
                    let mut last_seen = Instant::now();
                    let mut finished = false;
                    loop {
                        match rx.recv_timeout(Duration::from_millis(200)) {
                            Ok(Ok(v)) if v == u64::MAX - 1 => {
                                finished = true;
                                break;
                            }
                            Ok(Ok(v)) => {
                                if v != last {
                                    last_seen = Instant::now();
                                }
                                last = v;
                                progress[w as usize].store(v, Ordering::Relaxed);
                            }
                            Ok(Err(j)) => reported.push(j),
                            Err(std::sync::mpsc::RecvTimeoutError::Timeout) => {
                                // progress indices are flushed in batches of 64: a stall is only
                                // certain when the worker is silent for the whole deadline
                                if last_seen.elapsed() > deadline {
                                    let _ = child.kill();
                                    crashes.push((last, "hang".into()));
                                    break;
                                }
                                if let Ok(Some(_)) = child.try_wait() {
                                    // drained below
                                }
                            }
                            Err(std::sync::mpsc::RecvTimeoutError::Disconnected) => break,
                        }
                    }
                    let status = child.wait().ok();
                    let _ = reader.join();
                    // drain anything left
                    while let Ok(m) = rx.try_recv() {
                        match m {
                            Ok(v) if v == u64::MAX - 1 => finished = true,
                            Ok(v) => last = v,
                            Err(j) => reported.push(j),
                        }
                    }
                    if finished {
                        done_cases += (total - 1 - next) / nworkers + 1;
                        break;
                    }
                    // the worker died or stalled somewhere in the batch after the last flushed index:
                    // re-run that batch one case at a time in fresh single-case workers to pin it down
                    let died = if crashes.last().map(|c| c.1 == "hang").unwrap_or(false) { "hang".to_string() } else { format!("worker died: {:?}", status) };
                    if crashes.last().map(|c| c.1 == "hang").unwrap_or(false) {
                        crashes.pop();
                    }
                    let mut culprit = None;
                    let mut probe = last;
                    let mut probed = 0;
                    while probe < total && probed < 70 {
                        let mut c = Command::new(&exe)
                            .args(["c07-worker", tier, &probe.to_string(), &nworkers.to_string(), &(probe + 1).to_string()])
                            .stdout(Stdio::null())
                            .stderr(Stdio::null())
                            .env("RUST_MIN_STACK", "67108864")
                            .spawn()
                            .expect("spawn probe");
                        let t0 = Instant::now();
                        let mut verdict = None;
                        loop {
                            match c.try_wait() {
                                Ok(Some(s)) => {
                                    if !s.success() {
                                        verdict = Some(format!("process died: {:?}", s));
                                    }
                                    break;
                                }
                                _ => {
                                    if t0.elapsed() > deadline {
                                        let _ = c.kill();
                                        let _ = c.wait();
                                        verdict = Some("hang".to_string());
                                        break;
                                    }
                                    std::thread::sleep(Duration::from_millis(5));
                                }
                            }
                        }
                        if let Some(v) = verdict {
                            culprit = Some((probe, v));
                            break;
                        }
                        probe += nworkers;
                        probed += 1;
                    }
                    match culprit {
                        Some((i, v)) => {
                            CRASHES.fetch_add(1, Ordering::Relaxed);
                            crashes.push((i, v));
                            done_cases += (i - next) / nworkers + 1;
                            next = i + nworkers;
                        }
                        None => {
                            // could not reproduce on single cases (an overloaded machine can starve a
                            // worker past the deadline): resume from the stalled batch; only repeated
                            // unreproducible stalls are a machinery problem
                            unreproduced += 1;
                            if unreproduced > 3 {
                                crashes.push((last, format!("UNREPRODUCIBLE {}", died)));
                                done_cases += (last - next) / nworkers + 1;
                                next = last + nworkers * 70;
                            } else {
                                done_cases += (last - next) / nworkers;
                                next = last;
                            }
                        }
                    }
                }
                (reported, crashes, done_cases)
            }));
        }
        hs.into_iter().map(|h| h.join().unwrap()).collect()
    });
    let mut unreproducible = 0;
    let mut times: std::collections::BTreeMap<String, Vec<(usize, f64)>> = Default::default();
    for (reported, crashes, done) in results {
        st.evaluations += done;
        for j in reported {
            let i = j["i"].as_u64().unwrap_or(0);
            let (desc, files, no_std) = space.case(i);
            let sig = j["sig"].as_str().unwrap_or("?").to_string();
            if sig == "timing" {
                if let Some(id) = desc.strip_prefix("ladder ") {
                    if let Some((name, d)) = id.rsplit_once('-') {
                        times.entry(name.to_string()).or_default().push((d.parse().unwrap_or(0), j["us"].as_u64().unwrap_or(0) as f64 / 1e6));
                    }
                }
                continue;
            }
            let detail = j["detail"].as_str().unwrap_or("").to_string();
            st.outcome(&sig);
            let mut fm = serde_json::Map::new();
            for (k, v) in &files {
                fm.insert(k.clone(), json!(v));
            }
            st.fail(Failure {
                preds: preds_for(&desc, &files, &sig, &detail),
                sig,
                detail: format!("{}\n{}", desc, detail),
                case: json!({"engine": "c07", "files": fm, "no_std": no_std, "desc": desc}),
                size: files.values().map(|v| v.len()).sum(),
            });
        }
        for (i, what) in crashes {
            if what.starts_with("UNREPRODUCIBLE") {
                unreproducible += 1;
                continue;
            }
            let (desc, files, no_std) = space.case(i);
            let sig = if what == "hang" { "hang".to_string() } else { "process-abort".to_string() };
            st.outcome(&sig);
            let mut fm = serde_json::Map::new();
            for (k, v) in &files {
                fm.insert(k.clone(), json!(v));
            }
            st.fail(Failure {
                sig,
                preds: vec![],
                detail: format!("{}\n{}", desc, what),
                case: json!({"engine": "c07", "files": fm, "no_std": no_std, "desc": desc}),
                size: files.values().map(|v| v.len()).sum(),
            });
        }
    }
    if unreproducible > 0 {
        eprintln!("MACHINERY: {} worker deaths/stalls could not be reproduced on single cases", unreproducible);
        std::process::exit(2);
    }
    st.outcome("terminated-with-ok-or-rendered-errors");
    *st.outcomes.get_mut("terminated-with-ok-or-rendered-errors").unwrap() = st.evaluations - st.failures.len() as u64 - st.failures_dropped;
    st.nontrivial_by_construction = st.evaluations;
    for (name, count) in &space.parts {
        st.count(&format!("part:{}", name), *count);
    }
    for i in [0u64, total / 3, total / 2, total - 1] {
        let (desc, files, _) = space.case(i);
        st.sample(json!({"case": desc, "text": files.values().next().map(|t| t.chars().take(300).collect::<String>())}));
    }
    // ladders: super-linear growth check (time(2n)/time(n)), timings measured inside the workers
    let ladders = ladder_inputs(64);
    for (name, ts) in &times {
        let t32 = ts.iter().find(|x| x.0 == 32).map(|x| x.1).unwrap_or(0.0);
        let t64 = ts.iter().find(|x| x.0 == 64).map(|x| x.1).unwrap_or(0.0);
        if t64 > 3.0 && t64 > 16.0 * t32.max(1e-3) {
            st.fail(Failure {
                sig: "super-linear-time".into(),
                preds: vec![format!("ladder:{}", name)],
                detail: format!("ladder {}: depth 32 took {:.3}s, depth 64 took {:.3}s", name, t32, t64),
                case: json!({"engine": "c07", "files": {MAIN: ladders.iter().find(|l| l.0 == format!("{}-64", name)).map(|l| l.1.clone())}, "no_std": true, "desc": format!("ladder {}-64", name)}),
                size: 64,
            });
        }
    }
    if CRASHES.load(Ordering::Relaxed) >= CRASH_CAP {
        run.exhaustive = false;
        st.count("stopped_early_after_process_deaths_or_hangs", CRASHES.load(Ordering::Relaxed));
    }
    run.stats = st;
    run.rule = "every sequence of up to N representative tokens (with/without trailing newline), every such sequence in each hole of 10 scaffolds, every single-token deletion / replacement / insertion (critical token set) / adjacent swap / truncation at every token and every character of the corpus files, project shapes (missing, conflicting, cyclic imports, with and without std), nesting ladders to depth 64; all distinct by construction; every case is non-trivial (the whole pipeline runs on it)".into();
    run.bounds = json!({"tokens": TOKENS.len(), "max_sequence_len": if thorough {4} else {3}, "max_hole_sequence_len": if thorough {3} else {2}, "corpus_seeds": space.seeds.len(), "critical_tokens": CRITICAL.len(), "total_cases": total, "deadline_s": deadline.as_secs()});
    run.assumptions = vec![
        "a worker process that dies or stays silent for the deadline is attributed to a single case by re-running the cases of its last batch one by one; an unreproducible death is a machinery error, not a verdict".into(),
        "nesting depth is bounded at 64 so that native stack depth is not what is measured".into(),
    ];
}

pub fn replay(case: &serde_json::Value) -> Option<(String, String)> {
    let mut files = Files::new();
    for (k, v) in case["files"].as_object()? {
        files.insert(k.clone(), v.as_str()?.to_string());
    }
    let no_std = case["no_std"].as_bool().unwrap_or(true);
    judge_inprocess(&files, no_std, None)
}
