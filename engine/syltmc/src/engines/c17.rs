//! C17 — tokenizer: tokens tile the source and carry exact positions; longest match.
//! Exhaustive strings over a character alphabet and exhaustive sequences of lexeme atoms,
//! each compared with an independent maximal-munch lexer and an independent line index.

use crate::report::{Failure, Run, Stats};
use serde_json::json;
use std::sync::atomic::AtomicBool;
use sylt_tokenizer::{string_to_tokens, Token};

#[derive(Clone, Debug, PartialEq)]
pub enum K {
    Ident,
    Kw(&'static str),
    Float,
    Int,
    Str,
    Comment,
    Op(&'static str),
    Newline,
    Error,
}

const KEYWORDS: &[(&str, &str)] = &[
    ("void", "VoidType"), ("bool", "BoolType"), ("int", "IntType"), ("float", "FloatType"),
    ("str", "StrType"), ("nil", "Nil"), ("true", "Bool"), ("false", "Bool"), ("if", "If"),
    ("elif", "Elif"), ("else", "Else"), ("case", "Case"), ("is", "Is"), ("break", "Break"),
    ("continue", "Continue"), ("in", "In"), ("loop", "Loop"), ("blob", "Blob"),
    ("externblob", "ExternBlob"), ("enum", "Enum"), ("ret", "Ret"), ("do", "Do"), ("end", "End"),
    ("fn", "Fn"), ("pu", "Pu"), ("and", "And"), ("or", "Or"), ("not", "Not"), ("use", "Use"),
    ("from", "From"), ("as", "As"), ("external", "External"),
];

const OPS: &[(&str, &str)] = &[
    ("<<<<<<<", "GitConflictBegin"), (">>>>>>>", "GitConflictEnd"), ("<=>", "AssertEqual"),
    ("<!>", "Unreachable"), ("+=", "PlusEqual"), ("-=", "MinusEqual"), ("*=", "StarEqual"),
    ("/=", "SlashEqual"), ("::", "ColonColon"), (":=", "ColonEqual"), ("==", "EqualEqual"),
    ("!=", "NotEqual"), (">=", "GreaterEqual"), ("<=", "LessEqual"), ("->", "Arrow"),
    ("+", "Plus"), ("-", "Minus"), ("*", "Star"), ("/", "Slash"), ("#", "Hash"), (":", "Colon"),
    ("=", "Equal"), ("(", "LeftParen"), (")", "RightParen"), ("[", "LeftBracket"),
    ("]", "RightBracket"), ("{", "LeftBrace"), ("}", "RightBrace"), (">", "Greater"),
    ("<", "Less"), ("!", "Bang"), ("?", "QuestionMark"), ("|", "Pipe"), ("'", "Prime"),
    (",", "Comma"), (".", "Dot"),
];

fn is_digit(c: char) -> bool {
    // Unicode decimal digits that occur in our alphabets
    c.is_ascii_digit() || c == '\u{0663}' || c == '\u{FF15}'
}

fn kind_name(k: &K) -> &'static str {
    match k {
        K::Ident => "Identifier",
        K::Kw(n) => n,
        K::Float => "Float",
        K::Int => "Int",
        K::Str => "String",
        K::Comment => "Comment",
        K::Op(n) => n,
        K::Newline => "Newline",
        K::Error => "Error",
    }
}

fn token_name(t: &Token) -> String {
    let d = format!("{:?}", t);
    d.split(|c| c == '(' || c == ' ' || c == '{').next().unwrap().to_string()
}

/// Independent maximal-munch lexer. Returns (kind, byte_start, byte_end).
pub fn ref_lex(s: &str) -> Vec<(K, usize, usize)> {
    let cs: Vec<(usize, char)> = s.char_indices().collect();
    let n = cs.len();
    let byte_at = |i: usize| if i < n { cs[i].0 } else { s.len() };
    let mut out = Vec::new();
    let mut i = 0;
    while i < n {
        let c = cs[i].1;
        if c == ' ' || c == '\t' || c == '\r' {
            i += 1;
            continue;
        }
        // candidates: (len in chars, kind), choose longest; priority on ties by order pushed
        let mut best: Option<(usize, K)> = None;
        let mut consider = |len: usize, k: K, best: &mut Option<(usize, K)>| {
            if len > 0 && best.as_ref().map(|b| len > b.0).unwrap_or(true) {
                *best = Some((len, k));
            }
        };
        if c == '\n' {
            consider(1, K::Newline, &mut best);
        }
        // identifier / keyword
        if c.is_ascii_alphabetic() || c == '_' {
            let mut j = i + 1;
            while j < n && (cs[j].1.is_ascii_alphanumeric() || cs[j].1 == '_') {
                j += 1;
            }
            let lex = &s[byte_at(i)..byte_at(j)];
            let k = KEYWORDS.iter().find(|(w, _)| *w == lex).map(|(_, n)| K::Kw(n)).unwrap_or(K::Ident);
            consider(j - i, k, &mut best);
        }
        // numbers
        {
            let mut j = i;
            while j < n && is_digit(cs[j].1) {
                j += 1;
            }
            let d1 = j - i;
            if d1 > 0 {
                consider(d1, K::Int, &mut best);
                // D+ . D*
                if j < n && cs[j].1 == '.' {
                    let mut k = j + 1;
                    while k < n && is_digit(cs[k].1) {
                        k += 1;
                    }
                    consider(k - i, K::Float, &mut best);
                }
                // D+ e [+-]? D+
                if j < n && cs[j].1 == 'e' {
                    let mut k = j + 1;
                    if k < n && (cs[k].1 == '+' || cs[k].1 == '-') {
                        k += 1;
                    }
                    let ds = k;
                    while k < n && is_digit(cs[k].1) {
                        k += 1;
                    }
                    if k > ds {
                        consider(k - i, K::Float, &mut best);
                    }
                }
            } else if c == '.' {
                // D* . D+  with zero leading digits
                let mut k = i + 1;
                while k < n && is_digit(cs[k].1) {
                    k += 1;
                }
                if k > i + 1 {
                    consider(k - i, K::Float, &mut best);
                }
            }
        }
        // string
        if c == '"' {
            let mut j = i + 1;
            while j < n && cs[j].1 != '"' {
                j += 1;
            }
            if j < n {
                consider(j + 1 - i, K::Str, &mut best);
            }
        }
        // comment
        if c == '/' && i + 1 < n && cs[i + 1].1 == '/' {
            let mut j = i + 2;
            while j < n && cs[j].1 != '\n' {
                j += 1;
            }
            consider(j - i, K::Comment, &mut best);
        }
        // operators
        for (op, name) in OPS {
            if s[byte_at(i)..].starts_with(op) {
                consider(op.chars().count(), K::Op(name), &mut best);
                break; // OPS is ordered longest-first among shared prefixes
            }
        }
        match best {
            Some((len, mut k)) => {
                let lex = &s[byte_at(i)..byte_at(i + len)];
                if k == K::Int && lex.parse::<i64>().is_err() {
                    k = K::Error;
                }
                if k == K::Float && lex.parse::<f64>().is_err() {
                    k = K::Error;
                }
                out.push((k, byte_at(i), byte_at(i + len)));
                i += len;
            }
            None => {
                // no token starts here: an error token; for an unterminated string it extends to
                // the end of input, otherwise it is one character (only tiling/positions are
                // checked on such inputs, so the exact extent is not relied upon).
                if c == '"' {
                    out.push((K::Error, byte_at(i), s.len()));
                    i = n;
                } else {
                    out.push((K::Error, byte_at(i), byte_at(i + 1)));
                    i += 1;
                }
            }
        }
    }
    out
}

/// independent line index: byte offset -> (line, col) with 1-based char columns
fn line_col(s: &str) -> Vec<(usize, usize)> {
    // indexed by byte offset (only char boundaries are meaningful) + one past the end
    let mut v = vec![(0, 0); s.len() + 1];
    let mut line = 1;
    let mut col = 1;
    for (b, c) in s.char_indices() {
        v[b] = (line, col);
        if c == '\n' {
            line += 1;
            col = 1;
        } else {
            col += 1;
        }
    }
    v[s.len()] = (line, col);
    v
}

pub struct Verdict {
    pub pred: Option<&'static str>,
    pub fail: Option<(String, String)>,
    pub had_ref_error: bool,
    pub multi_line_token: bool,
    pub ntokens: usize,
}

pub fn judge(text: &str) -> Verdict {
    let toks = match std::panic::catch_unwind(|| string_to_tokens(0, text)) {
        Ok(t) => t,
        Err(p) => {
            return Verdict {
                pred: None,
                fail: Some(("tokenizer-panic".into(), crate::harness::panic_text(&p))),
                had_ref_error: false,
                multi_line_token: false,
                ntokens: 0,
            }
        }
    };
    let rf = ref_lex(text);
    let lc = line_col(text);
    let had_ref_error = rf.iter().any(|(k, _, _)| *k == K::Error);
    let first_err_start = rf.iter().find(|(k, _, _)| *k == K::Error).map(|x| x.1).unwrap_or(usize::MAX);
    let mut multi = false;
    let mut fail: Option<(String, String)> = None;
    // reverse index (line,col) -> byte, built from the independent line index
    let mut rows: Vec<Vec<usize>> = vec![Vec::new()];
    for (b, c) in text.char_indices() {
        rows.last_mut().unwrap().push(b);
        if c == '\n' {
            rows.push(Vec::new());
        }
    }
    rows.last_mut().unwrap().push(text.len());
    let find_byte = |line: usize, col: usize| -> Option<usize> {
        if line == 0 || col == 0 {
            return None;
        }
        let row = rows.get(line - 1)?;
        if let Some(b) = row.get(col - 1) {
            return Some(*b);
        }
        // exclusive end column one past the last char of a line that ends in a newline
        if col - 1 == row.len() && line < rows.len() {
            return rows[line].first().copied();
        }
        None
    };
    let mut prev_end = 0usize;
    let mut pred_hint: Option<&'static str> = None;
    let mut ri = 0usize; // index into reference tokens
    for (ti, pt) in toks.iter().enumerate() {
        let sp = crate::harness::sp_of(&pt.span);
        let name = token_name(&pt.token);
        // reference token expected at this index (same order) if no error before
        let rtok = rf.get(ri);
        ri += 1;
        // 1. start position
        let start = match find_byte(sp.line_start, sp.col_start) {
            Some(b) => b,
            None => {
                fail = Some((
                    "position-outside-text".into(),
                    format!("token #{} {} has start line {} col {} which is no position of the text", ti, name, sp.line_start, sp.col_start),
                ));
                break;
            }
        };
        if let Some((rk, rs, re)) = rtok {
            let in_checked_prefix = *re <= first_err_start || !had_ref_error;
            if in_checked_prefix {
                // kinds + exact start + extent
                if *rs != start {
                    let (el, ec) = lc[*rs];
                    fail = Some((
                        "wrong-position".into(),
                        format!(
                            "token #{} {}: reported line {} col {}, its text {:?} lies at line {} col {}",
                            ti, name, sp.line_start, sp.col_start, &text[*rs..*re], el, ec
                        ),
                    ));
                    break;
                }
                if kind_name(rk) != name {
                    if *rk == K::Float && name == "Error" && text[*rs..*re].ends_with('.')
                        && text[*re..].chars().next().map(|c| c.len_utf8() == 4).unwrap_or(false) {
                        pred_hint = Some("float-ending-in-dot-directly-followed-by-4-byte-char");
                    }
                    fail = Some((
                        "not-longest-match".into(),
                        format!("token #{} at byte {}: got {} expected {} for lexeme {:?}", ti, start, name, kind_name(rk), &text[*rs..*re]),
                    ));
                    break;
                }
                let lex = &text[*rs..*re];
                let payload_ok = match &pt.token {
                    Token::Identifier(s) => s == lex,
                    Token::String(s) => lex.len() >= 2 && s == &lex[1..lex.len() - 1],
                    Token::Int(v) => lex.parse::<i64>().ok() == Some(*v),
                    Token::Float(v) => lex.parse::<f64>().ok().map(|x| x.to_bits()) == Some(v.to_bits()),
                    Token::Bool(b) => lex == if *b { "true" } else { "false" },
                    Token::Comment(c) => c == lex[2..].trim(),
                    _ => true,
                };
                if !payload_ok {
                    fail = Some(("wrong-payload".into(), format!("token #{} {:?} for lexeme {:?}", ti, pt.token, lex)));
                    break;
                }
                let contains_nl = lex.contains('\n');
                if contains_nl {
                    multi = true;
                } else {
                    // end column, exclusive, same line
                    let (el, ec) = lc[*re];
                    let exp_end_col = if lex == "\n" { sp.col_start + 1 } else { ec };
                    let _ = el;
                    if sp.line_end != sp.line_start || sp.col_end != exp_end_col {
                        fail = Some((
                            "wrong-end".into(),
                            format!("token #{} {} {:?}: line_end {} col_end {} expected line {} col_end {}", ti, name, lex, sp.line_end, sp.col_end, sp.line_start, exp_end_col),
                        ));
                        break;
                    }
                }
                // tiling
                if start < prev_end {
                    fail = Some(("overlap".into(), format!("token #{} starts at byte {} before previous end {}", ti, start, prev_end)));
                    break;
                }
                if let Some(bad) = text[prev_end..start].chars().find(|c| !matches!(c, ' ' | '\t' | '\r')) {
                    fail = Some(("gap-not-whitespace".into(), format!("between byte {} and {}: {:?}", prev_end, start, bad)));
                    break;
                }
                prev_end = *re;
                continue;
            }
        }
        // beyond the first reference error (or the implementation produced more tokens than the
        // reference): tiling + position sanity only, using the token's own span for its extent.
        if !had_ref_error {
            fail = Some(("extra-token".into(), format!("token #{} {} at byte {} has no counterpart in the reference tokenisation", ti, name, start)));
            break;
        }
        if start < prev_end {
            fail = Some(("overlap".into(), format!("token #{} {} starts at byte {} before previous end {}", ti, name, start, prev_end)));
            break;
        }
        if let Some(bad) = text[prev_end..start].chars().find(|c| !matches!(c, ' ' | '\t' | '\r')) {
            fail = Some(("gap-not-whitespace".into(), format!("between byte {} and {}: {:?} (after an error token)", prev_end, start, bad)));
            break;
        }
        // extent: same line => from the span; otherwise unknown, stop checking here
        let end = if sp.line_end == sp.line_start { find_byte(sp.line_end, sp.col_end) } else { None };
        let end = match (&pt.token, end) {
            (Token::Newline, _) => Some(start + 1),
            (_, e) => e,
        };
        match end {
            Some(e) if e >= start && !text[start..e.min(text.len())].contains('\n') => prev_end = e,
            _ => {
                // an error token spanning lines: extent is not defined by the property; stop.
                return Verdict { pred: None, fail: None, had_ref_error, multi_line_token: multi, ntokens: toks.len() };
            }
        }
    }
    if fail.is_none() && !had_ref_error {
        if toks.len() != rf.len() {
            fail = Some(("missing-token".into(), format!("implementation produced {} tokens, reference {}", toks.len(), rf.len())));
        } else if let Some(bad) = text[prev_end..].chars().find(|c| !matches!(c, ' ' | '\t' | '\r')) {
            fail = Some(("gap-not-whitespace".into(), format!("after the last token: {:?}", bad)));
        }
    }
    Verdict { pred: pred_hint, fail, had_ref_error, multi_line_token: multi, ntokens: toks.len() }
}

const CHARS: &[&str] = &[
    "a", "A", "_", "1", ".", "e", "+", "-", "*", "/", "=", ":", "<", ">", "!", "'", "\"", "#", "(",
    "[", "{", " ", "\t", "\r", "\n", "é", "€", "😀",
];

pub fn atoms() -> Vec<&'static str> {
    let mut v: Vec<&'static str> = Vec::new();
    for (k, _) in KEYWORDS {
        v.push(k);
    }
    for (o, _) in OPS {
        v.push(o);
    }
    v.extend_from_slice(&[
        "x", "iff", "endx", "_a1", "fnx", "nill", "truex", "doend", "Abc", "e1", "E", "é",
        "0", "12", "007", "9223372036854775807", "9223372036854775808", "1.", ".5", "1.5", "1e5", "1e+5", "1e-5",
        "1e", "1e+", "1.e5", "1.5e3", "1..2", "\u{0663}", "1\u{0663}",
        "\"\"", "\"a\"", "\"a b\"", "\"é€\"", "\"a\nb\"", "\"\n\n\"", "\"x\n", "\"//\"", "\"",
        "//", "// c", "//é x", "/// \"q\"",
        "<<<<<<", "<<<<<<<<", ">>>>>>", "<<", "<!", "<=", "=>", "!>", "->>", "-->", ":::", ":==", "=!=",
        " ", "  ", "\t", "\r", "\r\n", "\n", "\n\n", " \n ", "€", "😀", "$", "@", "\\", ";", "~", "`", "%", "^", "&",
    ]);
    v.sort();
    v.dedup();
    v
}

fn in_char_domain(text: &str, maxlen: usize) -> bool {
    let mut n = 0;
    for c in text.chars() {
        n += 1;
        let mut b = [0u8; 4];
        if n > maxlen || !CHARS.contains(&&*c.encode_utf8(&mut b)) {
            return false;
        }
    }
    true
}

fn record(acc: &mut Stats, text: &str, engine_part: &str, maxlen: usize) {
    acc.evaluations += 1;
    let v = judge(text);
    if v.ntokens >= 2 {
        if engine_part == "chars" {
            acc.nontrivial_by_construction += 1;
        } else if !in_char_domain(text, maxlen) {
            acc.nontrivial(crate::harness::fnv(text.as_bytes()));
        }
    }
    if v.had_ref_error {
        acc.count("inputs_with_error_tokens(tiling+positions only)", 1);
    }
    if v.multi_line_token {
        acc.count("inputs_with_token_spanning_lines", 1);
    }
    match v.fail {
        None => acc.outcome("ok"),
        Some((sig, detail)) => {
            acc.outcome(&sig);
            let mut preds = vec![];
            if let Some(p) = v.pred {
                preds.push(p.to_string());
            }
            acc.fail(Failure {
                sig,
                preds,
                detail: if text.len() > 4000 { format!("input of {} bytes starting {:?} and ending {:?}\n{}", text.len(), text.chars().take(120).collect::<String>(), text.chars().rev().take(120).collect::<Vec<_>>().into_iter().rev().collect::<String>(), detail.chars().take(4000).collect::<String>()) } else { format!("input {:?}\n{}", text, detail) },
                case: json!({"engine": "c17", "part": engine_part, "text": text}),
                size: text.len(),
            });
        }
    }
}

pub fn run(run: &mut Run) {
    let thorough = run.thorough();
    let stop = AtomicBool::new(false);
    // part 1: all strings over CHARS up to length L
    let maxlen: u32 = if thorough { 6 } else { 5 };
    let nch = CHARS.len() as u64;
    let mut total = 0u64;
    for l in 0..=maxlen {
        total += nch.pow(l);
    }
    let decode = |mut i: u64| -> String {
        let mut l = 0;
        loop {
            let c = nch.pow(l);
            if i < c {
                break;
            }
            i -= c;
            l += 1;
        }
        let mut s = String::new();
        for _ in 0..l {
            s.push_str(CHARS[(i % nch) as usize]);
            i /= nch;
        }
        s
    };
    let accs = crate::pool::par_range(total, 4096, |_| Stats::new(), |acc, i| {
        let s = decode(i);
        record(acc, &s, "chars", maxlen as usize);
        if i % 100_003 == 0 {
            acc.sample(json!({"part":"chars","text": s}));
        }
    }, &stop);
    let mut st = Stats::merge_all(accs);
    st.count("char_strings", total);

    // part 2: atom sequences
    let at = atoms();
    let na = at.len() as u64;
    let seps2: &[&str] = &["", " ", "\n"];
    let seps3: &[&str] = &["", " "];
    let total2 = na + na * na * seps2.len() as u64;
    let accs = crate::pool::par_range(total2, 1024, |_| Stats::new(), |acc, i| {
        let s = if i < na {
            at[i as usize].to_string()
        } else {
            let j = i - na;
            let a = at[(j % na) as usize];
            let b = at[((j / na) % na) as usize];
            let sep = seps2[(j / na / na) as usize];
            format!("{}{}{}", a, sep, b)
        };
        record(acc, &s, "atoms2", maxlen as usize);
        if i % 9973 == 0 {
            acc.sample(json!({"part":"atoms","text": s}));
        }
    }, &stop);
    st.merge(Stats::merge_all(accs));
    st.count("atom_sequences_len<=2", total2);
    let seps3: &[&str] = if thorough { &["", " ", "\n"] } else { seps3 };
    {
        let ns = seps3.len() as u64;
        let total3 = na * na * na * ns * ns;
        let accs = crate::pool::par_range(total3, 4096, |_| Stats::new(), |acc, mut i| {
            let a = at[(i % na) as usize];
            i /= na;
            let b = at[(i % na) as usize];
            i /= na;
            let c = at[(i % na) as usize];
            i /= na;
            let s1 = seps3[(i % ns) as usize];
            i /= ns;
            let s2 = seps3[(i % ns) as usize];
            let s = format!("{}{}{}{}{}", a, s1, b, s2, c);
            record(acc, &s, "atoms3", maxlen as usize);
        }, &stop);
        st.merge(Stats::merge_all(accs));
        st.count("atom_sequences_len3", total3);
    }
    // part 3: every prefix and suffix of the repository's own .sy files (real text shapes)
    let mut corpus = Vec::new();
    crate::util::collect_sy(std::path::Path::new("/repo/tests"), &mut corpus);
    crate::util::collect_sy(std::path::Path::new("/repo/std"), &mut corpus);
    corpus.sort();
    let texts: Vec<String> = corpus.iter().filter_map(|p| std::fs::read_to_string(p).ok()).collect();
    let accs = crate::pool::par_items(&texts, 1, |_| Stats::new(), |acc, _, t| {
        record(acc, t, "corpus", maxlen as usize);
        if thorough {
            let idx: Vec<usize> = t.char_indices().map(|x| x.0).collect();
            for b in idx.iter().step_by(7) {
                record(acc, &t[..*b], "corpus-prefix", maxlen as usize);
                record(acc, &t[*b..], "corpus-suffix", maxlen as usize);
            }
        }
    });
    st.merge(Stats::merge_all(accs));
    st.count("corpus_files", texts.len() as u64);

    // part 4: long inputs - one line shape repeated N times, then a few tokens whose positions must still be right
    // (offsets, line numbers and multi-byte counts beyond 255 / 65535)
    {
        let units: [(&str, &str); 9] = [
            ("non-ascii-comment", "// åäö€😀 kommentar\n"),
            ("non-ascii-string", "s :: \"åäö€😀\"\n"),
            ("ascii-statement", "x := 1 + 2\n"),
            ("blank", "\n"),
            ("tab-indented", "\t\ty := 2.5\n"),
            ("crlf", "z := \"é\"\r\n"),
            ("string-over-two-lines", "m :: \"å\nä\"\n"),
            ("no-line-breaks", "q + \"ö\" "),
            ("no-line-breaks-ascii", "qq - 1 "),
        ];
        let tails = ["print(\"åäö\", missing)\nx := 1 <=> 2\n", "end )\n"];
        let counts: &[usize] = if thorough { &[100, 255, 256, 257, 9000, 22000, 65535, 65536, 65537, 70000] } else { &[100, 257, 9000, 70000] };
        let mut long: Vec<String> = Vec::new();
        for (_, u) in units {
            for &n in counts {
                for t in tails {
                    long.push(format!("{}{}", u.repeat(n), t));
                }
            }
        }
        let accs = crate::pool::par_items(&long, 1, |_| Stats::new(), |acc, _, t| record(acc, t, "long", maxlen as usize));
        st.merge(Stats::merge_all(accs));
        st.count("long_inputs", long.len() as u64);
    }

    st.states = st.evaluations;
    st.transitions = st.evaluations;
    st.traces_validated = st.evaluations;
    run.rule = "every string over the 28-character alphabet up to the length bound, every sequence of lexeme atoms up to the bound (with/without separators), plus the repository's .sy files; plus long inputs (each of 9 line shapes - non-ASCII comments and strings, statements, blank, tab-indented, CRLF, strings over two lines, no line breaks at all - repeated 100 .. 70000 times and followed by a few tokens); plus, end to end through the compiler, 270 files (9 preceding-text shapes x 5 syntax errors with a known offending token x 3 indentations x LF / CRLF) whose first reported error span must be that token's place in the file; non-trivial = the implementation produced at least two tokens; distinct by text".into();
    run.bounds = json!({"char_alphabet": CHARS, "max_chars": maxlen, "atoms": at.len(), "atom_seq_len": 3, "atom_separators_len3": seps3});
    run.assumptions = vec![
        "reference lexer = DESIGN.md Appendix D (longest match; keyword>identifier; numeric conversion failure = error token)".into(),
        "on inputs where the reference finds an error token only the prefix before it is compared for kinds; tiling and positions are checked as far as token extents are defined".into(),
        "for a token that contains newlines only its start position is compared; every following token is compared in full".into(),
    ];
    end_to_end(&mut st);
    run.stats = st;
}

/// positions as a user sees them: the span of the first syntax error the compiler reports for a file must be the span
/// the reference lexer and line index give the offending token in that file's text (whatever the loader does to
/// the text before it reaches the tokenizer)
fn end_to_end_case(text: &str, designated: &dyn Fn(&[(K, usize, usize)]) -> Option<usize>) -> Option<Result<(), (String, String)>> {
    use crate::harness::*;
    let rf = ref_lex(text);
    let lc = line_col(text);
    let k = designated(&rf)?;
    let (_, sb, eb) = rf[k].clone();
    let (line, cs) = lc[sb];
    let (line_e, ce) = lc[eb];
    let want_ce = if line_e == line { ce } else { cs + text[sb..eb].chars().count() };
    let got = match compile_src(text) {
        Outcome::Err { errs, .. } if !errs.is_empty() => (errs[0].kind, errs[0].line, errs[0].col_start, errs[0].col_end),
        other => return Some(Err(("end-to-end-no-error".into(), format!("expected a syntax error, got {}\n{:?}", other.short(), text)))),
    };
    if got.0 != "SyntaxError" {
        return None;
    }
    if (got.1, got.2, got.3) == (line, cs, want_ce) {
        Some(Ok(()))
    } else {
        Some(Err(("end-to-end-position".into(), format!("the first error is reported at line {} columns {}..{}, the offending token {:?} lies at line {} columns {}..{} of the file\n{:?}", got.1, got.2, got.3, &text[sb..eb], line, cs, want_ce, text))))
    }
}

fn end_to_end(st: &mut Stats) {
    let prefixes: [&str; 9] = ["", "y := 1{E}", "// ü comment{E}", "s := \"é€\"{E}", "s := \"a{E}b\"{E}", "s := \"ü{E}{E}\"{E}", "{E}{E}", "\ty := 1 // c{E}", "f :: fn do{E}    y := 1{E}end{E}"];
    let forms: [(&str, &str); 5] = [
        ("stray-paren", "bad := ){E}"),
        ("dangling-plus", "bad := 1 +{E}z := 2{E}"),
        ("second-expression", "bad := 1 2{E}"),
        ("after-multi-line-string", "t := \"a{E}b\" ){E}"),
        ("after-non-ascii-string", "t := \"åäö\" ){E}"),
    ];
    for eol in ["\n", "\r\n"] {
        for indent in ["", "  ", "\t"] {
            for p in prefixes {
                for (fname, f) in forms {
                    let text = format!("{}{}{}", p, indent, f).replace("{E}", eol);
                    // the offending token: the last `)`, the newline after the dangling `+`, the literal 2
                    let designated = |rf: &[(K, usize, usize)]| -> Option<usize> {
                        match fname {
                            "dangling-plus" => rf.iter().position(|(k, _, _)| *k == K::Op("Plus")).map(|i| i + 1),
                            "second-expression" => rf.iter().rposition(|(k, _, _)| *k == K::Int),
                            _ => rf.iter().rposition(|(k, _, _)| *k == K::Op("RightParen")),
                        }
                    };
                    st.evaluations += 1;
                    match end_to_end_case(&text, &designated) {
                        None => st.count("end-to-end-skipped", 1),
                        Some(Ok(())) => {
                            st.outcome("end-to-end:error-span-is-the-token's-place-in-the-file");
                            st.nontrivial(crate::harness::fnv(text.as_bytes()));
                        }
                        Some(Err((sig, detail))) => {
                            st.outcome(&sig);
                            st.fail(Failure { sig, preds: vec![], detail, case: json!({"engine": "c17-e2e", "text": text, "form": fname}), size: text.len() });
                        }
                    }
                }
            }
        }
    }
}

pub fn replay(case: &serde_json::Value) -> Option<(String, String)> {
    let text = case["text"].as_str()?;
    if case["engine"] == "c17-e2e" {
        let fname = case["form"].as_str()?.to_string();
        let designated = move |rf: &[(K, usize, usize)]| -> Option<usize> {
            match fname.as_str() {
                "dangling-plus" => rf.iter().position(|(k, _, _)| *k == K::Op("Plus")).map(|i| i + 1),
                "second-expression" => rf.iter().rposition(|(k, _, _)| *k == K::Int),
                _ => rf.iter().rposition(|(k, _, _)| *k == K::Op("RightParen")),
            }
        };
        return match end_to_end_case(text, &designated) {
            Some(Err(e)) => Some(e),
            _ => None,
        };
    }
    judge(text).fail
}
