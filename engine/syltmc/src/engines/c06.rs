//! C06 — every accepted program yields loadable Lua: the loader runs on the output of every
//! successful compile of the program families, plus dedicated lexical corner families.

use crate::ast::*;
use crate::harness::*;
use crate::luarun::*;
use crate::report::{Failure, Run, Stats};
use serde_json::json;
use std::sync::atomic::AtomicBool;

fn load_sig(e: &LuaEnd) -> String {
    match e {
        LuaEnd::LoadError(m) => {
            let core = m.splitn(2, ": ").nth(1).unwrap_or(m);
            // drop the "near ..." tail and function/line details
            let core = core.split(" near ").next().unwrap_or(core);
            let core = core.split(" in function").next().unwrap_or(core);
            let core = core.split(" in main").next().unwrap_or(core);
            format!("load-error: {}", core.chars().take(70).collect::<String>())
        }
        LuaEnd::NoPreamble => "no-preamble".into(),
        other => format!("{:?}", other),
    }
}

/// text-level case: compile, load, optionally run and compare raw output
fn check_text(acc: &mut Stats, family: &str, text: &str, no_std: bool, expect_output: Option<&str>, preds: Vec<String>) {
    acc.evaluations += 1;
    let out = compile(&one_file(text), MAIN, no_std);
    let lua = match out {
        Outcome::Ok(b) => b,
        Outcome::Err { errs, .. } => {
            acc.count(&format!("rejected-by-compiler@{}", family), 1);
            if acc.samples.len() < 2 {
                acc.sample(json!({"family": family, "rejected": errs.first().map(|e| e.dbg.clone()), "program": text}));
            }
            return;
        }
        Outcome::Panic { .. } => {
            acc.count("compiler-panic", 1);
            return;
        }
    };
    acc.programs += 1;
    acc.nontrivial(fnv(text.as_bytes()));
    let mut files = serde_json::Map::new();
    files.insert(MAIN.to_string(), json!(text));
    match loads(&lua) {
        Err(e) => {
            let sig = load_sig(&e);
            acc.outcome(&sig);
            acc.fail(Failure { sig, preds, detail: format!("{:?}\n{}", e, text), case: json!({"engine": "c06", "family": family, "files": files, "no_std": no_std}), size: text.len() });
        }
        Ok(chunk) => {
            acc.outcome("loads");
            if let Some(want) = expect_output {
                let mut lua_state = minilua::Lua::new();
                lua_state.enable_compat_5_2();
                lua_state.set_budget(5_000_000);
                let pre = minilua::load(preamble_text().as_bytes(), "preamble").expect("preamble");
                let _ = lua_state.run(&pre);
                let r = lua_state.run(&chunk);
                let got = String::from_utf8_lossy(&lua_state.take_output()).to_string();
                if r.is_err() || got != want {
                    acc.count(&format!("loads-but-behaves-differently@{}(diagnostic, decided by C01)", family), 1);
                }
            }
        }
    }
}

const FIELD_NAMES: &[&str] = &["elseif", "for", "function", "goto", "local", "repeat", "return", "then", "until", "while", "x", "_", "V1", "__index", "type", "print", "string", "math", "_G", "nil_", "End", "self_"];

const STR_ALPHABET: &[&str] = &["a", "\\", "n", "x", "0", "'", "%", "[", "]", " ", "\t", "\n", "\r", "é", "\u{2028}", "-", "{", "}", "\u{1b}", "7", "\u{0}", "\u{7f}", "9"];

const NUM_LITERALS: &[&str] = &[
    "0", "7", "007", "9223372036854775807", "1e308", "1e309", "1e-400", ".5", "5.", "1e+2", "1e5", "1e-7", "0.1", "123456789012345678", "100000000000000000000.0",
    "1.5", "2.0", "0.30000000000000004", "1e15", "1e16", "123456.789", "0.000001", "1e-5", "4e0", "3.14159265358979",
];

const UNUSED_EXPRS: &[&str] = &[
    "1", "1.5", "\"s\"", "true", "a", "a + 1", "a - 1", "a * 2", "a / 2", "-a", "not c", "a == 1", "a != 1", "a < 1", "a <= 1", "a > 1", "a >= 1",
    "c and c", "c or c", "c and f() > 0", "(1, 2)", "[1]", "()", "p.x", "t[0]", "f()", "P { x: 1 }", "(E.A 1)", "E.B", "(if c do 1 else 2 end)", "if c do 1 else 2 end",
    "case v do A q -> q end else 0 end end", "1 <=> 1", "fn -> int\n        1\n    end", "(a)", "((1, 2), 3)", "\"a\" + \"b\"", "(1, 2) + (3, 4)", "-(1, 2)", "a + f()", "f' ", "a -> g()",
    "not (a == 1)", "p.x + t[1]", "[a, f()]", "p == p", "v == E.B", "t < t",
];

fn unused_program(e: &str, pos: usize, in_value_fn: bool) -> String {
    let hdr = "print: fn *X -> void : external\nP :: blob { x: int }\nE :: enum\n    A int,\n    B,\nend\nf :: fn -> int\n    print(9)\n    1\nend\ng :: fn q: int -> int\n    q\nend\n";
    let mut body = vec!["a := 1".to_string(), "c := true".to_string(), "p := P { x: 1 }".to_string(), "t := (1, 2)".to_string(), "v := (E.A 1)".to_string()];
    let marks = ["print(1)", "print(2)"];
    match pos {
        0 => {
            body.push(e.to_string());
            body.push(marks[0].into());
            body.push(marks[1].into());
        }
        1 => {
            body.push(marks[0].into());
            body.push(e.to_string());
            body.push(marks[1].into());
        }
        _ => {
            body.push(marks[0].into());
            body.push(marks[1].into());
            body.push(e.to_string());
        }
    }
    if in_value_fn {
        body.push("5".into());
        format!("{}w :: fn -> int\n    {}\nend\nstart :: fn do\n    print(w())\nend\n", hdr, body.join("\n    "))
    } else {
        format!("{}start :: fn do\n    {}\nend\n", hdr, body.join("\n    "))
    }
}

fn sized_program(n: usize, kind: usize, no_std: bool) -> String {
    let hdr = if no_std { "print: fn *X -> void : external\n" } else { "" };
    match kind {
        // n call statements in one function
        0 => format!("{}start :: fn do\n{}end\n", hdr, (0..n).map(|i| format!("    print({})\n", i)).collect::<String>()),
        // n local definitions in one function
        1 => format!("{}start :: fn do\n{}    print(x0)\nend\n", hdr, (0..n).map(|i| format!("    x{} := {}\n", i, i)).collect::<String>()),
        // n computed global constants
        2 => format!("{}{}start :: fn do\n    print(k0)\nend\n", hdr, (0..n).map(|i| format!("k{} :: {} + 1\n", i, i)).collect::<String>()),
        // n global functions
        3 => format!("{}{}start :: fn do\n    print(f0())\nend\n", hdr, (0..n).map(|i| format!("f{} :: fn -> int\n    {}\nend\n", i, i)).collect::<String>()),
        // n if statements in one function
        4 => format!("{}start :: fn do\n    a := 1\n{}end\n", hdr, (0..n).map(|i| format!("    if a == {} do\n        print({})\n    end\n", i, i)).collect::<String>()),
        // one expression with n operands
        5 => format!("{}start :: fn do\n    a := 1\n    print({})\nend\n", hdr, (0..n).map(|i| format!("a * {}", i)).collect::<Vec<_>>().join(" + ")),
        // one if with n - 1 elif branches
        6 => format!(
            "{}pick :: fn a: int -> int\n    if a == 0 do\n        0\n{}    else do\n        -1\n    end\nend\nstart :: fn do\n    print(pick(1))\nend\n",
            hdr,
            (1..n).map(|i| format!("    elif a == {} do\n        {}\n", i, i * 3)).collect::<String>()
        ),
        // an enum with n variants and a case that lists them all
        _ => format!(
            "{}Wide :: enum\n{}end\nwhich :: fn e: Wide -> int\n    case e do\n{}    end\nend\nstart :: fn do\n    print(which(Wide.V0))\n    print(which(Wide.V{}))\nend\n",
            hdr,
            (0..n).map(|i| format!("    V{},\n", i)).collect::<String>(),
            (0..n).map(|i| format!("        V{} -> {} end\n", i, i * 3)).collect::<String>(),
            n - 1
        ),
    }
}

pub fn run(run: &mut Run) {
    let thorough = run.thorough();
    // (a) the loader on every program of the families
    let (mut st, bounds) = crate::engines::c01::for_each_program(thorough, &|_| true, &|acc, fam, p, sample| {
        number_unreachables(p);
        let text = print_program(p).text;
        acc.evaluations += 1;
        match compile_src(&text) {
            Outcome::Ok(lua) => {
                acc.programs += 1;
                acc.nontrivial(fnv(text.as_bytes()));
                match loads(&lua) {
                    Ok(_) => {
                        acc.outcome("loads");
                        if sample {
                            acc.sample(json!({"family": fam, "program": text}));
                        }
                    }
                    Err(e) => {
                        let sig = load_sig(&e);
                        acc.outcome(&sig);
                        let mut files = serde_json::Map::new();
                        files.insert(MAIN.to_string(), json!(text));
                        acc.fail(Failure { sig, preds: vec![], detail: format!("{:?}\n{}", e, text), case: json!({"engine": "c06", "family": fam, "files": files, "no_std": true}), size: text.len() });
                    }
                }
            }
            _ => acc.count("rejected-by-compiler(families)", 1),
        }
    });
    // (b) lexical corner families
    let mut cases: Vec<(String, String, bool, Option<String>, Vec<String>)> = Vec::new();
    for f in FIELD_NAMES {
        let text = format!("print: fn *X -> void : external\nQ :: blob {{ {f}: int }}\nstart :: fn do\n    q := Q {{ {f}: 1 }}\n    q.{f} = q.{f} + 1\n    q.{f} += 1\n    print(q.{f})\n    print(q == Q {{ {f}: 3 }})\nend\n", f = f);
        cases.push(("field-name".into(), text, true, Some("3\ntrue\n".into()), vec![format!("field-name:{}", f)]));
    }
    // strings
    let maxlen = if thorough { 4 } else { 3 };
    let na = STR_ALPHABET.len();
    for len in 0..=maxlen {
        for mut i in 0..na.pow(len as u32) {
            let mut sx = String::new();
            for _ in 0..len {
                sx.push_str(STR_ALPHABET[i % na]);
                i /= na;
            }
            let text = format!("print: fn *X -> void : external\nstart :: fn do\n    print(\"{s}\")\n    x := \"{s}\"\n    print(x == \"{s}\")\n    print(x + \"|\")\nend\n", s = sx);
            let mut preds = Vec::new();
            if sx.contains('\\') {
                preds.push("string-literal-contains-backslash".to_string());
            }
            if sx.contains('\n') || sx.contains('\r') {
                preds.push("string-literal-contains-line-break".to_string());
            }
            cases.push(("string-literal".into(), text, true, Some(format!("{s}\ntrue\n{s}|\n", s = sx)), preds));
        }
    }
    for n in NUM_LITERALS {
        let text = format!("print: fn *X -> void : external\nstart :: fn do\n    print({n})\n    x := {n}\n    print(x == {n})\nend\n", n = n);
        let want = if let Ok(i) = n.parse::<i64>() {
            format!("{}\ntrue\n", i)
        } else {
            format!("{}\ntrue\n", crate::refsylt::float_text(n.parse::<f64>().unwrap()))
        };
        cases.push(("numeric-literal".into(), text, true, Some(want), vec![format!("numeric-literal:{}", n)]));
    }
    for e in UNUSED_EXPRS {
        for pos in 0..3 {
            for in_value_fn in [false, true] {
                cases.push(("unused-expression".into(), unused_program(e, pos, in_value_fn), true, None, vec![format!("unused-expression:{}", e)]));
            }
        }
    }
    let sizes: Vec<usize> = if thorough { vec![1, 10, 50, 60, 61, 62, 63, 64, 65, 66, 67, 68, 69, 70, 90, 95, 99, 100, 101, 110, 119, 120, 121, 150, 199, 200, 201, 250, 400] } else { vec![1, 10, 50, 64, 70, 99, 100, 101, 120, 199, 200, 201, 250] };
    for n in &sizes {
        for kind in 0..8 {
            for no_std in [true, false] {
                let mut preds = vec![];
                if *n >= 60 && kind < 6 {
                    preds.push("at-least-60-statements-or-definitions-in-one-function-or-file".to_string());
                }
                if *n >= 190 && kind >= 6 {
                    preds.push("an-elif-or-case-chain-of-at-least-190-arms".to_string());
                }
                cases.push((format!("size:kind{}", kind), sized_program(*n, kind, no_std), no_std, None, preds));
            }
        }
    }
    // programs from the shape-fault families that the compiler may or may not accept (break / continue
    // in every composed context, closures and pure closures included): whatever is accepted must load
    {
        use crate::engines::faults as fl;
        let snips: Vec<fl::Snip> = fl::c05_snips().into_iter().filter(|s| matches!(s.kind, fl::Kind::SNoLoop)).collect();
        let fcases = fl::enumerate(&snips, if thorough { 3 } else { 2 }, &|_, _| true);
        let prelude = fl::c05_prelude();
        for c in &fcases {
            let (fp, tp) = fl::programs(&snips, &prelude, c);
            cases.push(("break-continue-placement".into(), print_program(&fp).text, true, None, vec![]));
            cases.push(("break-continue-placement".into(), print_program(&tp).text, true, None, vec![]));
        }
    }
    // one inserted exit: in every block of every short family program, before every statement and at the end, one of
    // ret / ret 0 / break / continue / <!> / a do-block ending in ret is inserted (the statements after it become dead
    // code); whatever the compiler accepts must load
    {
        let exits: Vec<(&str, Stmt)> = vec![
            ("ret", Stmt::Ret(None)),
            ("ret 0", Stmt::Ret(Some(int(0)))),
            ("break", Stmt::Break),
            ("continue", Stmt::Continue),
            ("<!>", Stmt::Unreachable(0)),
            ("do ret end", Stmt::Block(vec![Stmt::Ret(None)])),
            ("do ret 0 end", Stmt::Block(vec![Stmt::Ret(Some(int(0)))])),
            ("do do ret 0 end end", Stmt::Block(vec![print_of(int(5)), Stmt::Block(vec![Stmt::Ret(Some(int(0)))])])),
        ];
        let mut n_ins = 0u64;
        for (k, (fam, p)) in crate::stmtfam::all_programs_len(1).into_iter().enumerate() {
            if !thorough && k % 2 == 1 {
                continue;
            }
            let mut shape: Vec<usize> = Vec::new();
            crate::engines::c02::visit_blocks(&mut p.clone(), &mut |b| {
                shape.push(b.len());
                false
            });
            for (bi, len) in shape.iter().enumerate() {
                for pos in 0..=*len {
                    for (en, ex) in &exits {
                        let mut q = p.clone();
                        let mut i = 0;
                        crate::engines::c02::visit_blocks(&mut q, &mut |b| {
                            if i == bi {
                                b.insert(pos, ex.clone());
                                return true;
                            }
                            i += 1;
                            false
                        });
                        number_unreachables(&mut q);
                        n_ins += 1;
                        cases.push((format!("inserted-exit:{}", fam), print_program(&q).text, true, None, vec![format!("inserted-exit:{}", en)]));
                    }
                }
            }
        }
        let _ = n_ins;
    }
    // how a variable is defined, assigned and read: initialiser kind x number of plain assignments x compound
    // assignment x number of reads, for a local and for a global (variables nobody reads must still give loadable Lua)
    {
        for global in [false, true] {
            for (iname, init) in [("literal", "0"), ("literal-string", "\"s\""), ("call", "idf(0)"), ("operator", "k + 1"), ("tuple", "(1, 2)"), ("if-value", "(if k > 0 do 1 else 2 end)")] {
                for assigns in 0..3usize {
                    for compound in [false, true] {
                        for reads in 0..3usize {
                            let is_num = !matches!(iname, "literal-string" | "tuple");
                            if compound && !is_num {
                                continue;
                            }
                            let mut body = String::new();
                            let decl = format!("v := {}\n", init);
                            if !global {
                                body.push_str(&format!("    {}", decl));
                            }
                            let other = match iname {
                                "literal-string" => "\"t\"",
                                "tuple" => "(3, 4)",
                                _ => "5",
                            };
                            for a in 0..assigns {
                                body.push_str(&format!("    v = {}\n", if a == 0 { other.to_string() } else { init.to_string() }));
                            }
                            if compound {
                                body.push_str("    v += 1\n");
                            }
                            for _ in 0..reads {
                                body.push_str("    print(v)\n");
                            }
                            body.push_str("    print(k)\n");
                            let text = format!("print: fn *X -> void : external\nk :: 3\nidf :: fn q: int -> int\n    q\nend\n{}start :: fn do\n{}end\n", if global { decl.clone() } else { String::new() }, body);
                            cases.push(("variable-usage".into(), text, true, None, vec![format!("variable-usage:{}", iname)]));
                        }
                    }
                }
            }
        }
    }
    // the location of the source is not part of the program: whatever characters the path of the main file contains,
    // a program that compiles must still yield loadable Lua (run-time messages may quote the location)
    {
        let body = "print: fn *X -> void : external\nuse helper\nf :: fn x: int -> int\n    if x > 100 do\n        <!>\n    end\n    x <=> x\n    x\nend\nstart :: fn do\n    print(f(1) + helper.g(2))\nend\n";
        let helper = "g :: fn x: int -> int\n    if x > 100 do\n        <!>\n    end\n    x\nend\n";
        let mut acc = Stats::new();
        for dir in ["/p", "/p/the \"final\" version", "/p/old\\stuff", "/p/it's", "/p/ünï cödé", "/p/a\\nb", "/p/100%d", "/p/[[x]]", "/p/--x", "/p/tab\there", "/p/a\\", "/p/]]"] {
            let main = format!("{}/main.sy", dir);
            let mut files = Files::new();
            files.insert(main.clone(), body.to_string());
            files.insert(format!("{}/helper.sy", dir), helper.to_string());
            acc.evaluations += 1;
            match compile(&files, &main, true) {
                Outcome::Ok(lua) => {
                    acc.programs += 1;
                    acc.nontrivial(fnv(main.as_bytes()));
                    match loads(&lua) {
                        Ok(_) => acc.outcome("loads"),
                        Err(e) => {
                            let sig = load_sig(&e);
                            acc.outcome(&sig);
                            let mut fm = serde_json::Map::new();
                            for (k, v) in &files {
                                fm.insert(k.clone(), json!(v));
                            }
                            acc.fail(Failure { sig, preds: vec!["source-path-with-special-characters".into()], detail: format!("{:?}\nmain file: {}", e, main), case: json!({"engine": "c06", "family": "source-path", "files": fm, "main": main, "no_std": true}), size: main.len() });
                        }
                    }
                }
                other => {
                    acc.count("rejected-by-compiler(source-path)", 1);
                    let _ = other;
                }
            }
        }
        st.merge(acc);
    }
    // the emitted text as the command-line driver leaves it on disk: every ordered pair of programs of different
    // size compiled to one output path, a fresh path and a path holding unrelated text - the file must load
    {
        let bin = crate::engines::c16::sylt_bin();
        if !bin.exists() {
            eprintln!("MACHINERY: {} not built", bin.display());
            std::process::exit(2);
        }
        let root = crate::report::verif_root().join("scratch").join(format!("c06-{}", std::process::id()));
        let _ = std::fs::remove_dir_all(&root);
        std::fs::create_dir_all(&root).unwrap();
        let progs: Vec<(&str, String)> = vec![
            ("tiny", "start :: fn do\nend\n".to_string()),
            ("small", "print: fn *X -> void : external\nstart :: fn do\n    print(1)\nend\n".to_string()),
            ("large", format!("print: fn *X -> void : external\nstart :: fn do\n{}end\n", "    print(\"a rather long line of output text\")\n".repeat(60))),
        ];
        for (n, t) in &progs {
            std::fs::write(root.join(format!("{}.sy", n)), t).unwrap();
        }
        let mut acc = Stats::new();
        let mut seq = 0;
        for (first, _) in progs.iter().map(|p| (Some(p.0), 0)).chain([(None, 0), (Some("garbage"), 0)]) {
            for (second, _) in &progs {
                seq += 1;
                let out = root.join(format!("out{}.lua", seq));
                match first {
                    None => {}
                    Some("garbage") => std::fs::write(&out, "this is not Lua at all {{{{ ]] \n".repeat(2000)).unwrap(),
                    Some(f) => {
                        let _ = std::process::Command::new(&bin).arg("--no-std").arg("-o").arg(&out).arg(root.join(format!("{}.sy", f))).output();
                    }
                }
                let o = std::process::Command::new(&bin).arg("--no-std").arg("-o").arg(&out).arg(root.join(format!("{}.sy", second))).output().expect("run sylt");
                acc.evaluations += 1;
                if o.status.code() != Some(0) {
                    acc.count("driver-reported-failure(C20)", 1);
                    continue;
                }
                let bytes = std::fs::read(&out).unwrap_or_default();
                acc.nontrivial(fnv(format!("{:?}>{}", first, second).as_bytes()));
                match loads(&bytes) {
                    Ok(_) => acc.outcome("loads"),
                    Err(e) => {
                        let sig = load_sig(&e);
                        acc.outcome(&sig);
                        acc.fail(Failure { sig, preds: vec!["output-file-written-by-the-driver".into()], detail: format!("{:?}\nsylt -o FILE {}.sy after FILE held {:?}: the file ({} bytes) does not load", e, second, first, bytes.len()), case: json!({"engine": "c06-driver", "first": first, "second": second}), size: 10 });
                    }
                }
            }
        }
        let _ = std::fs::remove_dir_all(&root);
        st.merge(acc);
    }
    let stop = AtomicBool::new(false);
    let _ = &stop;
    let accs = crate::pool::par_items(&cases, 8, |_| Stats::new(), |acc, i, (fam, text, no_std, want, preds)| {
        check_text(acc, fam, text, *no_std, want.as_deref(), preds.clone());
        acc.count(&format!("lexical-family:{}", fam.split(':').next().unwrap()), 1);
        if i % 1009 == 0 {
            acc.sample(json!({"family": fam, "program": text.chars().take(400).collect::<String>()}));
        }
    });
    st.merge(Stats::merge_all(accs));
    run.stats = st;
    run.bounds = json!({"families": bounds, "field_names": FIELD_NAMES, "string_alphabet": STR_ALPHABET, "max_string_len": maxlen, "numeric_literals": NUM_LITERALS, "unused_expressions": UNUSED_EXPRS.len(), "sizes": sizes});
    run.rule = format!("the Lua loader on the output of every successful compile of (a) {} and (b) lexical families: blob field names (Lua keywords and library names), every string literal content up to the length bound over a 23-character alphabet (backslash, quote-like characters, brackets, tab, LF, CR, ESC, NUL, DEL, digits, non-ASCII), numeric literal forms, every expression kind as an unused statement at first/middle/last position, bodies and files of n statements for the listed n with and without std; every short family program with one exit statement (ret, ret 0, break, continue, <!>, do-blocks ending in ret) inserted at every position of every block; the output file the sylt driver leaves behind when 3 programs of different size are compiled to one path in every order (also onto a fresh path and onto unrelated text); every pattern of defining, assigning (0-2 times), compound-assigning and reading (0-2 times) a local / global variable with 6 initialiser kinds; a two-file program with `<!>` and `<=>` compiled from 12 directories whose names contain quotes, backslashes, brackets, `%`, `--`, tabs and non-ASCII text; non-trivial = compiled; distinct by text", crate::engines::c01::FAMILY_RULE);
    run.assumptions = vec![
        "the loader is MiniLua's (full Lua 5.3 grammar, goto/label rules, 200 active locals, 255 upvalues, 200 nesting levels); register allocation limits are not modelled".into(),
        "programs the compiler rejects are not in the domain of the property and are only counted".into(),
    ];
}

pub fn replay(case: &serde_json::Value) -> Option<(String, String)> {
    if case["engine"] == "c06-driver" {
        println!("driver cases are re-run by ./check C06 (they need the built sylt binary and a scratch directory)");
        return Some(("load-error".into(), format!("sylt -o FILE {}.sy after {}", case["second"], case["first"])));
    }
    if let Some(main) = case["main"].as_str() {
        let mut files = Files::new();
        for (k, v) in case["files"].as_object()? {
            files.insert(k.clone(), v.as_str()?.to_string());
        }
        return match compile(&files, main, true) {
            Outcome::Ok(lua) => match loads(&lua) {
                Ok(_) => None,
                Err(e) => Some((load_sig(&e), format!("{:?}", e))),
            },
            _ => None,
        };
    }
    let text = case["files"][MAIN].as_str()?;
    let no_std = case["no_std"].as_bool().unwrap_or(true);
    match compile(&one_file(text), MAIN, no_std) {
        Outcome::Ok(lua) => match loads(&lua) {
            Ok(_) => None,
            Err(e) => Some((load_sig(&e), format!("{:?}", e))),
        },
        _ => None,
    }
}
