//! C12 — modules: every partition of a program's globals into files/folders x import style
//! per file pair; the multi-file project must behave like the single-file program, read every
//! file exactly once, and negative twins (dropped import, missing name, colliding alias) must
//! be rejected.

use crate::harness::*;
use crate::luarun::*;
use crate::report::{Failure, Run, Stats};
use serde_json::json;
use std::collections::BTreeMap;

#[derive(Clone, Copy, Debug, PartialEq, Eq, PartialOrd, Ord)]
enum Style {
    Ns,
    Alias,
    From,
    FromAs,
    /// main reaches the item through the other file's namespace: `via.target.name`
    Chain,
}
const STYLES: [Style; 4] = [Style::Ns, Style::Alias, Style::From, Style::FromAs];

#[derive(Clone, Copy, Debug, PartialEq, Eq)]
enum Place {
    Root,
    Sub,
    Exports,
}

/// items: name, kind, dependencies (names of other items)
const ITEMS: &[(&str, &[&str])] = &[("k", &[]), ("m", &[]), ("fa", &["k"]), ("P", &[]), ("E", &[]), ("bump", &["m"]), ("fe", &["k"]), ("fl", &["m"])];

struct Layout {
    /// file index per item (0 = main)
    file_of: Vec<usize>,
    places: Vec<Place>,
    /// style per ordered file pair (from, to)
    styles: BTreeMap<(usize, usize), Style>,
    items: usize,
}

fn file_path(f: usize, places: &[Place]) -> String {
    match (f, places.get(f.wrapping_sub(1))) {
        (0, _) => MAIN.to_string(),
        (n, Some(Place::Root)) => format!("/p/f{}.sy", n),
        (n, Some(Place::Sub)) => format!("/p/sub/f{}.sy", n),
        (_, Some(Place::Exports)) => "/p/sub/exports.sy".to_string(),
        _ => unreachable!(),
    }
}

/// (use path text as written in file `from`, default namespace name)
fn use_path(from: usize, to: usize, places: &[Place]) -> (String, String) {
    let from_in_sub = from != 0 && !matches!(places[from - 1], Place::Root);
    if to == 0 {
        return ("/main".to_string(), "main".to_string());
    }
    let name = format!("f{}", to);
    match places[to - 1] {
        Place::Root => (if from_in_sub { format!("/{}", name) } else { name.clone() }, name),
        Place::Sub => (if from_in_sub { name.clone() } else { format!("sub/{}", name) }, name),
        Place::Exports => (if from_in_sub { "/sub/".to_string() } else { "sub/".to_string() }, "sub".to_string()),
    }
}

/// does main refer to an item of file `to` (so that a chain through the other file is needed)?
fn file_uses_chain(l: &Layout, items: &[&str], to: usize) -> bool {
    items.iter().enumerate().any(|(i, _)| l.file_of[i] == to)
}

fn item_source(name: &str, r: &dyn Fn(&str) -> String) -> String {
    match name {
        "k" => "k :: 3\n".into(),
        "m" => "m := 10\n".into(),
        "fa" => format!("fa :: fn q: int -> int\n    q + {}\nend\n", r("k")),
        "P" => "P :: blob { x: int }\n".into(),
        "E" => "E :: enum\n    A int,\n    B,\nend\n".into(),
        "bump" => format!("bump :: fn do\n    {} += 1\nend\n", r("m")),
        // the constant only in an elif condition, the variable only in a loop condition and a case-else arm
        "fe" => format!("fe :: fn q: int -> int\n    if q < 0 do\n        0\n    elif q < {} do\n        1\n    else do\n        2\n    end\nend\n", r("k")),
        "fl" => format!("fl :: fn -> int\n    i := 0\n    loop i < {} do\n        i += 4\n    end\n    case (if i > 0 do 1 else 2 end) do\n        else do\n            i += {}\n        end\n    end\n    i\nend\n", r("m"), r("m")),
        _ => unreachable!(),
    }
}

fn start_source(items: &[&str], r: &dyn Fn(&str) -> String) -> String {
    let mut s = String::from("start :: fn do\n");
    for it in items {
        match *it {
            "k" => s.push_str(&format!("    print({} + 1)\n", r("k"))),
            "m" => s.push_str(&format!("    print({})\n    {} = {} * 2\n    print({})\n", r("m"), r("m"), r("m"), r("m"))),
            "fa" => s.push_str(&format!("    print({}(2))\n", r("fa"))),
            "P" => s.push_str(&format!("    pp: {} = {} {{ x: 4 }}\n    print(pp.x)\n", r("P"), r("P"))),
            "E" => s.push_str(&format!("    ee := {}.A 5\n    case ee do\n        A q -> do\n            print(q)\n        end\n        else do end\n    end\n    print(ee == {}.B)\n", r("E"), r("E"))),
            "bump" => s.push_str(&format!("    {}()\n    {}()\n", r("bump"), r("bump"))),
            "fe" => s.push_str(&format!("    print({}(2))\n    print({}(5))\n", r("fe"), r("fe"))),
            "fl" => s.push_str(&format!("    print({}())\n", r("fl"))),
            _ => {}
        }
    }
    if items.contains(&"m") {
        s.push_str(&format!("    print({})\n", r("m")));
    }
    s.push_str("end\n");
    s
}

const PRINT: &str = "print: fn *X -> void : external\n";

/// builds the project; `mutation` optionally breaks it: ("drop", k) drops the k-th import line,
/// ("missing", k) imports a non-existent name, ("collide", _) adds a colliding alias
fn build(l: &Layout, items: &[&str], mutation: Option<(&str, usize)>) -> Option<(Files, usize)> {
    let nfiles = l.places.len() + 1;
    let file_of = |name: &str| -> usize { l.file_of[items.iter().position(|i| *i == name).unwrap()] };
    let mut files = Files::new();
    let mut import_lines_total = 0usize;
    for f in 0..nfiles {
        // which other files does f reference?
        let mut needed: BTreeMap<usize, Vec<String>> = BTreeMap::new();
        let mut note = |name: &str, needed: &mut BTreeMap<usize, Vec<String>>| {
            let t = file_of(name);
            if t != f {
                let e = needed.entry(t).or_default();
                if !e.contains(&name.to_string()) {
                    e.push(name.to_string());
                }
            }
        };
        let mine: Vec<&str> = items.iter().filter(|i| file_of(i) == f).cloned().collect();
        for it in &mine {
            for d in ITEMS.iter().find(|x| x.0 == *it).unwrap().1 {
                if items.contains(d) {
                    note(d, &mut needed);
                }
            }
        }
        if f == 0 {
            for it in items {
                note(it, &mut needed);
            }
        }
        let r = |name: &str| -> String {
            let t = file_of(name);
            if t == f {
                return name.to_string();
            }
            match l.styles.get(&(f, t)).copied().unwrap_or(Style::Ns) {
                Style::Chain => {
                    let via = (1..nfiles).find(|o| *o != t && *o != f).unwrap();
                    format!("{}.{}.{}", use_path(f, via, &l.places).1, use_path(via, t, &l.places).1, name)
                }
                Style::Ns => format!("{}.{}", use_path(f, t, &l.places).1, name),
                Style::Alias => format!("al{}.{}", t, name),
                Style::From => name.to_string(),
                Style::FromAs => format!("{}_{}", name, t),
            }
        };
        let mut text = String::new();
        let mut lines: Vec<String> = Vec::new();
        for (t, names) in &needed {
            let (path, _) = use_path(f, *t, &l.places);
            match l.styles.get(&(f, *t)).copied().unwrap_or(Style::Ns) {
                Style::Chain => {
                    let via = (1..nfiles).find(|o| *o != *t && *o != f).unwrap();
                    let l1 = format!("use {}", use_path(f, via, &l.places).0);
                    if !lines.contains(&l1) {
                        lines.push(l1);
                    }
                }
                Style::Ns => lines.push(format!("use {}", path)),
                Style::Alias => lines.push(format!("use {} as al{}", path, t)),
                Style::From => {
                    if names.len() > 1 {
                        lines.push(format!("from {} use ({})", path, names.join(", ")));
                    } else {
                        lines.push(format!("from {} use {}", path, names[0]));
                    }
                }
                Style::FromAs => {
                    for n in names {
                        lines.push(format!("from {} use {} as {}_{}", path, n, n, t));
                    }
                }
            }
        }
        // a chain from main through this file needs this file to `use` the target
        for ((from, to), st) in l.styles.iter() {
            if *st == Style::Chain && *from == 0 && nfiles == 3 && f != 0 && *to != f && file_uses_chain(l, items, *to) {
                let line = format!("use {}", use_path(f, *to, &l.places).0);
                if !lines.contains(&line) {
                    lines.push(line);
                }
            }
        }
        for (li, line) in lines.iter().enumerate() {
            let global_index = import_lines_total + li;
            match mutation {
                Some(("drop", k)) if k == global_index => continue,
                Some(("missing", k)) if k == global_index => {
                    // import a name the module does not have / a module that does not exist
                    if line.starts_with("from ") {
                        let head = line.split(" use ").next().unwrap();
                        text.push_str(&format!("{} use nosuchname\n", head));
                    } else {
                        text.push_str("use nosuchmodule\n");
                    }
                    text.push_str(line);
                    text.push('\n');
                    continue;
                }
                Some(("collide", k)) if k == global_index => {
                    // a second, different module under the same name
                    if line.starts_with("use ") && l.places.len() >= 2 {
                        let alias = if line.contains(" as ") { line.rsplit(" as ").next().unwrap().to_string() } else { line.trim_start_matches("use ").trim_matches('/').rsplit('/').next().unwrap().to_string() };
                        let this_target = needed.keys().nth(li.min(needed.len().saturating_sub(1))).copied().unwrap_or(0);
                        let other = (1..nfiles).find(|o| *o != this_target && *o != f);
                        if let Some(o) = other {
                            text.push_str(line);
                            text.push('\n');
                            text.push_str(&format!("use {} as {}\n", use_path(f, o, &l.places).0, alias));
                            continue;
                        }
                    }
                    return None;
                }
                _ => {}
            }
            text.push_str(line);
            text.push('\n');
        }
        import_lines_total += lines.len();
        text.push_str(PRINT);
        for it in &mine {
            text.push_str(&item_source(it, &r));
        }
        if f == 0 {
            text.push_str(&start_source(items, &r));
        } else {
            // every other module has a private `start` of its own that nobody imports
            text.push_str(&format!("start :: fn do\n    print(\"start of module {}\")\nend\n", f));
        }
        files.insert(file_path(f, &l.places), text);
    }
    if let Some((_, k)) = mutation {
        if k >= import_lines_total {
            return None;
        }
    }
    Some((files, import_lines_total))
}

fn single_file(items: &[&str]) -> String {
    let r = |n: &str| n.to_string();
    let mut text = String::from(PRINT);
    for it in items {
        text.push_str(&item_source(it, &r));
    }
    text.push_str(&start_source(items, &r));
    text
}

fn run_files(files: &Files) -> (Outcome, Vec<String>) {
    let out = compile(files, MAIN, true);
    (out, read_log())
}

/// a blob field that is called like the namespace a module is imported under, used in the middle of access
/// paths whose root is a value: `app.cfg.scale` with `use cfg`. The path reads the field; the module's globals
/// of the same name stay what they are. Every placement of the module x plain/aliased import x the blob declared
/// in main or in a third file x the module having globals called like the blob's fields or not x six path shapes.
fn field_like_namespace_family(acc: &mut Stats) {
    let shapes: [(&str, &str); 6] = [
        ("read", "    print(app.{N}.scale)\n    print(app.{N}.title)\n"),
        ("call-root", "    print(make(\"other\", 7).{N}.scale)\n"),
        ("assign", "    app.{N}.scale = 5\n    print(app.{N}.scale)\n    app.{N}.scale += 2\n    print(app.{N}.scale)\n"),
        ("three-levels", "    w := Wrap { app: app }\n    print(w.app.{N}.scale)\n    w.app.{N}.scale += 2\n    print(w.app.{N}.scale)\n    print(app.{N}.scale)\n"),
        ("index-root", "    t := (app, 1)\n    print(t[0].{N}.title)\n"),
        ("in-a-function", "    print(get(app))\n"),
    ];
    for place in [Place::Root, Place::Sub, Place::Exports] {
        for alias in [false, true] {
            for blob_in_main in [true, false] {
                for collide in [false, true] {
                    for (shape, body) in shapes {
                        let (mod_file, use_path, default_ns) = match place {
                            Place::Root => ("/p/cfg.sy", "cfg", "cfg"),
                            Place::Sub => ("/p/sub/cfg.sy", "sub/cfg", "cfg"),
                            Place::Exports => ("/p/sub/exports.sy", "sub/", "sub"),
                        };
                        let ns = if alias { "conf" } else { default_ns };
                        let use_line = if alias { format!("use {} as conf\n", use_path) } else { format!("use {}\n", use_path) };
                        let globals = if collide { "scale := 1\ntitle :: \"untitled\"\n" } else { "other := 1\nnick :: \"untitled\"\n" };
                        let (g1, g2) = if collide { ("scale", "title") } else { ("other", "nick") };
                        let module = |q: &dyn Fn(&str) -> String| format!("Config :: blob {{\n    scale: int,\n    title: str,\n}}\n{}defaults :: fn -> Config do\n    ret Config {{ scale: {}, title: {} }}\nend\n", globals, q(g1), q(g2));
                        let app_decl = |q: &dyn Fn(&str) -> String| format!("App :: blob {{\n    name: str,\n    {}: {},\n}}\n", ns, q("Config"));
                        let rest = |q: &dyn Fn(&str) -> String, a: &dyn Fn(&str) -> String| {
                            format!(
                                "Wrap :: blob {{\n    app: {app},\n}}\nmake :: fn name: str, scale: int -> {app} do\n    ret {app} {{ name: name, {ns}: {cfgt} {{ scale: scale, title: name }} }}\nend\nget :: fn a: {app} -> int\n    a.{ns}.scale\nend\nstart :: fn do\n    app := make(\"demo\", 3)\n{body}    print({g1})\n    print({g2})\n    print({defaults}().scale)\n    {g1} = 9\n    print({defaults}().scale)\n    print(app.{ns}.scale)\nend\n",
                                app = a("App"),
                                ns = ns,
                                cfgt = q("Config"),
                                body = body.replace("{N}", ns),
                                g1 = q(g1),
                                g2 = q(g2),
                                defaults = q("defaults"),
                            )
                        };
                        let bare = |n: &str| n.to_string();
                        let qual = |n: &str| format!("{}.{}", ns, n);
                        let single = format!("{}{}{}{}", PRINT, module(&bare), app_decl(&bare), rest(&bare, &bare));
                        let mut files = Files::new();
                        files.insert(mod_file.to_string(), module(&bare));
                        if blob_in_main {
                            files.insert(MAIN.to_string(), format!("{}{}{}{}", PRINT, use_line, app_decl(&qual), rest(&qual, &bare)));
                        } else {
                            files.insert("/p/types.sy".to_string(), format!("{}{}", use_line, app_decl(&qual)));
                            let tq = |n: &str| format!("types.{}", n);
                            files.insert(MAIN.to_string(), format!("{}{}use types\n{}", PRINT, use_line, rest(&qual, &tq)));
                        }
                        acc.evaluations += 2;
                        acc.states += 1;
                        acc.nontrivial(fnv(format!("{:?}", files).as_bytes()));
                        let want = match compile_src(&single) {
                            Outcome::Ok(lua) => {
                                let r = run_lua(&lua, 5_000_000);
                                if r.end != LuaEnd::Done {
                                    eprintln!("MACHINERY: C12 single-file base fails: {:?}\n{}", r.end, single);
                                    std::process::exit(2);
                                }
                                r.out
                            }
                            other => {
                                eprintln!("MACHINERY: C12 single-file base does not compile: {}\n{}", other.short(), single);
                                std::process::exit(2);
                            }
                        };
                        let mut fm = serde_json::Map::new();
                        for (k, v) in &files {
                            fm.insert(k.clone(), json!(v));
                        }
                        let desc = format!("field `{}` of a blob next to `{}`, module at {}, blob declared in {}, module globals {}, path shape {}", ns, use_line.trim(), mod_file, if blob_in_main { "main" } else { "a third file" }, if collide { "named like the fields" } else { "named differently" }, shape);
                        let (out, _) = run_files(&files);
                        match &out {
                            Outcome::Ok(lua) => {
                                let r = run_lua(lua, 5_000_000);
                                if r.end != LuaEnd::Done || r.out != want {
                                    acc.outcome("behaviour-differs-from-single-file");
                                    acc.fail(Failure { sig: "behaviour-differs-from-single-file".into(), preds: vec!["field-named-like-a-namespace".into()], detail: format!("{}\nsingle file prints {:?}\nproject prints    {:?} {:?}\n{:#?}", desc, want, r.out, r.end, files), case: json!({"engine": "c12", "files": fm, "expected": want, "expect": "same"}), size: files.len() * 1000 + 50 });
                                } else {
                                    acc.outcome("field-like-namespace:same-behaviour-as-single-file");
                                    acc.traces_validated += 1;
                                }
                            }
                            other => {
                                acc.outcome("valid-project-rejected");
                                acc.fail(Failure { sig: "valid-project-rejected".into(), preds: vec!["field-named-like-a-namespace".into()], detail: format!("{}\n{}\n{}\n{:#?}", desc, other.short(), if let Outcome::Err { errs, .. } = other { errs.iter().map(|e| e.dbg.clone()).collect::<Vec<_>>().join("\n") } else { String::new() }, files), case: json!({"engine": "c12", "files": fm, "expected": want, "expect": "same"}), size: files.len() * 1000 + 50 });
                            }
                        }
                    }
                }
            }
        }
    }
}

/// projects of many files: main imports N modules (in the project root or a sub-folder). The first, the middle and
/// the last module define `rate` and `price` - the names main defines too -, the others only a blob type (which
/// keeps the chunk below Lua's 200 locals, known finding F-06d). What is printed is known by construction.
fn many_files_family(acc: &mut Stats, thorough: bool) {
    let counts: &[usize] = if thorough { &[3, 4, 5, 8, 9, 16, 17, 32, 33, 64, 65, 100, 128, 129, 200, 255, 256, 257, 258, 300, 513] } else { &[3, 9, 17, 33, 65, 129, 256, 257, 300] };
    for &n in counts {
        for in_sub in [false, true] {
            for reversed_imports in [false, true] {
                let name = |i: usize| format!("shop{:03}", i);
                let value_modules = [1usize, n / 2 + 1, n];
                let mut files = Files::new();
                for i in 1..=n {
                    let path = if in_sub { format!("/p/sub/{}.sy", name(i)) } else { format!("/p/{}.sy", name(i)) };
                    let text = if value_modules.contains(&i) {
                        format!("rate :: {}\nprice :: fn amount: int -> int do\n    ret amount * rate\nend\n", i + 1)
                    } else {
                        format!("Item{} :: blob {{\n    id: int,\n}}\n", i)
                    };
                    files.insert(path, text);
                }
                let mut main = String::from(PRINT);
                let order: Vec<usize> = if reversed_imports { (1..=n).rev().collect() } else { (1..=n).collect() };
                for i in order {
                    main.push_str(&if in_sub { format!("use sub/{}\n", name(i)) } else { format!("use {}\n", name(i)) });
                }
                main.push_str("rate :: 10\nprice :: fn amount: int -> int do\n    ret amount * rate\nend\nstart :: fn do\n    print(price(1))\n");
                let mut want = vec!["10".to_string()];
                let mut seen = Vec::new();
                for v in value_modules {
                    if seen.contains(&v) {
                        continue;
                    }
                    seen.push(v);
                    main.push_str(&format!("    print({}.price(1))\n    print({}.rate)\n", name(v), name(v)));
                    want.push(format!("{}", v + 1));
                    want.push(format!("{}", v + 1));
                }
                for t in [2usize, n - 1] {
                    if !value_modules.contains(&t) && t >= 1 && t <= n {
                        main.push_str(&format!("    it{} :: {}.Item{} {{ id: {} }}\n    print(it{}.id)\n", t, name(t), t, t * 3, t));
                        want.push(format!("{}", t * 3));
                    }
                }
                main.push_str("    print(rate)\nend\n");
                want.push("10".to_string());
                files.insert(MAIN.to_string(), main);
                acc.evaluations += 1;
                acc.states += 1;
                acc.nontrivial(fnv(format!("many files {} {} {}", n, in_sub, reversed_imports).as_bytes()));
                let desc = format!("main imports {} modules ({}; imports written {})", n, if in_sub { "in a sub-folder" } else { "next to it" }, if reversed_imports { "last module first" } else { "first module first" });
                let mut fm = serde_json::Map::new();
                for (k, v) in &files {
                    fm.insert(k.clone(), json!(v));
                }
                let (out, log) = run_files(&files);
                match &out {
                    Outcome::Ok(lua) => {
                        let r = run_lua(lua, 5_000_000);
                        if r.end != LuaEnd::Done || r.out != want {
                            acc.outcome("behaviour-differs-from-single-file");
                            acc.fail(Failure { sig: "behaviour-differs-from-single-file".into(), preds: vec!["many-files".into()], detail: format!("{}\nexpected {:?}\nproject prints {:?} {:?}", desc, want, r.out, r.end), case: json!({"engine": "c12", "files": fm, "expected": want, "expect": "same"}), size: 100_000 + n });
                        } else if log.len() != files.len() {
                            acc.outcome("file-not-read-exactly-once");
                            acc.fail(Failure { sig: "file-not-read-exactly-once".into(), preds: vec!["many-files".into()], detail: format!("{}\n{} reads for {} files", desc, log.len(), files.len()), case: json!({"engine": "c12", "files": fm, "expect": "read-once"}), size: 100_000 + n });
                        } else {
                            acc.outcome("many-files:names-stay-with-their-file");
                            acc.traces_validated += 1;
                        }
                    }
                    other => {
                        acc.outcome("valid-project-rejected");
                        acc.fail(Failure { sig: "valid-project-rejected".into(), preds: vec!["many-files".into()], detail: format!("{}\n{}\n{}", desc, other.short(), if let Outcome::Err { errs, .. } = other { errs.iter().take(3).map(|e| e.dbg.clone()).collect::<Vec<_>>().join("\n") } else { String::new() }), case: json!({"engine": "c12", "files": fm, "expected": want, "expect": "same"}), size: 100_000 + n });
                    }
                }
            }
        }
    }
}

pub fn run(run: &mut Run) {
    let thorough = run.thorough();
    let item_sets: Vec<Vec<&str>> = if thorough {
        vec![vec!["k", "m", "fa", "P"], vec!["k", "fa", "E", "bump", "m"], vec!["P", "E", "fa", "k"], vec!["m", "bump", "k", "fa", "P", "E"], vec!["k", "fe", "m", "fl"], vec!["fe", "fl", "k", "m", "bump"]]
    } else {
        vec![vec!["k", "m", "fa", "P"], vec!["k", "fa", "E", "bump", "m"], vec!["k", "fe", "m", "fl"]]
    };
    let mut cases: Vec<(usize, Layout)> = Vec::new();
    for (si, items) in item_sets.iter().enumerate() {
        let n = items.len();
        for nother in 1..=2usize {
            let nf = nother + 1;
            for code in 0..nf.pow(n as u32) {
                let mut file_of = Vec::new();
                let mut c = code;
                for _ in 0..n {
                    file_of.push(c % nf);
                    c /= nf;
                }
                // every non-main file must hold at least one item
                if (1..nf).any(|f| !file_of.contains(&f)) {
                    continue;
                }
                let place_opts = [Place::Root, Place::Sub, Place::Exports];
                for pc in 0..3usize.pow(nother as u32) {
                    let places: Vec<Place> = (0..nother).map(|i| place_opts[(pc / 3usize.pow(i as u32)) % 3]).collect();
                    if places.iter().filter(|p| **p == Place::Exports).count() > 1 {
                        continue;
                    }
                    let nstyles = if thorough { 16 } else { 4 };
                    for sv in 0..nstyles {
                        let mut styles = BTreeMap::new();
                        let mut idx = 0;
                        for a in 0..nf {
                            for b in 0..nf {
                                if a != b {
                                    let st = if sv < 4 { STYLES[(sv + idx) % 4] } else { STYLES[(sv / 4 + idx * (sv % 4 + 1)) % 4] };
                                    styles.insert((a, b), st);
                                    idx += 1;
                                }
                            }
                        }
                        if nf == 3 && sv < 2 {
                            // main reaches file 1 (sv = 0) or file 2 (sv = 1) through the other file
                            let mut chained = styles.clone();
                            chained.insert((0, 1 + sv), Style::Chain);
                            if places.iter().filter(|p| **p == Place::Exports).count() == 0 || true {
                                cases.push((si, Layout { file_of: file_of.clone(), places: places.clone(), styles: chained, items: n }));
                            }
                        }
                        cases.push((si, Layout { file_of: file_of.clone(), places: places.clone(), styles, items: n }));
                    }
                }
            }
        }
    }
    let refs: Vec<Vec<String>> = item_sets
        .iter()
        .map(|items| {
            let text = single_file(items);
            match compile_src(&text) {
                Outcome::Ok(lua) => {
                    let r = run_lua(&lua, 5_000_000);
                    if r.end != LuaEnd::Done {
                        eprintln!("MACHINERY: C12 base program fails: {:?}", r.end);
                        std::process::exit(2);
                    }
                    r.out
                }
                other => {
                    eprintln!("MACHINERY: C12 base program does not compile: {}\n{}", other.short(), text);
                    std::process::exit(2);
                }
            }
        })
        .collect();
    let accs = crate::pool::par_items(&cases, 8, |_| Stats::new(), |acc, ci, (si, l)| {
        let items = &item_sets[*si];
        let _ = l.items;
        let (files, nimports) = match build(l, items, None) {
            Some(x) => x,
            None => return,
        };
        acc.evaluations += 1;
        acc.states += 1;
        acc.nontrivial(fnv(format!("{:?}", files).as_bytes()));
        let mut fm = serde_json::Map::new();
        for (k, v) in &files {
            fm.insert(k.clone(), json!(v));
        }
        let desc = format!("items {:?} files {:?} places {:?} styles {:?}", items, l.file_of, l.places, l.styles.values().collect::<Vec<_>>());
        let (out, log) = run_files(&files);
        match &out {
            Outcome::Ok(lua) => {
                let r = run_lua(lua, 5_000_000);
                if r.end != LuaEnd::Done || r.out != refs[*si] {
                    acc.outcome("behaviour-differs-from-single-file");
                    acc.fail(Failure { sig: "behaviour-differs-from-single-file".into(), preds: vec![], detail: format!("{}\nsingle file prints {:?}\nproject prints    {:?} {:?}\n{:#?}", desc, refs[*si], r.out, r.end, files), case: json!({"engine": "c12", "files": fm.clone(), "expected": refs[*si], "expect": "same"}), size: files.len() * 1000 + nimports });
                } else {
                    acc.outcome("same-behaviour-as-single-file");
                    acc.traces_validated += 1;
                }
                // every file is read exactly once
                let mut counts: BTreeMap<&String, usize> = BTreeMap::new();
                for p in &log {
                    *counts.entry(p).or_insert(0) += 1;
                }
                let wrong: Vec<String> = files.keys().filter(|k| counts.get(k).copied().unwrap_or(0) != 1).cloned().collect();
                if !wrong.is_empty() || log.len() != files.len() {
                    acc.outcome("file-not-read-exactly-once");
                    acc.fail(Failure { sig: "file-not-read-exactly-once".into(), preds: vec![], detail: format!("{}\nread log: {:?}", desc, log), case: json!({"engine": "c12", "files": fm.clone(), "expect": "read-once"}), size: files.len() * 1000 });
                } else {
                    acc.outcome("every-file-read-once");
                }
            }
            other => {
                acc.outcome("valid-project-rejected");
                acc.fail(Failure { sig: "valid-project-rejected".into(), preds: vec![], detail: format!("{}\n{}\n{}\n{:#?}", desc, other.short(), if let Outcome::Err { errs, .. } = other { errs.iter().map(|e| e.dbg.clone()).collect::<Vec<_>>().join("\n") } else { String::new() }, files), case: json!({"engine": "c12", "files": fm.clone(), "expected": refs[*si], "expect": "same"}), size: files.len() * 1000 + nimports });
                return;
            }
        }
        // the same project with the main file spelled the way a user types it from different working directories
        for (spelled, cwd) in [("main.sy", "/p"), ("./main.sy", "/p"), ("p/main.sy", "/"), ("../p/main.sy", "/q"), ("./p/../p/main.sy", "/")] {
            acc.evaluations += 1;
            let (o, rlog) = compile_spelled(&files, spelled, cwd, true);
            let verdict: Option<(String, String)> = match &o {
                Outcome::Ok(lua) => {
                    let r = run_lua(lua, 5_000_000);
                    let mut counts: BTreeMap<&String, usize> = BTreeMap::new();
                    for (_, key) in &rlog {
                        *counts.entry(key).or_insert(0) += 1;
                    }
                    if r.end != LuaEnd::Done || r.out != refs[*si] {
                        Some(("behaviour-depends-on-how-main-is-spelled".into(), format!("single file prints {:?}\nproject prints    {:?} {:?}", refs[*si], r.out, r.end)))
                    } else if files.keys().any(|k| counts.get(k).copied().unwrap_or(0) != 1) || rlog.len() != files.len() {
                        Some(("file-not-read-exactly-once".into(), format!("read log: {:?}", rlog)))
                    } else {
                        None
                    }
                }
                other => Some(("valid-project-rejected".into(), other.short())),
            };
            match verdict {
                None => acc.outcome("main-spelling:same-behaviour-every-file-read-once"),
                Some((sig, detail)) => {
                    acc.outcome(&sig);
                    acc.fail(Failure { sig, preds: vec![format!("main-spelled:{}", spelled)], detail: format!("{}\nmain given as `{}` from working directory {}\n{}\n{:#?}", desc, spelled, cwd, detail, files), case: json!({"engine": "c12", "files": fm.clone(), "expected": refs[*si], "expect": "same", "main_spelled": spelled, "cwd": cwd}), size: files.len() * 1000 + nimports + 1 });
                }
            }
        }
        // negative twins
        for kind in ["drop", "missing", "collide"] {
            for k in 0..nimports {
                if let Some((bad, _)) = build(l, items, Some((kind, k))) {
                    if bad == files {
                        continue;
                    }
                    acc.evaluations += 1;
                    acc.transitions += 1;
                    let (o, _) = run_files(&bad);
                    match o {
                        Outcome::Err { ref errs, bytes_written } if !errs.is_empty() && bytes_written == 0 => acc.outcome(&format!("negative-twin:{}:rejected", kind)),
                        other => {
                            let mut bm = serde_json::Map::new();
                            for (kk, v) in &bad {
                                bm.insert(kk.clone(), json!(v));
                            }
                            acc.outcome(&format!("negative-twin:{}:NOT-rejected", kind));
                            acc.fail(Failure { sig: format!("negative-twin-accepted:{}", kind), preds: vec![], detail: format!("{} import line #{}: {}\n{:#?}", kind, k, other.short(), bad), case: json!({"engine": "c12", "files": bm, "expect": "rejected"}), size: bad.len() * 1000 });
                        }
                    }
                }
            }
        }
        if ci % 499 == 0 {
            acc.sample(json!({"layout": desc, "files": fm}));
        }
    });
    let mut accs = accs;
    let mut fam = Stats::new();
    field_like_namespace_family(&mut fam);
    many_files_family(&mut fam, thorough);
    accs.push(fam);
    run.stats = Stats::merge_all(accs);
    run.rule = "item sets of 4-6 globals (constant, mutable, function using the constant, blob, enum, function mutating the mutable, function reading the constant only in an elif condition, function reading the variable only in a loop condition and a case-else arm); every non-main module also defines a private `start`; every assignment of the items to main + 1..2 further files x every placement of those files (root, sub-folder, sub/exports.sy) x import style per ordered file pair (use + qualified name, use as alias, from use, from use as; parenthesised lists when several names; /-rooted paths from sub-folder files; cyclic imports arise when items reference main or each other); each project also compiled with the main file spelled `main.sy`, `./main.sy`, `p/main.sy`, `../p/main.sy`, `./p/../p/main.sy` from matching working directories (same behaviour, every file read once under its normalised path); per project three families of negative twins (each import dropped, a missing name/module, a colliding alias); plus 144 projects in which a blob field is called like the namespace a module is imported under and sits in the middle of an access path whose root is a value (module at root / sub-folder / exports.sy x plain or aliased import x blob declared in main or a third file x module globals named like the blob's fields or not x six path shapes: read, call result root, assignment and +=, three levels, tuple-index root, inside a function), each compared with its single-file program; plus projects whose main imports 3 .. 300 (thorough: 513) modules, next to it or in a sub-folder, imports written in either order, where the first, middle and last module define the names main defines as well and the others a type each (expected output by construction); non-trivial = every project; distinct by file map".into();
    run.bounds = json!({"item_sets": item_sets, "projects": cases.len(), "style_vectors": if thorough {16} else {4}});
    run.assumptions = vec![
        "the reference behaviour is that of the single-file program (compiled and run the same way), which C01 ties to the source semantics".into(),
        "re-export chains through `from ... use` are not enumerated (not documented)".into(),
    ];
}

pub fn replay(case: &serde_json::Value) -> Option<(String, String)> {
    let mut files = Files::new();
    for (k, v) in case["files"].as_object()? {
        files.insert(k.clone(), v.as_str()?.to_string());
    }
    if let (Some(spelled), Some(cwd)) = (case["main_spelled"].as_str(), case["cwd"].as_str()) {
        let (o, rlog) = compile_spelled(&files, spelled, cwd, true);
        return match o {
            Outcome::Ok(lua) => {
                let r = run_lua(&lua, 5_000_000);
                let want: Vec<String> = case["expected"].as_array()?.iter().filter_map(|x| x.as_str().map(|s| s.to_string())).collect();
                if r.out != want || r.end != LuaEnd::Done {
                    Some(("behaviour-depends-on-how-main-is-spelled".into(), format!("{:?} {:?}", r.out, r.end)))
                } else if rlog.len() != files.len() {
                    Some(("file-not-read-exactly-once".into(), format!("{:?}", rlog)))
                } else {
                    None
                }
            }
            other => Some(("valid-project-rejected".into(), other.short())),
        };
    }
    let out = compile(&files, MAIN, true);
    match case["expect"].as_str()? {
        "rejected" => if out.is_err() { None } else { Some(("negative-twin-accepted".into(), out.short())) },
        "read-once" => {
            let log = read_log();
            if log.len() == files.len() { None } else { Some(("file-not-read-exactly-once".into(), format!("{:?}", log))) }
        }
        _ => match out {
            Outcome::Ok(lua) => {
                let r = run_lua(&lua, 5_000_000);
                let want: Vec<String> = case["expected"].as_array()?.iter().filter_map(|x| x.as_str().map(|s| s.to_string())).collect();
                if r.out == want && r.end == LuaEnd::Done { None } else { Some(("behaviour-differs-from-single-file".into(), format!("{:?} {:?}", r.out, r.end))) }
            }
            other => Some(("valid-project-rejected".into(), other.short())),
        },
    }
}
