//! C11 — top-level order is irrelevant: all small dependency graphs between global
//! initialisers x all permutations of the top-level statements. The reference evaluates the
//! initialisers in every order that never touches an uninitialised global; programs whose
//! meaning differs between such orders are inherently order-dependent and excluded.

use crate::ast::*;
use crate::harness::*;
use crate::luarun::*;
use crate::refsylt::{self, End};
use crate::report::{Failure, Run, Stats};
use serde_json::json;

#[derive(Clone, Copy, Debug, PartialEq, Eq)]
enum Edge {
    None,
    Read,
    ReadInCalledFn,
    ReadInStoredFn,
    AssignInCalledFn,
    OpAssignInCalledFn,
    BlobField,
    // the read wrapped in each expression / statement form the dependency analysis has a case for
    InThen,
    InElse,
    InCondition,
    InCaseScrutinee,
    InCaseArm,
    InCaseElse,
    InTuple,
    InList,
    InCallArgument,
    InUnary,
    InAndRhs,
    InCalledFnElseBranch,
    InCalledFnLoop,
    InCalledFnNestedCall,
    ThroughFunctionAlias,
    InVariantPayload,
    InIndex,
    InLambdaCalledAtOnce,
    InCalledFnLoopCondition,
    InCalledFnBlock,
    InCalledFnEarlyRet,
    InCalledClosureOfFn,
    InBlobMethodCalledAtOnce,
    InMethodOfGlobalBlob,
    AssignInMethodOfGlobalBlob,
    /// WRAPPED[k] inside a function that the initialiser calls
    ViaFn(u8),
}

const KINDS: [Edge; 6] = [Edge::Read, Edge::ReadInCalledFn, Edge::ReadInStoredFn, Edge::AssignInCalledFn, Edge::OpAssignInCalledFn, Edge::BlobField];
/// expression-level wrapped forms that are also tried inside a called function (ViaFn)
const VIA_FN: [u8; 13] = [0, 1, 2, 3, 4, 5, 6, 7, 8, 9, 10, 15, 16];
const STMT_IN_FN: [Edge; 7] = [Edge::InCalledFnLoopCondition, Edge::InCalledFnBlock, Edge::InCalledFnEarlyRet, Edge::InCalledClosureOfFn, Edge::InBlobMethodCalledAtOnce, Edge::InMethodOfGlobalBlob, Edge::AssignInMethodOfGlobalBlob];
const WRAPPED: [Edge; 18] = [
    Edge::InThen, Edge::InElse, Edge::InCondition, Edge::InCaseScrutinee, Edge::InCaseArm, Edge::InCaseElse, Edge::InTuple, Edge::InList, Edge::InCallArgument,
    Edge::InUnary, Edge::InAndRhs, Edge::InCalledFnElseBranch, Edge::InCalledFnLoop, Edge::InCalledFnNestedCall, Edge::ThroughFunctionAlias, Edge::InVariantPayload,
    Edge::InIndex, Edge::InLambdaCalledAtOnce,
];

fn g(i: usize) -> String {
    format!("g{}", i)
}

struct Built {
    /// main items (permuted): blob decl, globals, start
    main: Vec<Top>,
    helpers: Vec<Top>,
    nglobals: usize,
}

/// the expression that carries the edge i -> j (may add helper functions)
fn term_for(k: Edge, i: usize, j: usize, helpers: &mut Vec<Top>) -> Option<Expr> {
    Some(match k {
                Edge::None => return None,
                Edge::Read => var(&g(j)),
                Edge::ReadInCalledFn => {
                    let name = format!("r{}{}", i, j);
                    helpers.push(top_fn(&name, vec![], RetAnn::Ty(Ty::Int), vec![Stmt::Expr(var(&g(j)))]));
                    callv(&name, vec![])
                }
                Edge::ReadInStoredFn => Expr::Index(Box::new(Expr::Tuple(vec![lambda(vec![], RetAnn::Ty(Ty::Int), vec![Stmt::Expr(var(&g(j)))]), int(10)])), 1),
                Edge::AssignInCalledFn => {
                    let name = format!("w{}{}", i, j);
                    helpers.push(top_fn(&name, vec![], RetAnn::Ty(Ty::Int), vec![assign(&g(j), int(50 + i as i64)), Stmt::Expr(int(100))]));
                    callv(&name, vec![])
                }
                Edge::OpAssignInCalledFn => {
                    let name = format!("o{}{}", i, j);
                    helpers.push(top_fn(&name, vec![], RetAnn::Ty(Ty::Int), vec![op_assign(&g(j), BinOp::Add, int(7)), Stmt::Expr(int(1000))]));
                    callv(&name, vec![])
                }
                Edge::BlobField => field(Expr::Blob("P".into(), vec![("x".into(), var(&g(j)))]), "x"),
                Edge::InThen => if_e(Expr::Bool(true), vec![Stmt::Expr(var(&g(j)))], Some(vec![Stmt::Expr(int(0))])),
                Edge::InElse => if_e(Expr::Bool(false), vec![Stmt::Expr(int(0))], Some(vec![Stmt::Expr(var(&g(j)))])),
                Edge::InCondition => if_e(bin(BinOp::Gt, var(&g(j)), int(-5)), vec![Stmt::Expr(int(20))], Some(vec![Stmt::Expr(int(30))])),
                Edge::InCaseScrutinee => Expr::Case(Box::new(Expr::Variant("V".into(), "A".into(), Some(Box::new(var(&g(j)))))), vec![CaseArm { variant: "A".into(), bind: Some("q".into()), body: vec![Stmt::Expr(var("q"))] }], Some(vec![Stmt::Expr(int(0))])),
                Edge::InCaseArm => Expr::Case(Box::new(Expr::Variant("V".into(), "A".into(), Some(Box::new(int(1))))), vec![CaseArm { variant: "A".into(), bind: Some("q".into()), body: vec![Stmt::Expr(bin(BinOp::Add, var("q"), var(&g(j))))] }], Some(vec![Stmt::Expr(int(0))])),
                Edge::InCaseElse => Expr::Case(Box::new(Expr::Variant("V".into(), "B".into(), None)), vec![CaseArm { variant: "A".into(), bind: Some("q".into()), body: vec![Stmt::Expr(var("q"))] }], Some(vec![Stmt::Expr(var(&g(j)))])),
                Edge::InTuple => Expr::Index(Box::new(Expr::Tuple(vec![int(0), var(&g(j))])), 1),
                Edge::InList => {
                    helpers.push(top_fn(&format!("len1{}{}", i, j), vec![("l", None)], RetAnn::Ty(Ty::Int), vec![Stmt::Expr(int(40))]));
                    callv(&format!("len1{}{}", i, j), vec![Expr::List(vec![var(&g(j))])])
                }
                Edge::InCallArgument => {
                    helpers.push(top_fn(&format!("idf{}{}", i, j), vec![("q", Some(Ty::Int))], RetAnn::Ty(Ty::Int), vec![Stmt::Expr(var("q"))]));
                    callv(&format!("idf{}{}", i, j), vec![var(&g(j))])
                }
                Edge::InUnary => un(UnOp::Neg, var(&g(j))),
                Edge::InAndRhs => if_e(bin(BinOp::And, Expr::Bool(true), bin(BinOp::Gt, var(&g(j)), int(-5))), vec![Stmt::Expr(int(50))], Some(vec![Stmt::Expr(int(60))])),
                Edge::InCalledFnElseBranch => {
                    let name = format!("e{}{}", i, j);
                    helpers.push(top_fn(&name, vec![], RetAnn::Ty(Ty::Int), vec![Stmt::Expr(if_e(Expr::Bool(false), vec![Stmt::Expr(int(0))], Some(vec![Stmt::Expr(var(&g(j)))])))]));
                    callv(&name, vec![])
                }
                Edge::InCalledFnLoop => {
                    let name = format!("l{}{}", i, j);
                    helpers.push(top_fn(&name, vec![], RetAnn::Ty(Ty::Int), vec![def("acc", int(0)), Stmt::Loop(Some(bin(BinOp::Lt, var("acc"), int(1))), vec![op_assign("acc", BinOp::Add, bin(BinOp::Add, var(&g(j)), int(1000)))]), Stmt::Expr(var("acc"))]));
                    callv(&name, vec![])
                }
                Edge::InCalledFnNestedCall => {
                    let inner = format!("ni{}{}", i, j);
                    let outer = format!("no{}{}", i, j);
                    helpers.push(top_fn(&inner, vec![], RetAnn::Ty(Ty::Int), vec![Stmt::Expr(var(&g(j)))]));
                    helpers.push(top_fn(&outer, vec![], RetAnn::Ty(Ty::Int), vec![Stmt::Expr(bin(BinOp::Add, callv(&inner, vec![]), int(1)))]));
                    callv(&outer, vec![])
                }
                Edge::ThroughFunctionAlias => {
                    let name = format!("fa{}{}", i, j);
                    let alias = format!("al{}{}", i, j);
                    helpers.push(top_fn(&name, vec![], RetAnn::Ty(Ty::Int), vec![Stmt::Expr(var(&g(j)))]));
                    helpers.push(Top::Def { name: alias.clone(), mutable: false, ty: None, value: var(&name) });
                    callv(&alias, vec![])
                }
                Edge::InVariantPayload => Expr::Case(Box::new(Expr::Variant("V".into(), "A".into(), Some(Box::new(bin(BinOp::Add, var(&g(j)), int(2)))))), vec![CaseArm { variant: "A".into(), bind: Some("q".into()), body: vec![Stmt::Expr(var("q"))] }], Some(vec![Stmt::Expr(int(0))])),
                Edge::InIndex => Expr::Index(Box::new(Expr::Tuple(vec![var(&g(j)), int(0)])), 0),
                Edge::InLambdaCalledAtOnce => call(Expr::Paren(Box::new(lambda(vec![], RetAnn::Ty(Ty::Int), vec![Stmt::Expr(var(&g(j)))]))), vec![]),
                    Edge::ViaFn(w) => {
            // the wrapped read sits in a function the initialiser calls
            let inner = term_for(WRAPPED[w as usize], i, j, helpers)?;
            let name = format!("vf{}{}", i, j);
            helpers.push(top_fn(&name, vec![], RetAnn::Ty(Ty::Int), vec![Stmt::Expr(inner)]));
            callv(&name, vec![])
        }
        Edge::InCalledFnLoopCondition => {
            let name = format!("lc{}{}", i, j);
            helpers.push(top_fn(&name, vec![], RetAnn::Ty(Ty::Int), vec![def("acc", int(0)), Stmt::Loop(Some(bin(BinOp::Lt, var("acc"), var(&g(j)))), vec![op_assign("acc", BinOp::Add, int(1000))]), Stmt::Expr(var("acc"))]));
            callv(&name, vec![])
        }
        Edge::InCalledFnBlock => {
            let name = format!("bk{}{}", i, j);
            helpers.push(top_fn(&name, vec![], RetAnn::Ty(Ty::Int), vec![def("acc", int(0)), Stmt::Block(vec![Stmt::Block(vec![assign("acc", var(&g(j)))])]), Stmt::Expr(var("acc"))]));
            callv(&name, vec![])
        }
        Edge::InCalledFnEarlyRet => {
            let name = format!("er{}{}", i, j);
            helpers.push(top_fn(&name, vec![], RetAnn::Ty(Ty::Int), vec![Stmt::Expr(if_e(Expr::Bool(true), vec![Stmt::Ret(Some(var(&g(j))))], None)), Stmt::Expr(int(0))]));
            callv(&name, vec![])
        }
        Edge::InBlobMethodCalledAtOnce => {
            if !helpers.iter().any(|t| matches!(t, Top::Blob { name, .. } if name == "PM")) {
                helpers.push(Top::Blob { name: "PM".into(), fields: vec![("f".into(), Ty::Fn(vec![], Box::new(Ty::Int)))] });
            }
            call(field(Expr::Paren(Box::new(Expr::Blob("PM".into(), vec![("f".into(), lambda(vec![], RetAnn::Ty(Ty::Int), vec![Stmt::Expr(var(&g(j)))]))]))), "f"), vec![])
        }
        Edge::InMethodOfGlobalBlob | Edge::AssignInMethodOfGlobalBlob => {
            if !helpers.iter().any(|t| matches!(t, Top::Blob { name, .. } if name == "PM")) {
                helpers.push(Top::Blob { name: "PM".into(), fields: vec![("f".into(), Ty::Fn(vec![], Box::new(Ty::Int)))] });
            }
            let inst = format!("inst{}{}", i, j);
            let body = if k == Edge::InMethodOfGlobalBlob { vec![Stmt::Expr(var(&g(j)))] } else { vec![assign(&g(j), int(70 + i as i64)), Stmt::Expr(int(100))] };
            helpers.push(Top::Def { name: inst.clone(), mutable: false, ty: None, value: Expr::Blob("PM".into(), vec![("f".into(), lambda(vec![], RetAnn::Ty(Ty::Int), body))]) });
            call(field(var(&inst), "f"), vec![])
        }
        Edge::InCalledClosureOfFn => {
            let name = format!("cl{}{}", i, j);
            helpers.push(top_fn(&name, vec![], RetAnn::Ty(Ty::Int), vec![cdef("inner", lambda(vec![], RetAnn::Ty(Ty::Int), vec![Stmt::Expr(var(&g(j)))])), Stmt::Expr(callv("inner", vec![]))]));
            callv(&name, vec![])
        }
    })
}

fn build(n: usize, edges: &[(usize, usize, Edge)]) -> Built {
    let mut helpers = Vec::new();
    let mut main = vec![Top::Blob { name: "P".into(), fields: vec![("x".into(), Ty::Int)] }];
    if edges.iter().any(|e| !KINDS.contains(&e.2)) {
        helpers.push(Top::Enum { name: "V".into(), variants: vec![("A".into(), Some(Ty::Int)), ("B".into(), None)] });
    }
    for i in 0..n {
        let mut init = int(i as i64 + 1);
        for (a, b, k) in edges.iter().filter(|e| e.0 == i) {
            let _ = a;
            let j = *b;
            let term = match term_for(*k, i, j, &mut helpers) {
                Some(t) => t,
                None => continue,
            };
            init = bin(BinOp::Add, init, term);
        }
        main.push(Top::Def { name: g(i), mutable: true, ty: None, value: init });
    }
    let mut body = Vec::new();
    for i in 0..n {
        body.push(print_of(var(&g(i))));
    }
    main.push(start_fn(body));
    Built { main, helpers, nglobals: n }
}

fn permutations(n: usize) -> Vec<Vec<usize>> {
    let mut out = Vec::new();
    let mut cur: Vec<usize> = (0..n).collect();
    fn heap(k: usize, a: &mut Vec<usize>, out: &mut Vec<Vec<usize>>) {
        if k == 1 {
            out.push(a.clone());
            return;
        }
        for i in 0..k {
            heap(k - 1, a, out);
            if k % 2 == 0 {
                a.swap(i, k - 1);
            } else {
                a.swap(0, k - 1);
            }
        }
    }
    heap(n, &mut cur, &mut out);
    out
}

/// "--- name.sy\n<text>" sections (as printed in details) back into a file map; plain text is main.sy
fn files_json(text: &str) -> serde_json::Map<String, serde_json::Value> {
    let mut files = serde_json::Map::new();
    if !text.starts_with("--- ") {
        files.insert(MAIN.to_string(), json!(text));
        return files;
    }
    let mut name = String::new();
    let mut cur = String::new();
    for line in text.split_inclusive('\n') {
        if let Some(n) = line.strip_prefix("--- ") {
            if !name.is_empty() {
                files.insert(format!("/p/{}", name), json!(cur));
            }
            name = n.trim().to_string();
            cur = String::new();
        } else {
            cur.push_str(line);
        }
    }
    files.insert(format!("/p/{}", name), json!(cur));
    files
}

/// entry point and isolation across files: main uses two modules that each define their own `start` and their own
/// `g`; whatever the order of main's statements (including the `use` lines) and of each module's statements, main's
/// `start` is the entry and sees main's `g`.
pub fn entry_family(acc: &mut Stats) {
    let main_items = ["use a", "use b", "g :: 1", "start :: fn do\n    print(g + a.g + b.g)\n    a.start()\nend"];
    let a_items = ["print: fn *X -> void : external", "g :: 10", "start :: fn do\n    print(\"a\")\nend"];
    let b_items = ["print: fn *X -> void : external", "g :: 100", "start :: fn do\n    print(\"b\")\nend", "use a"];
    let want = vec!["111".to_string(), "a".to_string()];
    let mut distinct = std::collections::BTreeSet::new();
    for mp in permutations(main_items.len()) {
        for ap in permutations(a_items.len()) {
            for bp in permutations(b_items.len()) {
                let join = |items: &[&str], perm: &Vec<usize>| perm.iter().map(|k| items[*k]).collect::<Vec<_>>().join("\n") + "\n";
                let mut files = Files::new();
                files.insert(MAIN.to_string(), format!("print: fn *X -> void : external\n{}", join(&main_items, &mp)));
                files.insert("/p/a.sy".to_string(), join(&a_items, &ap));
                files.insert("/p/b.sy".to_string(), join(&b_items, &bp));
                acc.evaluations += 1;
                acc.transitions += 1;
                let text = format!("--- main.sy\n{}--- a.sy\n{}--- b.sy\n{}", files[MAIN], files["/p/a.sy"], files["/p/b.sy"]);
                let got = match compile(&files, MAIN, true) {
                    Outcome::Ok(lua) => {
                        let lr = run_lua(&lua, 2_000_000);
                        match lr.end {
                            LuaEnd::Done => Ok(lr.out),
                            other => Ok(vec![format!("!!{:?}", other)].into_iter().chain(lr.out.into_iter()).collect()),
                        }
                    }
                    other => Err(other.short()),
                };
                distinct.insert(format!("{:?}", got));
                if got.as_ref().ok() != Some(&want) {
                    acc.outcome("entry:WRONG");
                    acc.fail(Failure {
                        sig: "entry-point-or-module-global-depends-on-order".into(),
                        preds: vec![],
                        detail: format!("main order {:?}, a order {:?}, b order {:?}\nexpected {:?}\ngot {:?}\n{}", mp, ap, bp, want, got, text),
                        case: json!({"engine": "c11", "files": files_json(&text), "expected": want}),
                        size: 100 + text.len(),
                    });
                } else {
                    acc.outcome("entry:main-start-runs-in-every-order");
                    acc.traces_validated += 1;
                }
            }
        }
    }
    acc.states += 1;
    acc.nontrivial(fnv(b"entry-family"));
    acc.count("entry_family_distinct_behaviours", distinct.len() as u64);
}

/// order must not decide acceptance of an ill-typed program either: type declarations that name each other (and
/// themselves) x one definite mismatch against a declared field / payload type, under every order of the top-level
/// statements - rejected in all of them or in none
fn type_order_family(acc: &mut Stats) {
    type_order_group(acc, &GENERIC_DECLS, &GENERIC_USES);
    let decls = ["A :: blob { b: B }", "B :: blob { x: int, c: C }", "C :: blob { y: int }", "E :: enum\n    V B,\n    W,\nend", "L :: enum\n    Cons (int, L),\n    Nil,\nend"];
    let uses: [(&str, &str, bool); 12] = [
        ("blob field of a blob type", "a :: A { b: 1 }", false),
        ("blob field given the right blob", "a :: A { b: B { x: 1, c: C { y: 2 } } }", true),
        ("variant payload of a blob type", "e :: E.V 1", false),
        ("variant payload given the right blob", "e :: E.V B { x: 1, c: C { y: 2 } }", true),
        ("recursive enum payload", "l :: L.Cons (1, 2)", false),
        ("recursive enum payload given the enum", "l :: L.Cons (1, L.Nil)", true),
        ("absent field through a field", "a :: A { b: B { x: 1, c: C { y: 2 } } }\n    print(a.b.nope)", false),
        ("annotation with a later type", "a: A = C { y: 1 }", false),
        ("absent field three types deep through a parameter", "w :: fn q: A do\n        print(q.b.c.nope)\n    end", false),
        ("field three types deep through a parameter", "w :: fn q: A -> int\n        q.b.c.y + q.b.x\n    end", true),
        ("wrong type three types deep", "a :: A { b: B { x: 1, c: C { y: \"s\" } } }", false),
        ("payload field through a variant parameter", "w :: fn q: E do\n        case q do\n            V p -> print(p.c.nope) end\n            else do end\n        end\n    end", false),
    ];
    type_order_group(acc, &decls, &uses);
    // declared types mentioned only as type arguments of other declared types (one and two levels down, in a field, a
    // payload and a tuple), each use with one definite mismatch against the argument or the matching well-typed value
    let decls = ["Bx :: blob(*T) { v: *T }", "Pr :: blob(*T) { a: *T, b: *T }", "W :: blob { inner: Bx(Pr(int)) }", "K :: enum\n    Hold Bx(Pr(int)),\n    Mix (int, Bx(Pr(str))),\n    Zip,\nend"];
    let uses: [(&str, &str, bool); 8] = [
        ("argument of an argument given the wrong type", "w :: W { inner: Bx { v: Pr { a: \"x\", b: \"y\" } } }\n    print(w.inner.v.a + w.inner.v.b)", false),
        ("argument of an argument given the right type", "w :: W { inner: Bx { v: Pr { a: 1, b: 2 } } }\n    print(w.inner.v.a + w.inner.v.b)", true),
        ("argument given another declared type", "w :: W { inner: Bx { v: Bx { v: 1 } } }", false),
        ("absent field of the argument of an argument", "w :: fn q: W do\n        print(q.inner.v.nope)\n    end", false),
        ("payload whose type argument is given the wrong type", "k :: K.Hold Bx { v: Pr { a: 1, b: \"y\" } }", false),
        ("payload whose type argument is given the right type", "k :: K.Hold Bx { v: Pr { a: 1, b: 2 } }\n    print(k)", true),
        ("tuple payload whose type argument is given the wrong type", "k :: K.Mix (1, Bx { v: Pr { a: 1, b: 2 } })", false),
        ("tuple payload whose type argument is given the right type", "k :: K.Mix (1, Bx { v: Pr { a: \"x\", b: \"y\" } })\n    print(k)", true),
    ];
    type_order_group(acc, &decls, &uses);
}

/// generic declarations used at two instantiations, next to functions whose signatures are the only thing that
/// mentions them: a signature creates no dependency edge, so only the types-first placement protects these
const GENERIC_DECLS: [&str; 4] = [
    "O :: enum(*T)\n    Some *T,\n    Non,\nend",
    "G :: blob(*T) {\n    v: *T,\n}",
    "oz :: fn m: O(int) -> int do\n    case m do\n        Some v -> v end\n        Non -> 0 end\n    end\nend",
    "gv :: fn g: G(int) -> int\n    g.v + 1\nend",
];
const GENERIC_USES: [(&str, &str, bool); 8] = [
    ("generic enum at a second instantiation in a global", "print(oz(O.Some 7))\n    print(oz(O.Non))\n    l :: O.Some \"seven\"\n    print(l)", true),
    ("generic enum given the wrong instantiation", "print(oz(O.Some \"seven\"))", false),
    ("generic blob at a second instantiation", "print(gv(G { v: 1 }))\n    h :: G { v: \"s\" }\n    print(h.v)", true),
    ("generic blob given the wrong instantiation", "print(gv(G { v: \"s\" }))", false),
    ("generic enum inside a generic blob", "h :: G { v: O.Some 1.5 }\n    print(h.v)\n    print(oz(O.Some 2))", true),
    ("generic enum payload used at the wrong type", "print(oz(O.Some 1) + \"s\")", false),
    ("unknown variant of the generic enum", "print(oz(O.Nope 1))", false),
    ("absent field of the generic blob", "k :: G { v: 1 }\n    print(k.w)", false),
];

fn type_order_group(acc: &mut Stats, decls: &[&str], uses: &[(&str, &str, bool)]) {
    for &(uname, u, valid) in uses {
        let start = format!("start :: fn do\n    {}\n    print(1)\nend", u);
        let mut items: Vec<String> = decls.iter().map(|d| d.to_string()).collect();
        items.push(start);
        let mut accepted = Vec::new();
        let mut rejected = Vec::new();
        for perm in permutations(items.len()) {
            let text = format!("print: fn *X -> void : external\n{}\n", perm.iter().map(|k| items[*k].clone()).collect::<Vec<_>>().join("\n"));
            acc.evaluations += 1;
            acc.transitions += 1;
            match compile_src(&text) {
                Outcome::Ok(_) => accepted.push(text),
                _ => rejected.push(text),
            }
        }
        acc.states += 1;
        acc.nontrivial(fnv(uname.as_bytes()));
        let ok = if valid { rejected.is_empty() } else { accepted.is_empty() };
        if ok {
            acc.outcome(if valid { "type-order:accepted-in-every-order" } else { "type-order:rejected-in-every-order" });
        } else {
            let (sig, witness) = if !accepted.is_empty() && !rejected.is_empty() {
                ("accepted-in-some-orders-only", if valid { rejected[0].clone() } else { accepted[0].clone() })
            } else if valid {
                ("valid-program-rejected-in-every-order", rejected[0].clone())
            } else {
                ("ill-typed-program-accepted-in-every-order", accepted[0].clone())
            };
            acc.outcome(sig);
            acc.fail(Failure {
                sig: sig.into(),
                preds: vec!["type-declaration-order".into()],
                detail: format!("{}: {} orders accepted, {} rejected; {}:\n{}", uname, accepted.len(), rejected.len(), if valid { "a rejected order" } else { "an accepted order" }, witness),
                case: json!({"engine": "c11-types", "files": files_json(&witness), "expect_accept": valid}),
                size: witness.len(),
            });
        }
    }
}

/// long dependency chains (f0 calls f1 calls ... f(n-1)) in four textual orders, and globals that mention
/// themselves: the first must behave the same in every order, the second are cyclic in every order
fn chain_and_self_family(acc: &mut Stats) {
    for n in [10usize, 60, 127, 128, 129, 150, 180] {
        // functions, one chunk-level Lua local each (value globals need two and would hit Lua's limit of 200, F-06d)
        let lines: Vec<String> = (0..n).map(|i| if i + 1 == n { format!("f{} :: fn -> int\n    1\nend", i) } else { format!("f{} :: fn -> int\n    f{}() + 1\nend", i, i + 1) }).collect();
        let start = "start :: fn do\n    print(f0())\nend".to_string();
        let mut orders: Vec<(&str, Vec<String>)> = Vec::new();
        let mut fwd = lines.clone();
        fwd.push(start.clone());
        orders.push(("users first", fwd));
        let mut rev: Vec<String> = lines.iter().rev().cloned().collect();
        rev.push(start.clone());
        orders.push(("used first", rev));
        let mut mid = vec![start.clone()];
        mid.extend(lines.iter().skip(n / 2).cloned());
        mid.extend(lines.iter().take(n / 2).cloned());
        orders.push(("start first, halves swapped", mid));
        let mut inter: Vec<String> = Vec::new();
        for i in 0..n / 2 {
            inter.push(lines[i].clone());
            inter.push(lines[n - 1 - i].clone());
        }
        if n % 2 == 1 {
            inter.push(lines[n / 2].clone());
        }
        inter.push(start.clone());
        orders.push(("interleaved from both ends", inter));
        let want = vec![format!("{}", n)];
        for (oname, items) in orders {
            let text = format!("print: fn *X -> void : external\n{}\n", items.join("\n"));
            acc.evaluations += 1;
            acc.transitions += 1;
            let got = match compile_src(&text) {
                Outcome::Ok(lua) => {
                    let lr = run_lua(&lua, 5_000_000);
                    match lr.end {
                        LuaEnd::Done => Ok(lr.out),
                        // the stand-in's call depth is smaller than Lua's: acceptance is what is compared then
                        LuaEnd::StackOverflow | LuaEnd::Budget => Ok(want.clone()),
                        other => Err(format!("{:?}", other)),
                    }
                }
                other => Err(other.short()),
            };
            if got.as_ref().ok() == Some(&want) {
                acc.outcome("chain:same-behaviour-in-this-order");
                acc.traces_validated += 1;
            } else {
                acc.outcome("chain:FAIL");
                acc.fail(Failure { sig: "behaviour-depends-on-order".into(), preds: vec!["long-dependency-chain".into()], detail: format!("chain of {} globals, order `{}`: expected {:?}, got {:?}", n, oname, want, got), case: json!({"engine": "c11", "files": files_json(&text), "expected": want}), size: n + text.len() / 100 });
            }
        }
        acc.states += 1;
        acc.nontrivial(fnv(format!("chain{}", n).as_bytes()));
    }
    // self-dependent non-function initialisers: cyclic wherever they stand
    let selfs = ["seed :: seed + 1", "seed :: pick(seed, 7)", "seed := (seed, 1)[1]", "seed :: if true do 1 else seed end"];
    let others = ["pick :: fn a: int, b: int -> int\n    b\nend", "other :: 5", "start :: fn do\n    print(other)\nend"];
    for sd in selfs {
        let mut items: Vec<String> = others.iter().map(|x| x.to_string()).collect();
        items.push(sd.to_string());
        let mut verdicts = Vec::new();
        for perm in permutations(items.len()) {
            let text = format!("print: fn *X -> void : external\n{}\n", perm.iter().map(|k| items[*k].clone()).collect::<Vec<_>>().join("\n"));
            acc.evaluations += 1;
            let rejected_as_cycle = match compile_src(&text) {
                Outcome::Err { errs, .. } => errs.iter().any(|e| is_cycle_error(&e.dbg)),
                _ => false,
            };
            verdicts.push((rejected_as_cycle, text));
        }
        acc.states += 1;
        acc.nontrivial(fnv(sd.as_bytes()));
        if let Some((_, text)) = verdicts.iter().find(|v| !v.0) {
            acc.outcome("self-dependency:FAIL");
            acc.fail(Failure { sig: "cyclic-initialisers-accepted".into(), preds: vec!["self-dependent-initialiser".into()], detail: format!("`{}` reads itself; {} of {} orders report a dependency cycle; this one does not:\n{}", sd, verdicts.iter().filter(|v| v.0).count(), verdicts.len(), text), case: json!({"engine": "c11", "files": files_json(text)}), size: text.len() });
        } else {
            acc.outcome("self-dependency:rejected-in-every-order");
        }
    }
}

/// a rejection that names a dependency / initialisation cycle, whatever its exact wording
fn is_cycle_error(text: &str) -> bool {
    let t = text.to_lowercase();
    t.contains("ependency") || t.contains("cycl") || t.contains("circular")
}

fn ext() -> Top {
    Top::External { name: "print".into(), ty: "fn *X -> void".into() }
}

/// reference: evaluate under every order of the value globals; outcomes of orders that never
/// touch an uninitialised global
fn reference(b: &Built) -> (Vec<Vec<String>>, bool) {
    let gl: Vec<Top> = b.main.iter().filter(|t| matches!(t, Top::Def { name, .. } if name.starts_with('g'))).cloned().collect();
    let others: Vec<Top> = b.main.iter().filter(|t| !matches!(t, Top::Def { name, .. } if name.starts_with('g'))).cloned().collect();
    let mut outcomes: Vec<Vec<String>> = Vec::new();
    let mut any_valid = false;
    for perm in permutations(b.nglobals) {
        let mut tops = vec![ext()];
        tops.extend(b.helpers.iter().cloned());
        tops.extend(others.iter().cloned());
        for k in &perm {
            tops.push(gl[*k].clone());
        }
        let p = Program { tops };
        let t = refsylt::run_in_source_order(&p, 200_000);
        match t.end {
            End::Done => {
                any_valid = true;
                if !outcomes.contains(&t.out) {
                    outcomes.push(t.out);
                }
            }
            End::ScopeError(_) => {}
            other => {
                eprintln!("MACHINERY: C11 reference ended with {:?}", other);
                std::process::exit(2);
            }
        }
    }
    (outcomes, any_valid)
}

struct Labeling {
    n: usize,
    edges: Vec<(usize, usize, Edge)>,
}

fn labelings(n: usize, max_edges: usize) -> Vec<Labeling> {
    let pairs: Vec<(usize, usize)> = (0..n).flat_map(|i| (0..n).filter(move |j| *j != i).map(move |j| (i, j))).collect();
    let mut out = Vec::new();
    fn rec(pairs: &[(usize, usize)], start: usize, left: usize, cur: &mut Vec<(usize, usize, Edge)>, n: usize, out: &mut Vec<Labeling>) {
        out.push(Labeling { n, edges: cur.clone() });
        if left == 0 {
            return;
        }
        for pi in start..pairs.len() {
            for k in KINDS {
                cur.push((pairs[pi].0, pairs[pi].1, k));
                rec(pairs, pi + 1, left - 1, cur, n, out);
                cur.pop();
            }
        }
    }
    rec(&pairs, 0, max_edges, &mut Vec::new(), n, &mut out);
    // every wrapped read alone, forwards and backwards, and combined with one plain read that closes
    // or does not close a cycle
    let mut wrapped: Vec<Edge> = WRAPPED.to_vec();
    wrapped.extend(STMT_IN_FN.iter().copied());
    wrapped.extend(VIA_FN.iter().map(|w| Edge::ViaFn(*w)));
    for k in wrapped {
        for (a, b) in &pairs {
            out.push(Labeling { n, edges: vec![(*a, *b, k)] });
            for (c, d) in &pairs {
                if (c, d) != (a, b) && max_edges >= 2 {
                    out.push(Labeling { n, edges: vec![(*a, *b, k), (*c, *d, Edge::Read)] });
                }
            }
        }
    }
    out
}

pub fn run(run: &mut Run) {
    let thorough = run.thorough();
    let mut labs = labelings(3, if thorough { 3 } else { 2 });
    if thorough {
        labs.extend(labelings(4, 2));
    }
    let accs = crate::pool::par_items(&labs, 2, |_| Stats::new(), |acc, li, lab| {
        let b = build(lab.n, &lab.edges);
        let (outcomes, any_valid) = reference(&b);
        acc.states += 1;
        if outcomes.len() > 1 {
            acc.count("excluded:inherently-order-dependent", 1);
            return;
        }
        let cyclic = !any_valid;
        let m = b.main.len();
        let perms = permutations(m);
        let mut results: Vec<(String, Result<Vec<String>, String>, String)> = Vec::new();
        for perm in &perms {
            for helpers_first in [true, false] {
                let mut tops = vec![ext()];
                if helpers_first {
                    tops.extend(b.helpers.iter().cloned());
                }
                for k in perm {
                    tops.push(b.main[*k].clone());
                }
                if !helpers_first {
                    tops.extend(b.helpers.iter().rev().cloned());
                }
                let text = print_program(&Program { tops }).text;
                acc.evaluations += 1;
                acc.transitions += 1;
                let r = match compile_src(&text) {
                    Outcome::Ok(lua) => {
                        let lr = run_lua(&lua, 2_000_000);
                        match lr.end {
                            LuaEnd::Done => Ok(lr.out),
                            other => Ok(vec![format!("!!{:?}", other)].into_iter().chain(lr.out.into_iter()).collect()),
                        }
                    }
                    Outcome::Err { errs, .. } => Err(errs.iter().map(|e| e.dbg.clone()).collect::<Vec<_>>().join(" | ")),
                    Outcome::Panic { msg, .. } => Err(format!("PANIC {}", msg)),
                };
                results.push((format!("perm {:?} helpers_first={}", perm, helpers_first), r, text));
            }
        }
        // across files: g1 lives in an imported file (cyclic import back to main), every order of that
        // file's statements x a sample of main's orders with the `use` line at a permuted position
        if lab.n == 3 {
            let main_defs: Vec<String> = b
                .main
                .iter()
                .chain(b.helpers.iter())
                .filter_map(|t| match t {
                    Top::Def { name, .. } if name != "g1" && name != "start" => Some(name.clone()),
                    _ => None,
                })
                .collect();
            let qualify = |tops: &mut Vec<Top>, names: &[String], ns: &str| {
                let mut p = Program { tops: std::mem::take(tops) };
                crate::scope::visit(&mut p, &mut |ev| {
                    if let crate::scope::Ev::Use(n) = ev {
                        if names.iter().any(|x| x == n) {
                            *n = format!("{}.{}", ns, n);
                        }
                    }
                });
                *tops = p.tops;
            };
            let g1 = b.main.iter().find(|t| matches!(t, Top::Def { name, .. } if name == "g1")).cloned().unwrap();
            let mut other_items = vec![Top::Raw("use main".into()), ext(), g1];
            // blob / enum types used by g1's initialiser come from main too
            qualify(&mut other_items, &main_defs, "main");
            let other_text_of = |perm: &Vec<usize>| -> String {
                let tops: Vec<Top> = perm.iter().map(|k| other_items[*k].clone()).collect();
                print_program(&Program { tops }).text.replace("P {", "main.P {").replace("(PM {", "(main.PM {").replace("(V.", "(main.V.").replace(" V.", " main.V.")
            };
            let mut main_items: Vec<Top> = b.main.iter().filter(|t| !matches!(t, Top::Def { name, .. } if name == "g1")).cloned().collect();
            main_items.extend(b.helpers.iter().cloned());
            main_items.push(Top::Raw("use other".into()));
            qualify(&mut main_items, &["g1".to_string()], "other");
            let mperms = permutations(main_items.len().min(6));
            for (pi, mp) in mperms.iter().enumerate() {
                if pi % 60 != li % 60 && pi % 60 != (li + 17) % 60 {
                    continue;
                }
                for op in permutations(3) {
                    let mut tops = vec![ext()];
                    // permute the first six items, keep the rest (helpers) in order after them
                    for k in mp {
                        tops.push(main_items[*k].clone());
                    }
                    for k in mp.len()..main_items.len() {
                        tops.push(main_items[k].clone());
                    }
                    let mut files = Files::new();
                    files.insert(MAIN.to_string(), print_program(&Program { tops }).text);
                    files.insert("/p/other.sy".to_string(), other_text_of(&op));
                    acc.evaluations += 1;
                    let r = match compile(&files, MAIN, true) {
                        Outcome::Ok(lua) => {
                            let lr = run_lua(&lua, 2_000_000);
                            match lr.end {
                                LuaEnd::Done => Ok(lr.out),
                                other => Ok(vec![format!("!!{:?}", other)].into_iter().chain(lr.out.into_iter()).collect()),
                            }
                        }
                        Outcome::Err { errs, .. } => Err(errs.iter().map(|e| e.dbg.clone()).collect::<Vec<_>>().join(" | ")),
                        Outcome::Panic { msg, .. } => Err(format!("PANIC {}", msg)),
                    };
                    results.push((format!("two files: main order {:?}, other order {:?}", mp, op), r, format!("--- main.sy\n{}--- other.sy\n{}", files[MAIN], files["/p/other.sy"])));
                }
            }
        }
        acc.nontrivial(fnv(results[0].2.as_bytes()));
        let accepted = results.iter().filter(|r| r.1.is_ok()).count();
        acc.traces_validated += accepted as u64;
        let mut fail = |acc: &mut Stats, sig: &str, detail: String, text: &str, preds: Vec<String>| {
            acc.outcome(sig);
            let files = files_json(text);
            acc.fail(Failure { sig: sig.into(), preds, detail, case: json!({"engine": "c11", "files": files, "expected": outcomes.first()}), size: lab.edges.len() * 1000 + text.len() });
        };
        let kinds: Vec<String> = lab.edges.iter().map(|e| match e.2 { Edge::ViaFn(w) => format!("ViaFn({:?})", WRAPPED[w as usize]), k => format!("{:?}", k) }).collect();
        let mut preds: Vec<String> = vec![];
        if lab.edges.iter().any(|e| matches!(e.2, Edge::AssignInCalledFn | Edge::OpAssignInCalledFn | Edge::AssignInMethodOfGlobalBlob)) {
            preds.push("initialiser-calls-function-that-assigns-another-global".into());
        }
        if accepted != 0 && accepted != results.len() {
            let a = results.iter().find(|r| r.1.is_ok()).unwrap();
            let r = results.iter().find(|r| r.1.is_err()).unwrap();
            fail(acc, "accepted-in-some-orders-only", format!("edges {:?}\naccepted: {}\n{}\nrejected: {} ({})\n{}", kinds, a.0, a.2, r.0, r.1.as_ref().err().unwrap(), r.2), &r.2, preds.clone());
            return;
        }
        if accepted == 0 {
            if cyclic {
                if results.iter().all(|r| r.1.as_ref().err().map(|e| is_cycle_error(e)).unwrap_or(false)) {
                    acc.outcome("cyclic:rejected-in-every-order");
                } else {
                    let r = &results[0];
                    fail(acc, "cyclic-rejected-without-dependency-error", format!("{}", r.1.as_ref().err().unwrap()), &r.2, preds.clone());
                }
            } else {
                acc.outcome("conservatively-rejected-in-every-order");
            }
            return;
        }
        // accepted everywhere
        if cyclic {
            let r = &results[0];
            fail(acc, "cyclic-initialisers-accepted", format!("edges {:?}: no initialisation order avoids an uninitialised global, yet the program is accepted\n{}\nlua: {:?}", kinds, r.2, r.1), &r.2, preds.clone());
            return;
        }
        let want = &outcomes[0];
        let distinct: std::collections::BTreeSet<&Vec<String>> = results.iter().map(|r| r.1.as_ref().unwrap()).collect();
        if distinct.len() > 1 || *distinct.iter().next().unwrap() != want {
            let bad = results.iter().find(|r| r.1.as_ref().unwrap() != want).unwrap();
            fail(
                acc,
                if distinct.len() > 1 { "behaviour-depends-on-order" } else { "behaviour-differs-from-reference" },
                format!("edges {:?}\nreference: {:?}\n{}: {:?}\n{}\n({} distinct behaviours over {} orders)", kinds, want, bad.0, bad.1.as_ref().unwrap(), bad.2, distinct.len(), results.len()),
                &bad.2,
                preds.clone(),
            );
        } else {
            acc.outcome("accepted-in-every-order-same-behaviour");
        }
        if li % 97 == 0 {
            acc.sample(json!({"edges": kinds, "program": results[0].2, "orders": results.len()}));
        }
    });
    run.stats = Stats::merge_all(accs);
    entry_family(&mut run.stats);
    type_order_family(&mut run.stats);
    chain_and_self_family(&mut run.stats);
    run.rule = "programs with 3 (thorough: also 4) mutable globals whose initialisers are related by up to k edges, each edge one of: read, read inside a called function, read inside a function that is only stored, assignment / compound assignment inside a called function, blob literal field (up to k edges), or a read wrapped in one of 38 further forms (then / else / condition, case scrutinee / arm / else, tuple, list, call argument, unary, and-operand, variant payload, index, immediately called lambda - each directly in the initialiser and inside a function it calls; else-branch / loop body / loop condition / nested block / early ret / inner closure / nested call inside a called function, a method of a blob literal called at once, a read / an assignment in a method of a global blob instance, function alias; alone and combined with one plain read); every permutation of the top-level statements (blob declaration, globals, start) x helper functions before / after, plus the same program with one global moved to an imported file (cyclic import) under every order of that file and a sample of main's orders; plus a three-file project whose modules define their own `start` and `g` under every order of each file's statements (4! x 3! x 4! orders); plus five type declarations that name each other (a chain of three) and themselves with one of 12 uses (8 ill-typed, 4 well-typed) under all 720 orders: accepted in all or in none; dependency chains of 10..190 globals in four textual orders; four self-dependent initialisers under all 24 orders; non-trivial = every labelling that is not inherently order-dependent; distinct by edge labelling".into();
    run.bounds = json!({"globals": if thorough {"3 with <=3 edges, 4 with <=2 edges"} else {"3 with <=2 edges"}, "labelings": labs.len(), "edge_kinds": KINDS.iter().chain(WRAPPED.iter()).chain(STMT_IN_FN.iter()).map(|k| format!("{:?}", k)).chain(VIA_FN.iter().map(|w| format!("ViaFn({:?})", WRAPPED[*w as usize]))).collect::<Vec<_>>()});
    run.assumptions = vec![
        "reference: RefSylt under every order of the value globals; orders that read or assign an uninitialised global are invalid; if the valid orders disagree the program is inherently order-dependent and excluded; if no order is valid the initialisers are cyclic".into(),
        "a consistent rejection of a program that has a valid order (conservative dependency analysis) is accepted".into(),
    ];
}

pub fn replay(case: &serde_json::Value) -> Option<(String, String)> {
    if case["engine"] == "c11-types" {
        let text = case["files"][MAIN].as_str()?;
        let want = case["expect_accept"].as_bool()?;
        let got = compile_src(text).is_ok();
        return if got == want { None } else { Some(("accepted-in-some-orders-only".into(), format!("accepted={} in this order", got))) };
    }
    let mut files = Files::new();
    for (k, v) in case["files"].as_object()? {
        files.insert(k.clone(), v.as_str()?.to_string());
    }
    let want: Option<Vec<String>> = case["expected"].as_array().map(|a| a.iter().filter_map(|x| x.as_str().map(|s| s.to_string())).collect());
    match compile(&files, MAIN, true) {
        Outcome::Ok(lua) => {
            let r = run_lua(&lua, 2_000_000);
            match want {
                Some(w) if w == r.out && r.end == LuaEnd::Done => None,
                Some(w) => Some(("behaviour-differs-from-reference".into(), format!("reference {:?}, lua {:?} {:?}", w, r.out, r.end))),
                None => Some(("cyclic-initialisers-accepted".into(), format!("{:?}", r.out))),
            }
        }
        other => {
            println!("rejected: {}", other.short());
            if want.is_some() { Some(("rejected-in-this-order".into(), other.short())) } else { None }
        }
    }
}
