//! C09 — lexical resolution: all maps of a program's binders into a name pool. The scope model
//! decides for each renamed program whether it is a consistent renaming (same binding graph =>
//! same Lua bytes), has an unbound use or colliding globals (=> rejected), or is a different but
//! closed program (=> C01 oracle). Separately a use of every binder is planted at every
//! statement position and must be rejected exactly where the model finds it unbound.

use crate::ast::*;
use crate::engines::c01;
use crate::harness::*;
use crate::report::{Failure, Run, Stats};
use crate::scope::*;
use serde_json::json;

fn e_a(e: Expr) -> Expr {
    Expr::Variant("E".into(), "A".into(), Some(Box::new(e)))
}
fn add(a: Expr, b: Expr) -> Expr {
    bin(BinOp::Add, a, b)
}
fn if_s(c: Expr, t: Vec<Stmt>) -> Stmt {
    Stmt::Expr(if_e(c, t, None))
}

fn header() -> Vec<Top> {
    vec![
        Top::External { name: "print".into(), ty: "fn *X -> void".into() },
        Top::Enum { name: "E".into(), variants: vec![("A".into(), Some(Ty::Int)), ("B".into(), None)] },
    ]
}

/// templates: every binder has a distinct name n0..n9; renamable binders are those named `n<k>`
fn templates() -> Vec<(&'static str, Program)> {
    let mut v = Vec::new();
    // T1: global var, global fn with param, function-local, branch-local, start-local, loop-local, case binding
    let mut tops = header();
    tops.push(Top::Def { name: "n0".into(), mutable: true, ty: None, value: int(1) });
    tops.push(top_fn(
        "n1",
        vec![("n2", Some(Ty::Int))],
        RetAnn::Ty(Ty::Int),
        vec![
            def("n3", add(var("n2"), var("n0"))),
            if_s(bin(BinOp::Gt, var("n3"), int(1)), vec![def("n4", bin(BinOp::Mul, var("n3"), int(2))), print_of(var("n4")), op_assign("n0", BinOp::Add, var("n4"))]),
            Stmt::Expr(var("n3")),
        ],
    ));
    tops.push(start_fn(vec![
        def("n5", callv("n1", vec![int(2)])),
        Stmt::Loop(Some(bin(BinOp::Lt, var("n5"), int(5))), vec![def("n6", add(var("n5"), int(1))), print_of(var("n6")), assign("n5", var("n6"))]),
        Stmt::Expr(Expr::Case(
            Box::new(e_a(var("n5"))),
            vec![CaseArm { variant: "A".into(), bind: Some("n7".into()), body: vec![def("n9", add(var("n7"), var("n0"))), print_of(var("n9"))] }],
            Some(vec![def("n8", bin(BinOp::Mul, var("n5"), int(3))), print_of(var("n8"))]),
        )),
        Stmt::Expr(Expr::Case(Box::new(Expr::Variant("E".into(), "B".into(), None)), vec![CaseArm { variant: "A".into(), bind: Some("n7".into()), body: vec![print_of(var("n7"))] }], Some(vec![def("n8", add(var("n5"), int(100))), print_of(var("n8"))]))),
        print_of(add(var("n0"), var("n5"))),
    ]));
    v.push(("globals-params-locals", Program { tops }));
    // T2: closures and blocks: outer local, closure param, closure local, nested block local, second closure
    let mut tops = header();
    tops.push(Top::Def { name: "n0".into(), mutable: false, ty: None, value: int(10) });
    tops.push(start_fn(vec![
        def("n1", int(1)),
        cdef("n2", lambda(vec![("n3", Some(Ty::Int))], RetAnn::Ty(Ty::Int), vec![def("n4", add(var("n3"), var("n1"))), op_assign("n1", BinOp::Add, int(1)), Stmt::Expr(add(var("n4"), var("n0")))])),
        Stmt::Block(vec![def("n5", callv("n2", vec![int(5)])), print_of(var("n5")), Stmt::Block(vec![def("n6", add(var("n5"), var("n1"))), print_of(var("n6"))])]),
        cdef("n7", lambda(vec![], RetAnn::Ty(Ty::Int), vec![Stmt::Expr(add(var("n1"), callv("n2", vec![int(1)])))])),
        print_of(callv("n7", vec![])),
        print_of(var("n1")),
    ]));
    v.push(("closures-blocks", Program { tops }));
    // T3: two global functions calling each other, parameters, else-branch local, elif local
    let mut tops = header();
    tops.push(top_fn("n0", vec![("n1", Some(Ty::Int))], RetAnn::Ty(Ty::Int), vec![if_s(bin(BinOp::Le, var("n1"), int(0)), vec![Stmt::Ret(Some(int(0)))]), Stmt::Expr(add(var("n1"), callv("n2", vec![bin(BinOp::Sub, var("n1"), int(1))])))]));
    tops.push(top_fn("n2", vec![("n3", Some(Ty::Int))], RetAnn::Ty(Ty::Int), vec![def("n4", bin(BinOp::Mul, var("n3"), int(2))), if_s(bin(BinOp::Le, var("n3"), int(0)), vec![Stmt::Ret(Some(var("n4")))]), Stmt::Expr(add(var("n4"), callv("n2", vec![bin(BinOp::Sub, var("n3"), int(1))])))]));
    tops.push(start_fn(vec![
        def("n5", callv("n0", vec![int(3)])),
        Stmt::Expr(Expr::If(
            vec![(bin(BinOp::Gt, var("n5"), int(100)), vec![def("n6", int(1)), print_of(var("n6"))]), (bin(BinOp::Gt, var("n5"), int(5)), vec![def("n7", add(var("n5"), int(2))), print_of(var("n7"))])],
            Some(vec![def("n8", int(3)), print_of(var("n8"))]),
        )),
        print_of(var("n5")),
    ]));
    v.push(("mutual-functions-branches", Program { tops }));
    // T4: blob values: a local defined by a blob literal that mentions a parameter, blob methods (implicit `self`),
    // a blob literal inside a method whose value field reads the *outer* `self`, method parameters and locals
    let mut tops = header();
    tops.push(Top::Blob { name: "P".into(), fields: vec![("x".into(), Ty::Int)] });
    tops.push(Top::Blob { name: "Q".into(), fields: vec![("get".into(), Ty::Fn(vec![], Box::new(Ty::Int))), ("y".into(), Ty::Int)] });
    tops.push(Top::Blob { name: "O".into(), fields: vec![("y".into(), Ty::Int), ("mk".into(), Ty::Fn(vec![Ty::Int], Box::new(Ty::Int)))] });
    tops.push(top_fn("n0", vec![("n1", Some(Ty::User("P".into())))], RetAnn::Ty(Ty::Int), vec![def("n2", Expr::Blob("P".into(), vec![("x".into(), add(field(var("n1"), "x"), int(1)))])), Stmt::Expr(add(field(var("n2"), "x"), field(var("n1"), "x")))]));
    tops.push(start_fn(vec![
        def("n3", Expr::Blob("P".into(), vec![("x".into(), int(1))])),
        print_of(callv("n0", vec![var("n3")])),
        def(
            "n4",
            Expr::Blob(
                "O".into(),
                vec![
                    ("y".into(), int(7)),
                    (
                        "mk".into(),
                        lambda(
                            vec![("n5", Some(Ty::Int))],
                            RetAnn::Ty(Ty::Int),
                            vec![
                                def(
                                    "n6",
                                    Expr::Blob(
                                        "Q".into(),
                                        vec![("get".into(), lambda(vec![], RetAnn::Ty(Ty::Int), vec![Stmt::Expr(add(field(var("self"), "y"), var("n5")))])), ("y".into(), add(field(var("self"), "y"), int(1)))],
                                    ),
                                ),
                                Stmt::Expr(add(call(field(var("n6"), "get"), vec![]), field(var("n6"), "y"))),
                            ],
                        ),
                    ),
                ],
            ),
        ),
        print_of(call(field(var("n4"), "mk"), vec![int(1)])),
        def("n7", Expr::Blob("Q".into(), vec![("y".into(), field(var("n4"), "y")), ("get".into(), lambda(vec![], RetAnn::Ty(Ty::Int), vec![def("n8", field(var("self"), "y")), Stmt::Expr(add(var("n8"), field(var("n3"), "x")))]))])),
        print_of(call(field(var("n7"), "get"), vec![])),
    ]));
    v.push(("blobs-methods-self", Program { tops }));
    // T5: blocks, branches, loop bodies and function bodies that consist of exactly one statement, a definition
    let mut tops = header();
    tops.push(top_fn("n7", vec![], RetAnn::Void, vec![def("n8", int(9))]));
    tops.push(start_fn(vec![
        def("n0", int(1)),
        Stmt::Block(vec![def("n1", int(2))]),
        print_of(var("n0")),
        Stmt::Block(vec![Stmt::Block(vec![def("n2", add(var("n0"), int(1)))])]),
        if_s(bin(BinOp::Gt, var("n0"), int(0)), vec![def("n3", int(3))]),
        Stmt::Expr(Expr::If(vec![(bin(BinOp::Lt, var("n0"), int(0)), vec![def("n4", int(4))])], Some(vec![def("n5", int(5))]))),
        Stmt::Loop(Some(bin(BinOp::Lt, var("n0"), int(0))), vec![def("n6", int(6))]),
        Stmt::Expr(callv("n7", vec![])),
        Stmt::Block(vec![op_assign("n0", BinOp::Add, int(10))]),
        print_of(var("n0")),
    ]));
    v.push(("single-statement-scopes", Program { tops }));
    // T6: globals whose initialiser is not a function but contains scopes with locals of their own: branch blocks of
    // an if / case value, a function literal that is called at once, a closure stored in a tuple
    let mut tops = header();
    tops.push(Top::Def { name: "n0".into(), mutable: false, ty: None, value: int(3) });
    tops.push(Top::Def { name: "n1".into(), mutable: false, ty: None, value: if_e(bin(BinOp::Gt, var("n0"), int(1)), vec![def("n2", add(var("n0"), int(10))), Stmt::Expr(bin(BinOp::Mul, var("n2"), int(2)))], Some(vec![def("n3", int(7)), Stmt::Expr(var("n3"))])) });
    tops.push(Top::Def { name: "n4".into(), mutable: false, ty: None, value: Expr::Case(Box::new(e_a(var("n0"))), vec![CaseArm { variant: "A".into(), bind: Some("n5".into()), body: vec![def("n6", add(var("n5"), int(1))), Stmt::Expr(var("n6"))] }], Some(vec![Stmt::Expr(int(0))])) });
    tops.push(Top::Def { name: "n7".into(), mutable: false, ty: None, value: call(Expr::Paren(Box::new(lambda(vec![], RetAnn::Ty(Ty::Int), vec![def("n8", add(var("n0"), int(100))), Stmt::Expr(var("n8"))]))), vec![]) });
    tops.push(Top::Def { name: "n9".into(), mutable: false, ty: None, value: Expr::Tuple(vec![lambda(vec![], RetAnn::Ty(Ty::Int), vec![def("n2", int(40)), Stmt::Expr(add(var("n2"), var("n0")))]), int(1)]) });
    tops.push(start_fn(vec![print_of(var("n1")), print_of(var("n4")), print_of(var("n7")), print_of(call(Expr::Index(Box::new(var("n9")), 0), vec![]))]));
    v.push(("scopes-inside-global-initialisers", Program { tops }));
    v
}

fn renamable(res: &Resolution) -> Vec<usize> {
    res.binders.iter().enumerate().filter(|(_, b)| b.0.len() == 2 && b.0.starts_with('n') && b.0[1..].chars().all(|c| c.is_ascii_digit())).map(|(i, _)| i).collect()
}

fn subsets(items: &[usize], k: usize) -> Vec<Vec<usize>> {
    let mut out = Vec::new();
    fn rec(items: &[usize], k: usize, start: usize, cur: &mut Vec<usize>, out: &mut Vec<Vec<usize>>) {
        if cur.len() == k {
            out.push(cur.clone());
            return;
        }
        for i in start..items.len() {
            cur.push(items[i]);
            rec(items, k, i + 1, cur, out);
            cur.pop();
        }
    }
    rec(items, k, 0, &mut Vec::new(), &mut out);
    out
}

struct Case {
    template: usize,
    subset: Vec<usize>,
    map: Vec<usize>,
}

pub fn run(run: &mut Run) {
    let thorough = run.thorough();
    let temps = templates();
    let maxk = if thorough { 5 } else { 4 };
    let mut base_stats = Stats::new();
    for (tname, p) in temps.iter() {
        // the templates themselves behave as the model binds them (reference interpreter)
        let mut q = p.clone();
        let chk = c01::check_semantics(&mut q);
        base_stats.evaluations += 1;
        match chk.verdict {
            c01::Verdict::Ok { .. } => base_stats.outcome("template:behaves-as-the-model-binds"),
            c01::Verdict::Skip(why) if why == "rejected-by-compiler" => {
                // every use of the template is bound by the scope model, so a rejection is the compiler's doing
                let mut files = serde_json::Map::new();
                files.insert(MAIN.to_string(), json!(chk.text));
                base_stats.outcome("template:REJECTED");
                base_stats.fail(Failure { sig: "in-scope-use-rejected".into(), preds: vec![format!("template:{}", tname)], detail: format!("template {} (no renaming) is rejected although every use in it is bound lexically\n{}\n{}", tname, chk.text, compile_src(&chk.text).short()), case: json!({"engine": "c09-plant", "files": files, "expect_accept": true}), size: chk.text.len() });
            }
            c01::Verdict::Skip(why) => {
                eprintln!("MACHINERY: C09 template {} is not decided by the reference: {}", tname, why);
                std::process::exit(2);
            }
            c01::Verdict::Fail { sig, detail, .. } => {
                let mut files = serde_json::Map::new();
                files.insert(MAIN.to_string(), json!(chk.text));
                base_stats.outcome("template:FAIL");
                base_stats.fail(Failure { sig: format!("capture:{}", sig), preds: vec![format!("template:{}", tname)], detail: format!("template {} (no renaming)\n{}\n{}", tname, chk.text, detail), case: json!({"engine": "c09", "files": files, "base": chk.text}), size: chk.text.len() });
            }
        }
    }
    // blob literal field orders x placements of `self`: method field before / after the value field, the value field
    // reads `self` or not, the literal sits in a method of another blob (outer `self` exists) or directly in `start`
    for method_first in [true, false] {
        for value_reads_self in [true, false] {
            for in_method in [true, false] {
                for nested_fn_reads_self in [true, false] {
                    let getter = lambda(vec![], RetAnn::Ty(Ty::Int), vec![Stmt::Expr(add(field(var("self"), "y"), int(100)))]);
                    let value = if value_reads_self { add(field(var("self"), "y"), int(1)) } else { int(5) };
                    let mut fields = vec![("get".to_string(), getter), ("y".to_string(), value)];
                    if !method_first {
                        fields.reverse();
                    }
                    let mut body = vec![def("q", Expr::Blob("Q".into(), fields))];
                    if nested_fn_reads_self {
                        // a plain closure (not a blob field) sees the enclosing method's self, or none
                        body.push(cdef("h", lambda(vec![], RetAnn::Ty(Ty::Int), vec![Stmt::Expr(field(var("self"), "y"))])));
                        body.push(print_of(callv("h", vec![])));
                    }
                    body.push(print_of(call(field(var("q"), "get"), vec![])));
                    body.push(Stmt::Expr(field(var("q"), "y")));
                    let mut tops = header();
                    tops.push(Top::Blob { name: "Q".into(), fields: vec![("get".into(), Ty::Fn(vec![], Box::new(Ty::Int))), ("y".into(), Ty::Int)] });
                    tops.push(Top::Blob { name: "O".into(), fields: vec![("y".into(), Ty::Int), ("mk".into(), Ty::Fn(vec![], Box::new(Ty::Int)))] });
                    if in_method {
                        tops.push(start_fn(vec![def("o", Expr::Blob("O".into(), vec![("y".into(), int(7)), ("mk".into(), lambda(vec![], RetAnn::Ty(Ty::Int), body))])), print_of(call(field(var("o"), "mk"), vec![]))]));
                    } else {
                        let n = body.len();
                        if let Stmt::Expr(e) = body[n - 1].clone() {
                            body[n - 1] = print_of(e);
                        }
                        tops.push(start_fn(body));
                    }
                    let mut prog = Program { tops };
                    let res = resolve(&prog);
                    let unbound = res.uses.iter().any(|u| u.is_none());
                    let text = print_program(&prog).text;
                    base_stats.evaluations += 1;
                    base_stats.nontrivial(fnv(text.as_bytes()));
                    let mut files = serde_json::Map::new();
                    files.insert(MAIN.to_string(), json!(text));
                    let verdict: Option<(String, String)> = if unbound {
                        match compile_src(&text) {
                            Outcome::Err { ref errs, bytes_written } if !errs.is_empty() && bytes_written == 0 => None,
                            Outcome::Ok(_) => Some(("accepted-scope-violation".into(), "`self` is read where no blob method encloses it, yet the program is accepted".into())),
                            other => Some(("bad-rejection".into(), other.short())),
                        }
                    } else {
                        let chk = c01::check_semantics(&mut prog);
                        match chk.verdict {
                            c01::Verdict::Ok { .. } => None,
                            c01::Verdict::Skip(why) => {
                                eprintln!("MACHINERY: C09 self-placement case not decided by the reference: {}\n{}", why, text);
                                std::process::exit(2);
                            }
                            c01::Verdict::Fail { sig, detail, .. } => Some((format!("capture:{}", sig), detail)),
                        }
                    };
                    match verdict {
                        None => base_stats.outcome(if unbound { "self-outside-method:rejected" } else { "self-placement:behaves-as-the-model-binds" }),
                        Some((sig, detail)) => {
                            base_stats.outcome("self-placement:FAIL");
                            base_stats.fail(Failure { sig, preds: vec!["template:self-placement".into()], detail: format!("{}\n{}", text, detail), case: json!({"engine": "c09-plant", "files": files, "expect_accept": !unbound}), size: text.len() });
                        }
                    }
                }
            }
        }
    }
    let mut cases = Vec::new();
    for (ti, (_, p)) in temps.iter().enumerate() {
        let res = resolve(p);
        let rb = renamable(&res);
        for k in 2..=maxk {
            for sub in subsets(&rb, k) {
                let total = k.pow(k as u32);
                for m in 0..total {
                    let mut map = Vec::new();
                    let mut x = m;
                    for _ in 0..k {
                        map.push(x % k);
                        x /= k;
                    }
                    cases.push(Case { template: ti, subset: sub.clone(), map });
                }
            }
        }
    }
    let accs = crate::pool::par_items(&cases, 32, |_| Stats::new(), |acc, i, c| {
        let (tname, base) = &temps[c.template];
        let res = resolve(base);
        let base_text = print_program(base).text;
        let base_lua = match compile_src(&base_text) {
            Outcome::Ok(b) => b,
            _ => {
                // reported once by the template control above; its renamings cannot be judged
                acc.count("renaming-skipped:template-rejected", 1);
                return;
            }
        };
        // binder subset[j] gets the original name of binder subset[map[j]]
        let mut names: Vec<Option<String>> = vec![None; res.binders.len()];
        for (j, b) in c.subset.iter().enumerate() {
            names[*b] = Some(res.binders[c.subset[c.map[j]]].0.clone());
        }
        let mut q = rename(base, &res, &names);
        let r2 = resolve(&q);
        let text = print_program(&q).text;
        acc.evaluations += 1;
        acc.states += 1;
        acc.nontrivial(fnv(text.as_bytes()));
        let out = compile_src(&text);
        let mut files = serde_json::Map::new();
        files.insert(MAIN.to_string(), json!(text));
        let mut fail = |acc: &mut Stats, sig: &str, detail: String| {
            acc.outcome(sig);
            acc.fail(Failure {
                sig: sig.to_string(),
                preds: vec![format!("template:{}", tname)],
                detail: format!("template {} binders {:?} -> {:?}\n{}\n{}", tname, c.subset.iter().map(|b| res.binders[*b].0.clone()).collect::<Vec<_>>(), c.subset.iter().enumerate().map(|(j, _)| res.binders[c.subset[c.map[j]]].0.clone()).collect::<Vec<_>>(), text, detail),
                case: json!({"engine": "c09", "files": files.clone(), "base": base_text}),
                size: text.len(),
            });
        };
        if r2.duplicate_params {
            acc.count("skipped:two-parameters-of-one-function-share-a-name", 1);
            return;
        }
        if r2.duplicate_globals || r2.uses.iter().any(|u| u.is_none()) {
            // must be rejected
            match out {
                Outcome::Err { ref errs, bytes_written } if !errs.is_empty() && bytes_written == 0 => acc.outcome(if r2.duplicate_globals { "duplicate-globals:rejected" } else { "unbound-use:rejected" }),
                Outcome::Ok(_) => fail(acc, "accepted-scope-violation", format!("the model finds {} but the compiler accepted", if r2.duplicate_globals { "two globals with one name" } else { "an unbound use" })),
                other => fail(acc, "bad-rejection", other.short()),
            }
            return;
        }
        if r2.uses == res.uses {
            // consistent renaming: same Lua
            match out {
                Outcome::Ok(b) if b == base_lua => acc.outcome("consistent-renaming:same-lua"),
                Outcome::Ok(_) => fail(acc, "renaming-changes-lua", "a consistent renaming (same binding graph) changed the emitted Lua".into()),
                other => fail(acc, "renaming-rejected", other.short()),
            }
            return;
        }
        // closed but different binding graph: a different program; its behaviour is checked
        let chk = c01::check_semantics(&mut q);
        match chk.verdict {
            c01::Verdict::Ok { .. } => acc.outcome("different-program:behaves-as-the-model-binds"),
            c01::Verdict::Skip(why) => acc.count(&format!("different-program-skipped:{}", why), 1),
            c01::Verdict::Fail { sig, detail, .. } => fail(acc, &format!("capture:{}", sig), detail),
        }
        if i % 4001 == 0 {
            acc.sample(json!({"template": tname, "renamed": text}));
        }
    });
    let mut st = Stats::merge_all(accs);
    st.merge(base_stats);

    // one binder at a time renamed to names that mean something elsewhere (the entry point, externals, Lua and runtime
    // names, names of other modules): a consistent renaming by the model must leave the Lua unchanged
    let special = ["start", "main", "print", "lib", "type", "string", "table", "_G", "nil_", "arg", "x"];
    let mut special_cases = Vec::new();
    for (ti, (_, p)) in temps.iter().enumerate() {
        let res = resolve(p);
        for b in renamable(&res) {
            for sname in special {
                special_cases.push((ti, b, sname));
            }
        }
    }
    let accs = crate::pool::par_items(&special_cases, 32, |_| Stats::new(), |acc, _, (ti, b, sname)| {
        let (tname, base) = &temps[*ti];
        let res = resolve(base);
        let base_text = print_program(base).text;
        let base_lua = match compile_src(&base_text) {
            Outcome::Ok(b) => b,
            _ => return,
        };
        let mut names: Vec<Option<String>> = vec![None; res.binders.len()];
        names[*b] = Some(sname.to_string());
        let q = rename(base, &res, &names);
        let r2 = resolve(&q);
        let text = print_program(&q).text;
        acc.evaluations += 1;
        acc.nontrivial(fnv(text.as_bytes()));
        if r2.duplicate_params || r2.duplicate_globals || r2.uses != res.uses {
            acc.count("special-name-skipped:changes-the-binding-graph", 1);
            return;
        }
        let mut files = serde_json::Map::new();
        files.insert(MAIN.to_string(), json!(text));
        let fail = match compile_src(&text) {
            Outcome::Ok(bts) if bts == base_lua => None,
            Outcome::Ok(_) => Some(("renaming-changes-lua", "renaming one binder to a name that is special elsewhere changed the emitted Lua".to_string())),
            other => Some(("renaming-rejected", other.short())),
        };
        match fail {
            None => acc.outcome("special-name:same-lua"),
            Some((sig, detail)) => {
                acc.outcome(sig);
                acc.fail(Failure { sig: sig.to_string(), preds: vec![format!("template:{}", tname), format!("special-name:{}", sname)], detail: format!("template {} binder {} -> {}\n{}\n{}", tname, res.binders[*b].0, sname, text, detail), case: json!({"engine": "c09", "files": files, "base": base_text}), size: text.len() });
            }
        }
    });
    st.merge(Stats::merge_all(accs));

    // two binders at a time renamed to a pair of names that are different strings but alike under a weaker notion of
    // equality: equal under one of twelve common 32-bit string hashes, equal up to case, anagrams, equal in their
    // first 8 .. 256 characters, equal up to an underscore or a leading zero. Names are compared as whole strings.
    {
        let mut pairs: Vec<(String, String, &str)> = vec![
            ("idx8968".into(), "n26486".into(), "fnv1a32"),
            ("idx21378".into(), "acc36620".into(), "fnv1_32"),
            ("mmozp".into(), "nfzsxz".into(), "djb2"),
            ("total67649".into(), "idx104800".into(), "djb2_xor"),
            ("iuitplkk".into(), "a_gu_".into(), "sdbm"),
            ("i40".into(), "row20409".into(), "java31"),
            ("lotoc".into(), "vbjzin".into(), "crc32"),
            ("idx12".into(), "cnt30".into(), "adler32"),
            ("node3520".into(), "node3575".into(), "one_at_a_time"),
            ("tmp0".into(), "x100".into(), "elf"),
            ("row882".into(), "len5383".into(), "murmur3_32"),
            ("tmp21587".into(), "node21830".into(), "fnv1a64_low32"),
            ("value".into(), "vaLue".into(), "case"),
            ("tops".into(), "spot".into(), "anagram"),
            ("ab_c".into(), "abc_".into(), "underscore-position"),
            ("_v".into(), "v_".into(), "underscore-side"),
            ("x1".into(), "x01".into(), "leading-zero"),
            ("v10".into(), "v1O".into(), "digit-letter"),
        ];
        for n in [8usize, 16, 32, 64, 128, 256, 1024] {
            let stem: String = (0..n).map(|i| (b'a' + ((i * 3) % 26) as u8) as char).collect();
            pairs.push((format!("{}a", stem), format!("{}b", stem), "long-common-prefix"));
            pairs.push((format!("a{}", stem), format!("b{}", stem), "long-common-suffix"));
        }
        let mut cases = Vec::new();
        for (ti, (_, p)) in temps.iter().enumerate() {
            let res = resolve(p);
            let bs: Vec<usize> = renamable(&res).into_iter().take(5).collect();
            for (x, b1) in bs.iter().enumerate() {
                for b2 in bs.iter().skip(x + 1) {
                    for pi in 0..pairs.len() {
                        cases.push((ti, *b1, *b2, pi));
                    }
                }
            }
        }
        let accs = crate::pool::par_items(&cases, 32, |_| Stats::new(), |acc, _, (ti, b1, b2, pi)| {
            let (tname, base) = &temps[*ti];
            let res = resolve(base);
            let base_text = print_program(base).text;
            let base_lua = match compile_src(&base_text) {
                Outcome::Ok(b) => b,
                _ => return,
            };
            let (n1, n2, why) = &pairs[*pi];
            let mut names: Vec<Option<String>> = vec![None; res.binders.len()];
            names[*b1] = Some(n1.clone());
            names[*b2] = Some(n2.clone());
            let q = rename(base, &res, &names);
            let r2 = resolve(&q);
            let text = print_program(&q).text;
            acc.evaluations += 1;
            acc.nontrivial(fnv(text.as_bytes()));
            if r2.duplicate_params || r2.duplicate_globals || r2.uses != res.uses {
                acc.count("look-alike-skipped:changes-the-binding-graph", 1);
                return;
            }
            let mut files = serde_json::Map::new();
            files.insert(MAIN.to_string(), json!(text));
            let fail = match compile_src(&text) {
                Outcome::Ok(bts) if bts == base_lua => None,
                Outcome::Ok(_) => Some(("renaming-changes-lua", "renaming two binders to two different names that look alike changed the emitted Lua".to_string())),
                other => Some(("renaming-rejected", other.short())),
            };
            match fail {
                None => acc.outcome("look-alike-names:same-lua"),
                Some((sig, detail)) => {
                    acc.outcome(sig);
                    acc.fail(Failure { sig: sig.to_string(), preds: vec![format!("template:{}", tname), format!("look-alike:{}", why)], detail: format!("template {} binders {} and {} -> two names alike under `{}` ({} / {})
{}
{}", tname, res.binders[*b1].0, res.binders[*b2].0, why, n1.chars().take(40).collect::<String>(), n2.chars().take(40).collect::<String>(), text.chars().take(6000).collect::<String>(), detail), case: json!({"engine": "c09", "files": files, "base": base_text}), size: text.len() });
                }
            }
        });
        st.merge(Stats::merge_all(accs));
    }

    // the same across files: a function of an imported module under every name of the pool, called from main's start
    {
        let mut luas: Vec<(String, Result<(Vec<u8>, Vec<String>), String>)> = Vec::new();
        for fname in ["helper", "begin", "start", "main", "lib", "print2", "go"] {
            let mut files = Files::new();
            files.insert(MAIN.to_string(), format!("use lib\nprint: fn *X -> void : external\nstart :: fn do\n    print(lib.{}(2))\n    print(lib.twice(3))\nend\n", fname));
            files.insert("/p/lib.sy".to_string(), format!("print: fn *X -> void : external\n{} :: fn x: int -> int\n    print(x)\n    x * 2\nend\ntwice :: fn x: int -> int\n    {}({}(x))\nend\n", fname, fname, fname));
            st.evaluations += 1;
            let r = match compile(&files, MAIN, true) {
                Outcome::Ok(lua) => {
                    let run = crate::luarun::run_lua(&lua, 1_000_000);
                    Ok((lua, run.out.into_iter().chain(std::iter::once(format!("{:?}", run.end))).collect()))
                }
                other => Err(other.short()),
            };
            luas.push((fname.to_string(), r));
        }
        let first = luas[0].1.clone();
        for (fname, r) in &luas {
            let same = match (&first, r) {
                (Ok((a, ao)), Ok((b, bo))) => a == b && ao == bo,
                _ => false,
            };
            if same && first.is_ok() {
                st.outcome("module-function-name:same-lua");
            } else {
                st.outcome("module-function-name:DIFFERS");
                let mut fm = serde_json::Map::new();
                fm.insert(MAIN.to_string(), json!(format!("use lib\nprint: fn *X -> void : external\nstart :: fn do\n    print(lib.{}(2))\n    print(lib.twice(3))\nend\n", fname)));
                st.fail(Failure { sig: "renaming-changes-lua".into(), preds: vec!["template:module-function".into(), format!("special-name:{}", fname)], detail: format!("the imported module's function named `{}` instead of `helper`: {:?}\nwith `helper`: {:?}", fname, r.as_ref().map(|x| &x.1), first.as_ref().map(|x| &x.1)), case: json!({"engine": "c09-module-name", "name": fname}), size: 50 });
            }
        }
    }

    // out-of-scope uses: a read of every binder planted at every statement position
    let mut plant_cases = Vec::new();
    for (ti, (_, p)) in temps.iter().enumerate() {
        let res = resolve(p);
        let n = insertion_points(p);
        for b in renamable(&res) {
            for k in 0..n {
                plant_cases.push((ti, b, k));
            }
        }
        // the implicit `self` of blob methods: bound exactly inside a method field of a blob literal
        for k in 0..n {
            plant_cases.push((ti, usize::MAX, k));
        }
    }
    let accs = crate::pool::par_items(&plant_cases, 32, |_| Stats::new(), |acc, i, (ti, b, k)| {
        let (tname, base) = &temps[*ti];
        let res = resolve(base);
        let (name, bkind) = if *b == usize::MAX { ("self".to_string(), "ImplicitSelf".to_string()) } else { (res.binders[*b].0.clone(), format!("{:?}", res.binders[*b].1)) };
        let q = insert_at(base, *k, &Stmt::Raw(format!("print({})", name)));
        // ask the scope model: plant a uniquely named use, find its index, then give it the real name
        let marker = "zz_planted_use";
        let q_marker = insert_at(base, *k, &print_of(var(marker)));
        let idx = resolve(&q_marker).use_names.iter().position(|n| n == marker).expect("planted use");
        let q_model = insert_at(base, *k, &print_of(var(&name)));
        let r2 = resolve(&q_model);
        let planted_bound = r2.uses[idx].is_some();
        let text = print_program(&q).text;
        acc.evaluations += 1;
        acc.nontrivial(fnv(text.as_bytes()));
        let out = compile_src(&text);
        let mut files = serde_json::Map::new();
        files.insert(MAIN.to_string(), json!(text));
        let ok = match (&out, planted_bound) {
            (Outcome::Ok(_), true) => {
                acc.outcome("in-scope-use:accepted");
                true
            }
            (Outcome::Err { errs, bytes_written }, false) if !errs.is_empty() && *bytes_written == 0 => {
                acc.outcome("out-of-scope-use:rejected");
                true
            }
            (Outcome::Err { errs, .. }, true) if !errs.iter().any(|e| e.dbg.contains("Failed to resolve") || e.dbg.contains("nothing matched")) => {
                // rejected for a reason that is not about scope (the planted statement changed the
                // function's value or created an initialisation cycle): not a scope verdict
                acc.count("planted-use-skipped:rejected-for-a-non-scope-reason", 1);
                return;
            }
            _ => false,
        };
        if !ok {
            let sig = if planted_bound { "in-scope-use-rejected" } else { "out-of-scope-use-accepted" };
            acc.outcome(sig);
            acc.fail(Failure {
                sig: sig.into(),
                preds: vec![format!("template:{}", tname), format!("binder-kind:{}", bkind)],
                detail: format!("a read of `{}` ({}) planted at statement position {}: the model says {}, the compiler says {}\n{}", name, bkind, k, if planted_bound { "bound" } else { "unbound" }, out.short(), text),
                case: json!({"engine": "c09-plant", "files": files, "expect_accept": planted_bound}),
                size: text.len(),
            });
        }
        if i % 977 == 0 {
            acc.sample(json!({"template": tname, "planted": name, "position": k, "model_bound": planted_bound}));
        }
    });
    st.merge(Stats::merge_all(accs));

    // a local declaration that shadows an import alias: `b.value` must read the local's field
    for (kind, body) in [
        ("parameter", "f :: fn b: A do\n    print(b.value)\nend\nstart :: fn do\n    f(A { value: 1 })\n    print(b.value)\nend\n"),
        ("local", "start :: fn do\n    do\n        b := A { value: 1 }\n        print(b.value)\n    end\n    print(b.value)\nend\n"),
        ("case-binding", "start :: fn do\n    case (W.Some A { value: 1 }) do\n        Some b -> do\n            print(b.value)\n        end\n        else do end\n    end\n    print(b.value)\nend\n"),
    ] {
        let mut files = Files::new();
        files.insert(MAIN.to_string(), format!("use b\nprint: fn *X -> void : external\nA :: blob {{ value: int }}\nW :: enum\n    Some A,\n    Non,\nend\n{}", body));
        files.insert("/p/b.sy".to_string(), "value :: 200\n".to_string());
        st.evaluations += 1;
        let out = compile(&files, MAIN, true);
        let verdict = match &out {
            Outcome::Ok(lua) => {
                let r = crate::luarun::run_lua(lua, 1_000_000);
                if r.out == vec!["1".to_string(), "200".to_string()] { None } else { Some(format!("printed {:?} ({:?}), the innermost declaration gives [\"1\", \"200\"]", r.out, r.end)) }
            }
            other => Some(format!("not accepted: {}", other.short())),
        };
        st.outcome(if verdict.is_none() { "alias-shadowed-by-local:local-wins" } else { "alias-shadowed-by-local:FAIL" });
        if let Some(d) = verdict {
            let mut fm = serde_json::Map::new();
            for (k, v) in &files {
                fm.insert(k.clone(), json!(v));
            }
            st.fail(Failure { sig: "local-does-not-shadow-import-alias".into(), preds: vec![format!("shadowing-binder:{}", kind), "local-named-like-import-alias-used-with-field-access".into()], detail: format!("{}\n{}", d, files[MAIN]), case: json!({"engine": "c09-alias", "files": fm}), size: 100 });
        }
    }
    run.stats = st;
    run.rule = "three templates covering globals, global functions, parameters, function / block / branch / elif / else / loop locals, closure parameters and locals, case bindings; every subset of 2..k renamable binders x every map of the subset into its own name pool (k^k maps: identity, swaps, maximal shadowing, collisions); plus a read of every binder planted at every statement position; distinct by program text; every case is non-trivial; plus, per template, every pair of its first five renamable binders renamed to each of 32 pairs of different names that are alike under a weaker equality (equal under one of twelve common 32-bit string hashes, equal up to case, anagrams, equal in their first or last 8 .. 1024 characters, differing in an underscore or a leading zero): same Lua".into();
    run.bounds = json!({"max_binders_renamed": maxk, "templates": temps.iter().map(|t| t.0).collect::<Vec<_>>(), "renaming_cases": cases.len(), "planted_use_cases": plant_cases.len()});
    run.assumptions = vec![
        "the scope model of scope.rs (innermost enclosing declaration; a non-function definition is visible after its initialiser, a function definition inside it; globals are visible in the whole file)".into(),
        "maps that give two parameters of one function the same name are skipped (the property does not say whether that is legal)".into(),
        "renamings that change the binding graph but stay closed are different programs; they are checked for behaviour against RefSylt (C01 oracle) instead of byte equality".into(),
    ];
}

pub fn replay(case: &serde_json::Value) -> Option<(String, String)> {
    if case["engine"] == "c09-module-name" {
        let run = |fname: &str| {
            let mut files = Files::new();
            files.insert(MAIN.to_string(), format!("use lib\nprint: fn *X -> void : external\nstart :: fn do\n    print(lib.{}(2))\n    print(lib.twice(3))\nend\n", fname));
            files.insert("/p/lib.sy".to_string(), format!("print: fn *X -> void : external\n{} :: fn x: int -> int\n    print(x)\n    x * 2\nend\ntwice :: fn x: int -> int\n    {}({}(x))\nend\n", fname, fname, fname));
            compile(&files, MAIN, true)
        };
        return match (run(case["name"].as_str()?), run("helper")) {
            (Outcome::Ok(a), Outcome::Ok(b)) if a == b => None,
            (a, _) => Some(("renaming-changes-lua".into(), a.short())),
        };
    }
    let text = case["files"][MAIN].as_str()?;
    if case["engine"] == "c09-alias" {
        let mut files = Files::new();
        for (k, v) in case["files"].as_object()? {
            files.insert(k.clone(), v.as_str()?.to_string());
        }
        return match compile(&files, MAIN, true) {
            Outcome::Ok(lua) => {
                let r = crate::luarun::run_lua(&lua, 1_000_000);
                if r.out == vec!["1".to_string(), "200".to_string()] { None } else { Some(("local-does-not-shadow-import-alias".into(), format!("{:?}", r.out))) }
            }
            other => Some(("not-accepted".into(), other.short())),
        };
    }
    if case["engine"] == "c09-plant" {
        let expect = case["expect_accept"].as_bool()?;
        let out = compile_src(text);
        return if out.is_ok() == expect { None } else { Some((if expect { "in-scope-use-rejected" } else { "out-of-scope-use-accepted" }.into(), out.short())) };
    }
    let base = case["base"].as_str()?;
    match (compile_src(text), compile_src(base)) {
        (Outcome::Ok(a), Outcome::Ok(b)) => {
            if a == b { None } else { Some(("renaming-changes-lua-or-differs".into(), "bytes differ from the base program (replay compares bytes only)".into())) }
        }
        (other, _) => Some(("not-accepted".into(), other.short())),
    }
}
