use std::path::{Path, PathBuf};

pub fn collect_sy(dir: &Path, out: &mut Vec<PathBuf>) {
    if let Ok(rd) = std::fs::read_dir(dir) {
        let mut es: Vec<_> = rd.filter_map(|e| e.ok()).map(|e| e.path()).collect();
        es.sort();
        for p in es {
            if p.is_dir() {
                collect_sy(&p, out);
            } else if p.extension().map(|e| e == "sy").unwrap_or(false) {
                out.push(p);
            }
        }
    }
}
