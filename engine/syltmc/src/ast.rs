//! Core-Sylt AST owned by the harness (never derived from the repository's parser output)
//! and its surface printer.

use std::cell::Cell;
use std::sync::Arc;

pub type Name = String;

#[derive(Clone, Debug, PartialEq, Eq, Hash, PartialOrd, Ord)]
pub enum Ty {
    Int,
    Float,
    Str,
    Bool,
    Void,
    Tuple(Vec<Ty>),
    List(Box<Ty>),
    Fn(Vec<Ty>, Box<Ty>),
    PuFn(Vec<Ty>, Box<Ty>),
    User(String),
    Generic(String),
}

impl Ty {
    pub fn print(&self) -> String {
        match self {
            Ty::Int => "int".into(),
            Ty::Float => "float".into(),
            Ty::Str => "str".into(),
            Ty::Bool => "bool".into(),
            Ty::Void => "void".into(),
            Ty::Tuple(ts) => {
                if ts.len() == 1 {
                    format!("({},)", ts[0].print())
                } else {
                    format!("({})", ts.iter().map(|t| t.print()).collect::<Vec<_>>().join(", "))
                }
            }
            Ty::List(t) => format!("[{}]", t.print()),
            Ty::Fn(ps, r) | Ty::PuFn(ps, r) => {
                let kw = if matches!(self, Ty::Fn(..)) { "fn" } else { "pu" };
                let ps = ps.iter().map(|t| t.print()).collect::<Vec<_>>().join(", ");
                if ps.is_empty() {
                    format!("{} -> {}", kw, r.print())
                } else {
                    format!("{} {} -> {}", kw, ps, r.print())
                }
            }
            Ty::User(n) => n.clone(),
            Ty::Generic(n) => format!("*{}", n),
        }
    }
    /// function types need grouping when nested inside other types
    pub fn print_grouped(&self) -> String {
        match self {
            Ty::Fn(..) | Ty::PuFn(..) => format!("({})", self.print()),
            _ => self.print(),
        }
    }
}

#[derive(Clone, Copy, Debug, PartialEq, Eq, Hash)]
pub enum BinOp {
    Add,
    Sub,
    Mul,
    Div,
    Eq,
    Ne,
    Lt,
    Le,
    Gt,
    Ge,
    And,
    Or,
    AssertEq,
}

impl BinOp {
    pub fn text(self) -> &'static str {
        match self {
            BinOp::Add => "+",
            BinOp::Sub => "-",
            BinOp::Mul => "*",
            BinOp::Div => "/",
            BinOp::Eq => "==",
            BinOp::Ne => "!=",
            BinOp::Lt => "<",
            BinOp::Le => "<=",
            BinOp::Gt => ">",
            BinOp::Ge => ">=",
            BinOp::And => "and",
            BinOp::Or => "or",
            BinOp::AssertEq => "<=>",
        }
    }
    /// documented precedence levels: <=> loosest, or, and, comparisons, + -, * / tightest
    pub fn prec(self) -> u8 {
        match self {
            BinOp::AssertEq => 1,
            BinOp::Or => 2,
            BinOp::And => 3,
            BinOp::Eq | BinOp::Ne | BinOp::Lt | BinOp::Le | BinOp::Gt | BinOp::Ge => 4,
            BinOp::Add | BinOp::Sub => 5,
            BinOp::Mul | BinOp::Div => 6,
        }
    }
    pub const ALL: [BinOp; 13] = [
        BinOp::Add, BinOp::Sub, BinOp::Mul, BinOp::Div, BinOp::Eq, BinOp::Ne, BinOp::Lt, BinOp::Le,
        BinOp::Gt, BinOp::Ge, BinOp::And, BinOp::Or, BinOp::AssertEq,
    ];
}

#[derive(Clone, Copy, Debug, PartialEq, Eq, Hash)]
pub enum UnOp {
    Neg,
    Not,
}

#[derive(Clone, Copy, Debug, PartialEq, Eq, Hash)]
pub enum CallStyle {
    Paren,
    Prime,
    Arrow,
    ArrowPrime,
}

#[derive(Clone, Debug, PartialEq)]
pub enum Expr {
    Int(i64),
    Float(f64),
    Str(String),
    Bool(bool),
    Nil,
    Var(Name),
    /// `alias.name` where alias is a namespace introduced by `use`
    NsVar(Name, Name),
    Bin(BinOp, Box<Expr>, Box<Expr>),
    Un(UnOp, Box<Expr>),
    Call(Box<Expr>, Vec<Expr>, CallStyle),
    Tuple(Vec<Expr>),
    List(Vec<Expr>),
    Index(Box<Expr>, i64),
    Field(Box<Expr>, String),
    Blob(String, Vec<(String, Expr)>),
    Variant(String, String, Option<Box<Expr>>),
    If(Vec<(Expr, Vec<Stmt>)>, Option<Vec<Stmt>>),
    Case(Box<Expr>, Vec<CaseArm>, Option<Vec<Stmt>>),
    Fn(Arc<FnLit>),
    /// redundant parentheses (layout variants only)
    Paren(Box<Expr>),
    /// verbatim surface text (fault snippets); never interpreted
    Raw(String),
}

#[derive(Clone, Debug, PartialEq)]
pub enum RetAnn {
    /// `fn a do ... end` — declared void
    Void,
    /// `fn a ->` newline body — inferred
    Implied,
    /// `fn a -> T` newline body
    Ty(Ty),
}

#[derive(Clone, Debug, PartialEq)]
pub struct FnLit {
    pub params: Vec<(Name, Option<Ty>)>,
    pub ret: RetAnn,
    pub body: Vec<Stmt>,
    pub pure: bool,
}

#[derive(Clone, Debug, PartialEq)]
pub struct CaseArm {
    pub variant: String,
    pub bind: Option<Name>,
    pub body: Vec<Stmt>,
}

#[derive(Clone, Debug, PartialEq)]
pub enum Stmt {
    Def { name: Name, mutable: bool, ty: Option<Ty>, value: Expr },
    Assign { target: Expr, op: Option<BinOp>, value: Expr },
    Expr(Expr),
    Loop(Option<Expr>, Vec<Stmt>),
    Break,
    Continue,
    Ret(Option<Expr>),
    /// id is assigned by `number_unreachables`, in print order
    Unreachable(u32),
    Block(Vec<Stmt>),
    /// verbatim line(s)
    Raw(String),
}

#[derive(Clone, Debug, PartialEq)]
pub enum Top {
    Blob { name: String, fields: Vec<(String, Ty)> },
    Enum { name: String, variants: Vec<(String, Option<Ty>)> },
    Def { name: Name, mutable: bool, ty: Option<Ty>, value: Expr },
    /// `name: <ty text> : external`
    External { name: Name, ty: String },
    Raw(String),
}

#[derive(Clone, Debug, PartialEq, Default)]
pub struct Program {
    pub tops: Vec<Top>,
}

pub const PRINT_DECL: &str = "print: fn *X -> void : external";

// -----------------------------------------------------------------------------------------
// helpers to build terms
// -----------------------------------------------------------------------------------------
pub fn var(n: &str) -> Expr {
    Expr::Var(n.to_string())
}
pub fn int(i: i64) -> Expr {
    Expr::Int(i)
}
pub fn s(t: &str) -> Expr {
    Expr::Str(t.to_string())
}
pub fn bin(op: BinOp, a: Expr, b: Expr) -> Expr {
    Expr::Bin(op, Box::new(a), Box::new(b))
}
pub fn un(op: UnOp, a: Expr) -> Expr {
    Expr::Un(op, Box::new(a))
}
pub fn call(f: Expr, args: Vec<Expr>) -> Expr {
    Expr::Call(Box::new(f), args, CallStyle::Paren)
}
pub fn callv(f: &str, args: Vec<Expr>) -> Expr {
    call(var(f), args)
}
pub fn print_of(e: Expr) -> Stmt {
    Stmt::Expr(callv("print", vec![e]))
}
pub fn def(n: &str, e: Expr) -> Stmt {
    Stmt::Def { name: n.to_string(), mutable: true, ty: None, value: e }
}
pub fn cdef(n: &str, e: Expr) -> Stmt {
    Stmt::Def { name: n.to_string(), mutable: false, ty: None, value: e }
}
pub fn assign(n: &str, e: Expr) -> Stmt {
    Stmt::Assign { target: var(n), op: None, value: e }
}
pub fn op_assign(n: &str, op: BinOp, e: Expr) -> Stmt {
    Stmt::Assign { target: var(n), op: Some(op), value: e }
}
pub fn field(e: Expr, f: &str) -> Expr {
    Expr::Field(Box::new(e), f.to_string())
}
pub fn lambda(params: Vec<(&str, Option<Ty>)>, ret: RetAnn, body: Vec<Stmt>) -> Expr {
    Expr::Fn(Arc::new(FnLit {
        params: params.into_iter().map(|(n, t)| (n.to_string(), t)).collect(),
        ret,
        body,
        pure: false,
    }))
}
pub fn top_fn(name: &str, params: Vec<(&str, Option<Ty>)>, ret: RetAnn, body: Vec<Stmt>) -> Top {
    Top::Def { name: name.to_string(), mutable: false, ty: None, value: lambda(params, ret, body) }
}
pub fn start_fn(body: Vec<Stmt>) -> Top {
    top_fn("start", vec![], RetAnn::Void, body)
}
pub fn if_e(c: Expr, t: Vec<Stmt>, e: Option<Vec<Stmt>>) -> Expr {
    Expr::If(vec![(c, t)], e)
}

// -----------------------------------------------------------------------------------------
// numbering of `<!>` statements (print order) so that reference and Lua agree on which fired
// -----------------------------------------------------------------------------------------
pub fn number_unreachables(p: &mut Program) -> u32 {
    let mut n = 0;
    for t in p.tops.iter_mut() {
        if let Top::Def { value, .. } = t {
            num_expr(value, &mut n);
        }
    }
    n
}
fn num_block(b: &mut Vec<Stmt>, n: &mut u32) {
    for s in b.iter_mut() {
        num_stmt(s, n);
    }
}
fn num_stmt(s: &mut Stmt, n: &mut u32) {
    match s {
        Stmt::Def { value, .. } => num_expr(value, n),
        Stmt::Assign { target, value, .. } => {
            num_expr(target, n);
            num_expr(value, n);
        }
        Stmt::Expr(e) => num_expr(e, n),
        Stmt::Loop(c, b) => {
            if let Some(c) = c {
                num_expr(c, n);
            }
            num_block(b, n);
        }
        Stmt::Ret(Some(e)) => num_expr(e, n),
        Stmt::Unreachable(id) => {
            *id = *n;
            *n += 1;
        }
        Stmt::Block(b) => num_block(b, n),
        Stmt::Break | Stmt::Continue | Stmt::Ret(None) | Stmt::Raw(_) => {}
    }
}
fn num_expr(e: &mut Expr, n: &mut u32) {
    match e {
        Expr::Bin(_, a, b) => {
            num_expr(a, n);
            num_expr(b, n);
        }
        Expr::Un(_, a) | Expr::Paren(a) | Expr::Index(a, _) | Expr::Field(a, _) => num_expr(a, n),
        Expr::Call(f, args, style) => {
            // print order: arrow styles print the first argument before the callee
            match style {
                CallStyle::Arrow | CallStyle::ArrowPrime if !args.is_empty() => {
                    let (first, rest) = args.split_at_mut(1);
                    num_expr(&mut first[0], n);
                    num_expr(f, n);
                    for a in rest {
                        num_expr(a, n);
                    }
                }
                _ => {
                    num_expr(f, n);
                    for a in args {
                        num_expr(a, n);
                    }
                }
            }
        }
        Expr::Tuple(xs) | Expr::List(xs) => xs.iter_mut().for_each(|x| num_expr(x, n)),
        Expr::Blob(_, fs) => fs.iter_mut().for_each(|(_, x)| num_expr(x, n)),
        Expr::Variant(_, _, Some(x)) => num_expr(x, n),
        Expr::If(bs, el) => {
            for (c, b) in bs {
                num_expr(c, n);
                num_block(b, n);
            }
            if let Some(b) = el {
                num_block(b, n);
            }
        }
        Expr::Case(sc, arms, el) => {
            num_expr(sc, n);
            for a in arms {
                num_block(&mut a.body, n);
            }
            if let Some(b) = el {
                num_block(b, n);
            }
        }
        Expr::Fn(f) => {
            let f = Arc::make_mut(f);
            num_block(&mut f.body, n);
        }
        _ => {}
    }
}

// -----------------------------------------------------------------------------------------
// printer
// -----------------------------------------------------------------------------------------
#[derive(Clone, Debug, Default)]
pub struct PrintOpts {
    /// print every binary/unary sub-expression inside parentheses
    pub full_parens: bool,
    /// use `ret e` instead of a trailing expression for the last statement of function bodies
    pub explicit_ret: bool,
    /// print `loop true do` instead of `loop do`
    pub loop_true: bool,
    /// comment / blank / indentation noise seed (0 = canonical)
    pub layout: u32,
    /// CRLF line ends
    pub crlf: bool,
    /// line breaks after `(`, `[` and `,` inside call arguments, lists and tuples
    pub break_brackets: bool,
    /// inside brackets: a line break before every binary operator and before `->` of arrow calls, and a prime call in
    /// the last argument slot of another prime call is written without its own parentheses
    pub break_infix: bool,
    /// redundant parentheses around the whole value of every definition, assignment and `ret`
    /// (if- and case-expressions in those positions are otherwise written bare)
    pub paren_values: bool,
    /// a prime call that is the whole value of a statement is written without its parentheses (`x := f' a, b`);
    /// with `break_brackets` its argument list then continues over lines after each comma
    pub bare_prime_statements: bool,
    /// a comment after every separator that `break_brackets` / `break_infix` put at a line end
    pub comment_in_breaks: bool,
    /// redundant parentheses around the callee of paren-style and arrow-style calls: `(f)(a)`, `a -> (f)(b)`
    pub paren_callees: bool,
    /// per-site choice between a trailing expression and `ret e`: bit k decides tail site k (print order; a site is
    /// the last expression statement of a function body unless it is an if / case expression, whose branch tails are
    /// values of the if, not trailing expressions of the function); sites beyond the mask follow `explicit_ret`.
    /// `None` = all-or-nothing by `explicit_ret`
    pub ret_mask: Option<u64>,
    /// shared counter of tail sites seen so far (shared with nested printers)
    pub ret_sites: Arc<std::sync::atomic::AtomicU32>,
}

pub struct Printed {
    pub text: String,
    /// line (1-based) of each `<!>` by id
    pub unreachable_lines: Vec<usize>,
}

pub struct Printer {
    out: String,
    line: usize,
    indent: usize,
    pub opts: PrintOpts,
    unreachable_lines: Vec<usize>,
    stmt_counter: u32,
    /// bracket nesting depth of the expression being printed (newlines are insignificant when > 0)
    depth: Cell<u32>,
    /// the block being printed ends a function body (its last statement is a tail site)
    in_tail: bool,
    /// the function whose body is being printed yields a value (declared or implied result)
    value_fn: bool,
}

impl Printer {
    pub fn new(opts: PrintOpts) -> Self {
        Printer { out: String::new(), line: 1, indent: 0, opts, unreachable_lines: Vec::new(), stmt_counter: 0, depth: Cell::new(0), in_tail: false, value_fn: false }
    }

    fn bracketed<R>(&self, f: impl FnOnce() -> R) -> R {
        self.depth.set(self.depth.get() + 1);
        let r = f();
        self.depth.set(self.depth.get() - 1);
        r
    }

    /// line-end separator inside brackets (`,` newline), optionally followed by a comment
    fn break_sep(&self) -> &'static str {
        if self.opts.comment_in_breaks { ", // c\n" } else { ",\n" }
    }

    fn callee(&self, f: &Expr) -> String {
        let t = self.expr(f, 8);
        if self.opts.paren_callees && !t.starts_with('(') { format!("({})", t) } else { t }
    }

    /// separator before an infix operator
    fn infix_gap(&self) -> &'static str {
        if self.opts.break_infix && self.depth.get() > 0 { "\n" } else { " " }
    }

    /// last argument of a prime call: another prime call there may stand without its own parentheses
    fn prime_args(&self, args: &[Expr], sep: &str) -> String {
        let n = args.len();
        args.iter()
            .enumerate()
            .map(|(i, x)| {
                let t = self.expr(x, if matches!(x, Expr::Un(..)) { 8 } else { 1 });
                let bare_ok = self.opts.break_infix && i + 1 == n && matches!(x, Expr::Call(_, a, CallStyle::Prime | CallStyle::ArrowPrime) if !a.is_empty() && !(a.len() == 1 && matches!(x, Expr::Call(_, _, CallStyle::ArrowPrime))));
                if bare_ok && t.starts_with('(') && t.ends_with(')') { t[1..t.len() - 1].to_string() } else { t }
            })
            .collect::<Vec<_>>()
            .join(sep)
    }

    fn nl(&mut self) {
        if self.opts.crlf {
            self.out.push('\r');
        }
        self.out.push('\n');
        self.line += 1;
    }

    fn line_out(&mut self, text: &str) {
        // layout noise before a statement line
        self.stmt_counter += 1;
        if self.opts.layout != 0 {
            let k = (self.opts.layout.wrapping_mul(2654435761).wrapping_add(self.stmt_counter * 40503)) >> 7;
            match k % 5 {
                0 => {
                    self.nl();
                }
                1 => {
                    for _ in 0..self.indent {
                        self.out.push_str("    ");
                    }
                    self.out.push_str("// note é");
                    self.nl();
                }
                _ => {}
            }
        }
        let pad = if self.opts.layout != 0 && (self.opts.layout >> 3) & 1 == 1 { "\t" } else { "    " };
        let mut first = true;
        for l in text.split('\n') {
            if !first {
                self.nl();
            }
            first = false;
            for _ in 0..self.indent {
                self.out.push_str(pad);
            }
            self.out.push_str(l);
        }
        if self.opts.layout != 0 && (self.opts.layout.wrapping_add(self.stmt_counter)) % 4 == 0 {
            self.out.push_str(" // c");
        }
        self.nl();
    }

    pub fn program(mut self, p: &Program) -> Printed {
        for t in &p.tops {
            self.top(t);
        }
        self.out = self.out.replace('\u{E000}', "\n");
        // the k-th `<!>` statement line of the text is the statement numbered k (print order)
        let mut lines = Vec::new();
        for (i, l) in self.out.split('\n').enumerate() {
            let t = l.trim();
            if t == "<!>" || t.starts_with("<!> //") {
                lines.push(i + 1);
            }
        }
        self.unreachable_lines = lines;
        Printed { text: self.out, unreachable_lines: self.unreachable_lines }
    }

    pub fn top(&mut self, t: &Top) {
        match t {
            Top::Blob { name, fields } => {
                let fs = fields.iter().map(|(f, t)| format!("{}: {}", f, t.print())).collect::<Vec<_>>().join(", ");
                self.line_out(&format!("{} :: blob {{ {} }}", name, fs));
            }
            Top::Enum { name, variants } => {
                self.line_out(&format!("{} :: enum", name));
                self.indent += 1;
                for (v, t) in variants {
                    match t {
                        Some(t) => self.line_out(&format!("{} {},", v, t.print())),
                        None => self.line_out(&format!("{},", v)),
                    }
                }
                self.indent -= 1;
                self.line_out("end");
            }
            Top::Def { name, mutable, ty, value } => {
                self.stmt(&Stmt::Def { name: name.clone(), mutable: *mutable, ty: ty.clone(), value: value.clone() });
            }
            Top::External { name, ty } => self.line_out(&format!("{}: {} : external", name, ty)),
            Top::Raw(s) => self.line_out(s),
        }
    }

    pub fn block(&mut self, b: &[Stmt]) {
        self.indent += 1;
        let tail = self.in_tail;
        self.in_tail = false;
        for (i, s) in b.iter().enumerate() {
            if tail && i + 1 == b.len() {
                self.tail_stmt(s);
            } else {
                self.stmt(s);
            }
        }
        self.in_tail = tail;
        self.indent -= 1;
    }

    /// the statement that ends a function body (or a branch of the if / case that ends it)
    fn tail_stmt(&mut self, s: &Stmt) {
        match s {
            // an if / case that ends a value function is that function's trailing expression as a whole
            Stmt::Expr(e) if matches!(e, Expr::If(..) | Expr::Case(..)) && self.value_fn && self.opts.ret_mask.is_some() => {
                let mask = self.opts.ret_mask.unwrap();
                let k = self.opts.ret_sites.fetch_add(1, std::sync::atomic::Ordering::Relaxed);
                if k < 64 && mask >> k & 1 == 1 {
                    self.stmt(&Stmt::Ret(Some(e.clone())));
                } else {
                    self.stmt(s);
                }
            }
            Stmt::Expr(e) if !matches!(e, Expr::If(..) | Expr::Case(..)) => {
                let as_ret = match self.opts.ret_mask {
                    Some(mask) => {
                        let k = self.opts.ret_sites.fetch_add(1, std::sync::atomic::Ordering::Relaxed);
                        if k < 64 { mask >> k & 1 == 1 } else { self.opts.explicit_ret }
                    }
                    None => self.opts.explicit_ret,
                };
                if as_ret {
                    self.stmt(&Stmt::Ret(Some(e.clone())));
                } else {
                    self.stmt(s);
                }
            }
            _ => self.stmt(s),
        }
    }

    /// function bodies: the last expression statement may be printed as `ret e`
    fn fn_body(&mut self, b: &[Stmt]) {
        self.indent += 1;
        let old = self.in_tail;
        self.in_tail = false;
        for (i, s) in b.iter().enumerate() {
            if i + 1 == b.len() {
                self.tail_stmt(s);
            } else {
                self.stmt(s);
            }
        }
        self.in_tail = old;
        self.indent -= 1;
    }

    fn fn_header(&self, f: &FnLit) -> String {
        let kw = if f.pure { "pu" } else { "fn" };
        let ps = f
            .params
            .iter()
            .map(|(n, t)| match t {
                Some(t) => format!("{}: {}", n, t.print()),
                None => n.clone(),
            })
            .collect::<Vec<_>>()
            .join(", ");
        let sp = if ps.is_empty() { "" } else { " " };
        match &f.ret {
            RetAnn::Void => format!("{}{}{} do", kw, sp, ps),
            RetAnn::Implied => format!("{}{}{} ->", kw, sp, ps),
            RetAnn::Ty(t) => format!("{}{}{} -> {}", kw, sp, ps, t.print()),
        }
    }

    pub fn stmt(&mut self, s: &Stmt) {
        match s {
            Stmt::Def { name, mutable, ty, value } => {
                let head = match (ty, mutable) {
                    (None, true) => format!("{} := ", name),
                    (None, false) => format!("{} :: ", name),
                    (Some(t), true) => format!("{}: {} = ", name, t.print()),
                    (Some(t), false) => format!("{}: {} : ", name, t.print()),
                };
                self.multi(&head, value, "");
            }
            Stmt::Assign { target, op, value } => {
                let t = self.expr(target, 8);
                let o = match op {
                    None => "=".to_string(),
                    Some(o) => format!("{}=", o.text()),
                };
                self.multi(&format!("{} {} ", t, o), value, "");
            }
            Stmt::Expr(e) => self.multi("", e, ""),
            Stmt::Loop(c, b) => {
                let head = match c {
                    Some(c) => format!("loop {} do", self.expr(c, 0)),
                    None => {
                        if self.opts.loop_true {
                            "loop true do".to_string()
                        } else {
                            "loop do".to_string()
                        }
                    }
                };
                self.line_out(&head);
                self.block(b);
                self.line_out("end");
            }
            Stmt::Break => self.line_out("break"),
            Stmt::Continue => self.line_out("continue"),
            Stmt::Ret(None) => self.line_out("ret"),
            Stmt::Ret(Some(e)) => self.multi("ret ", e, ""),
            Stmt::Unreachable(_) => self.line_out("<!>"),
            Stmt::Block(b) => {
                self.line_out("do");
                self.block(b);
                self.line_out("end");
            }
            Stmt::Raw(s) => self.line_out(s),
        }
    }

    /// statement whose main expression may be a multi-line construct (fn / if / case)
    fn multi(&mut self, head: &str, e: &Expr, tail: &str) {
        if self.opts.bare_prime_statements && tail.is_empty() {
            if let Expr::Call(_, args, CallStyle::Prime | CallStyle::ArrowPrime) = e {
                let enough = if matches!(e, Expr::Call(_, _, CallStyle::ArrowPrime)) { args.len() >= 2 } else { !args.is_empty() };
                if enough {
                    let t = self.expr(e, 0);
                    if t.starts_with('(') && t.ends_with(')') {
                        self.line_out(&format!("{}{}", head, &t[1..t.len() - 1]));
                        return;
                    }
                }
            }
        }
        if self.opts.paren_values && !head.is_empty() && !matches!(e, Expr::Fn(_)) {
            // If / Case come back parenthesised from `expr`; everything else gets one extra pair
            let t = match e {
                Expr::If(..) | Expr::Case(..) | Expr::Paren(_) => self.expr(e, 0),
                _ => format!("({})", self.bracketed(|| self.expr(e, 0))),
            };
            self.line_out(&format!("{}{}{}", head, t, tail));
            return;
        }
        match e {
            Expr::Fn(f) => {
                self.line_out(&format!("{}{}", head, self.fn_header(f)));
                let old_vf = self.value_fn;
                self.value_fn = !matches!(f.ret, RetAnn::Void);
                self.fn_body(&f.body);
                self.value_fn = old_vf;
                self.line_out(&format!("end{}", tail));
            }
            Expr::If(bs, el) => {
                for (i, (c, b)) in bs.iter().enumerate() {
                    let kw = if i == 0 { format!("{}if", head) } else { "elif".to_string() };
                    self.line_out(&format!("{} {} do", kw, self.expr(c, 0)));
                    self.block(b);
                }
                if let Some(b) = el {
                    self.line_out("else do");
                    self.block(b);
                }
                self.line_out(&format!("end{}", tail));
            }
            Expr::Case(sc, arms, el) => {
                self.line_out(&format!("{}case {} do", head, self.expr(sc, 0)));
                self.indent += 1;
                for a in arms {
                    match &a.bind {
                        Some(b) => self.line_out(&format!("{} {} -> do", a.variant, b)),
                        None => self.line_out(&format!("{} -> do", a.variant)),
                    }
                    self.block(&a.body);
                    self.line_out("end");
                }
                if let Some(b) = el {
                    self.line_out("else do");
                    self.block(b);
                    self.line_out("end");
                }
                self.indent -= 1;
                self.line_out(&format!("end{}", tail));
            }
            _ => {
                let t = self.expr(e, 0);
                self.line_out(&format!("{}{}{}", head, t, tail));
            }
        }
    }

    /// sub-printer for nested multi-line constructs inside expressions: renders them with
    /// embedded newlines (the caller's `line_out` indents continuation lines uniformly).
    fn nested(&self, e: &Expr) -> String {
        let mut p = Printer::new(PrintOpts { layout: 0, crlf: false, ..self.opts.clone() });
        p.multi("", e, "");
        let mut t = p.out;
        while t.ends_with('\n') {
            t.pop();
        }
        t
    }

    /// `min` = minimal precedence level the context accepts without parentheses
    pub fn expr(&self, e: &Expr, min: u8) -> String {
        let (text, prec) = match e {
            Expr::Int(i) => {
                if *i < 0 {
                    (format!("(-{})", (*i as i128).abs()), 9)
                } else {
                    (format!("{}", i), 9)
                }
            }
            Expr::Float(f) => {
                // Sylt has no literal with both a fraction and an exponent: positional notation where Rust would use one
                let mut t = format!("{:?}", f.abs());
                if t.contains('e') {
                    t = format!("{}", f.abs());
                    if !t.contains('.') {
                        t.push_str(".0");
                    }
                }
                if *f < 0.0 || (f.to_bits() >> 63) == 1 {
                    (format!("(-{})", t), 9)
                } else {
                    (t, 9)
                }
            }
            // line breaks inside a literal must not be re-indented by the statement printer: they
            // travel as a private-use placeholder and are restored when the program text is complete
            Expr::Str(s) => (format!("\"{}\"", s.replace('\n', "\u{E000}")), 9),
            Expr::Bool(b) => (format!("{}", b), 9),
            Expr::Nil => ("nil".to_string(), 9),
            Expr::Var(n) => (n.clone(), 9),
            Expr::NsVar(a, n) => (format!("{}.{}", a, n), 8),
            Expr::Raw(s) => (s.clone(), 0),
            Expr::Paren(x) => (format!("({})", self.bracketed(|| self.expr(x, 0))), 9),
            Expr::Bin(op, a, b) => {
                let p = op.prec();
                let (la, lb) = if self.opts.full_parens { (9, 9) } else { (p, p + 1) };
                // the operand of a unary operator is parsed at factor level (`-a * b` is `-(a * b)`):
                // a unary child of * / is always parenthesised
                let side = |x: &Expr, lvl: u8| -> String {
                    if matches!(op, BinOp::Mul | BinOp::Div) && matches!(x, Expr::Un(..)) {
                        format!("({})", self.expr(x, 0))
                    } else {
                        self.expr(x, lvl)
                    }
                };
                (format!("{}{}{} {}", side(a, la), self.infix_gap(), op.text(), side(b, lb)), p)
            }
            Expr::Un(op, a) => {
                // the table is silent on unary vs * /: the operand is always an atom or parenthesised
                let t = self.expr(a, 8);
                match op {
                    UnOp::Neg => (format!("-{}", t), 7),
                    UnOp::Not => (format!("not {}", t), 7),
                }
            }
            Expr::Call(f, args, style) => {
                let style = if args.is_empty() && matches!(style, CallStyle::Arrow | CallStyle::ArrowPrime) { CallStyle::Paren } else { *style };
                match style {
                    CallStyle::Paren => {
                        let callee = self.callee(f);
                        if self.opts.break_brackets && !args.is_empty() {
                            let a = self.bracketed(|| args.iter().map(|x| self.expr(x, 0)).collect::<Vec<_>>().join(self.break_sep()));
                            (format!("{}(\n{}\n)", callee, a), 8)
                        } else {
                            let a = self.bracketed(|| args.iter().map(|x| self.expr(x, 0)).collect::<Vec<_>>().join(", "));
                            (format!("{}({})", callee, a), 8)
                        }
                    }
                    CallStyle::Prime => {
                        // a prime call absorbs everything up to the end of the line: always wrapped
                        let sep = if self.opts.break_brackets { self.break_sep() } else { ", " };
                        let callee = self.bracketed(|| self.expr(f, 8));
                        let a = self.bracketed(|| self.prime_args(args, sep));
                        if a.is_empty() {
                            // `f' - 1` would read `- 1` as the argument: a bare `f'` only where nothing can follow it
                            if min == 0 { (format!("{}'", self.expr(f, 8)), 8) } else { (format!("({}')", self.expr(f, 8)), 9) }
                        } else {
                            (format!("({}' {})", callee, a), 9)
                        }
                    }
                    CallStyle::Arrow => {
                        self.bracketed(|| {
                            let a = args[1..].iter().map(|x| self.expr(x, 0)).collect::<Vec<_>>().join(", ");
                            (format!("({}{}-> {}({}))", self.expr(&args[0], 8), self.infix_gap(), self.callee(f), a), 9)
                        })
                    }
                    CallStyle::ArrowPrime => {
                        self.bracketed(|| {
                            let sep = if self.opts.break_brackets { self.break_sep() } else { ", " };
                            let a = self.prime_args(&args[1..], sep);
                            if a.is_empty() {
                                (format!("({}{}-> {}')", self.expr(&args[0], 8), self.infix_gap(), self.expr(f, 8)), 9)
                            } else {
                                (format!("({}{}-> {}' {})", self.expr(&args[0], 8), self.infix_gap(), self.expr(f, 8), a), 9)
                            }
                        })
                    }
                }
            }
            Expr::Tuple(xs) => {
                let sep = if self.opts.break_brackets && xs.len() > 1 { self.break_sep() } else { ", " };
                let a = self.bracketed(|| xs.iter().map(|x| self.expr(x, 0)).collect::<Vec<_>>().join(sep));
                if xs.len() == 1 {
                    (format!("({},)", a), 9)
                } else if self.opts.break_brackets && xs.len() > 1 {
                    (format!("(\n{}\n)", a), 9)
                } else {
                    (format!("({})", a), 9)
                }
            }
            Expr::List(xs) => {
                if self.opts.break_brackets && !xs.is_empty() {
                    (format!("[\n{},\n]", self.bracketed(|| xs.iter().map(|x| self.expr(x, 0)).collect::<Vec<_>>().join(self.break_sep()))), 9)
                } else {
                    (format!("[{}]", self.bracketed(|| xs.iter().map(|x| self.expr(x, 0)).collect::<Vec<_>>().join(", "))), 9)
                }
            }
            Expr::Index(a, i) => (format!("{}[{}]", self.expr(a, 8), i), 8),
            Expr::Field(a, f) => (format!("{}.{}", self.expr(a, 8), f), 8),
            Expr::Blob(n, fs) => {
                let a = fs.iter().map(|(f, x)| format!("{}: {}", f, self.expr(x, 0))).collect::<Vec<_>>().join(", ");
                (format!("{} {{ {} }}", n, a), 9)
            }
            Expr::Variant(en, v, payload) => match payload {
                Some(p) => (format!("({}.{} {})", en, v, self.expr(p, 8)), 9),
                None => (format!("{}.{}", en, v), 8),
            },
            Expr::If(..) | Expr::Case(..) => (format!("({})", self.nested(e)), 9),
            Expr::Fn(f) => {
                // single-line when the body is one expression statement, else multi-line
                (self.nested_fn(f), 9)
            }
        };
        if prec < min {
            format!("({})", text)
        } else {
            text
        }
    }

    fn nested_fn(&self, f: &FnLit) -> String {
        let mut p = Printer::new(PrintOpts { layout: 0, crlf: false, ..self.opts.clone() });
        p.multi("", &Expr::Fn(Arc::new(f.clone())), "");
        let mut t = p.out;
        while t.ends_with('\n') {
            t.pop();
        }
        t
    }
}

pub fn print_program(p: &Program) -> Printed {
    Printer::new(PrintOpts::default()).program(p)
}

pub fn print_with(p: &Program, opts: PrintOpts) -> Printed {
    Printer::new(opts).program(p)
}

/// assigns call styles to the call sites of a program in print order; sites beyond the list keep Paren
pub fn restyle(p: &mut Program, styles: &[CallStyle]) -> usize {
    let mut n = 0usize;
    fn ex(e: &mut Expr, styles: &[CallStyle], n: &mut usize) {
        match e {
            Expr::Call(f, args, style) => {
                let i = *n;
                *n += 1;
                if let Some(st) = styles.get(i) {
                    let legal = match st {
                        CallStyle::Arrow | CallStyle::ArrowPrime => !args.is_empty(),
                        _ => true,
                    };
                    // a prime call as the callee of another call or as a field-access receiver binds differently: keep Paren there
                    *style = if legal { *st } else if matches!(st, CallStyle::ArrowPrime) { CallStyle::Prime } else { CallStyle::Paren };
                }
                ex(f, styles, n);
                for a in args.iter_mut() {
                    ex(a, styles, n);
                }
            }
            Expr::Bin(_, a, b) => {
                ex(a, styles, n);
                ex(b, styles, n);
            }
            Expr::Un(_, a) | Expr::Paren(a) | Expr::Index(a, _) | Expr::Field(a, _) => ex(a, styles, n),
            Expr::Tuple(xs) | Expr::List(xs) => xs.iter_mut().for_each(|x| ex(x, styles, n)),
            Expr::Blob(_, fs) => fs.iter_mut().for_each(|(_, x)| ex(x, styles, n)),
            Expr::Variant(_, _, Some(x)) => ex(x, styles, n),
            Expr::If(bs, el) => {
                for (c, b) in bs.iter_mut() {
                    ex(c, styles, n);
                    bl(b, styles, n);
                }
                if let Some(b) = el {
                    bl(b, styles, n);
                }
            }
            Expr::Case(sc, arms, el) => {
                ex(sc, styles, n);
                for a in arms.iter_mut() {
                    bl(&mut a.body, styles, n);
                }
                if let Some(b) = el {
                    bl(b, styles, n);
                }
            }
            Expr::Fn(f) => bl(&mut Arc::make_mut(f).body, styles, n),
            _ => {}
        }
    }
    fn bl(b: &mut Vec<Stmt>, styles: &[CallStyle], n: &mut usize) {
        for s in b.iter_mut() {
            match s {
                Stmt::Def { value, .. } => ex(value, styles, n),
                Stmt::Assign { target, value, .. } => {
                    ex(target, styles, n);
                    ex(value, styles, n);
                }
                Stmt::Expr(e) | Stmt::Ret(Some(e)) => ex(e, styles, n),
                Stmt::Loop(c, b) => {
                    if let Some(c) = c {
                        ex(c, styles, n);
                    }
                    bl(b, styles, n);
                }
                Stmt::Block(b) => bl(b, styles, n),
                _ => {}
            }
        }
    }
    for t in p.tops.iter_mut() {
        if let Top::Def { value, .. } = t {
            ex(value, styles, &mut n);
        }
    }
    n
}
