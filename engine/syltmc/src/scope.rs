//! Lexical scope model for the core AST (independent re-statement of the language rule):
//! every identifier refers to the innermost enclosing declaration visible at that point
//! (parameters, block / branch / loop locals, case bindings, then the file's globals).

use crate::ast::*;
use std::sync::Arc;

#[derive(Clone, Copy, Debug, PartialEq, Eq)]
pub enum Kind {
    Global,
    Param,
    Local,
    CaseBinding,
    SelfVar,
}

pub enum Ev<'a> {
    Enter,
    Exit,
    /// function boundary marker (parameters of one function share a scope level)
    EnterFn,
    Bind(&'a mut String, Kind),
    Use(&'a mut String),
}

/// Visits binders and uses in a fixed order, emitting scope events. Globals are bound first.
pub fn visit(p: &mut Program, f: &mut dyn FnMut(Ev)) {
    for t in p.tops.iter_mut() {
        match t {
            Top::Def { name, .. } | Top::External { name, .. } => f(Ev::Bind(name, Kind::Global)),
            _ => {}
        }
    }
    for t in p.tops.iter_mut() {
        if let Top::Def { value, .. } = t {
            f(Ev::Enter);
            expr(value, f);
            f(Ev::Exit);
        }
    }
}

fn block(b: &mut Vec<Stmt>, f: &mut dyn FnMut(Ev)) {
    f(Ev::Enter);
    for s in b.iter_mut() {
        stmt(s, f);
    }
    f(Ev::Exit);
}

fn stmt(s: &mut Stmt, f: &mut dyn FnMut(Ev)) {
    match s {
        Stmt::Def { name, value, .. } => {
            if matches!(value, Expr::Fn(_)) {
                f(Ev::Bind(name, Kind::Local));
                expr(value, f);
            } else {
                expr(value, f);
                f(Ev::Bind(name, Kind::Local));
            }
        }
        Stmt::Assign { target, value, .. } => {
            expr(value, f);
            expr(target, f);
        }
        Stmt::Expr(e) | Stmt::Ret(Some(e)) => expr(e, f),
        Stmt::Loop(c, b) => {
            if let Some(c) = c {
                expr(c, f);
            }
            block(b, f);
        }
        Stmt::Block(b) => block(b, f),
        _ => {}
    }
}

fn expr(e: &mut Expr, f: &mut dyn FnMut(Ev)) {
    match e {
        Expr::Var(n) => f(Ev::Use(n)),
        Expr::Bin(_, a, b) => {
            expr(a, f);
            expr(b, f);
        }
        Expr::Un(_, a) | Expr::Paren(a) | Expr::Index(a, _) | Expr::Field(a, _) => expr(a, f),
        Expr::Call(c, args, _) => {
            expr(c, f);
            for a in args.iter_mut() {
                expr(a, f);
            }
        }
        Expr::Tuple(xs) | Expr::List(xs) => xs.iter_mut().for_each(|x| expr(x, f)),
        Expr::Blob(_, fs) => {
            for (_, x) in fs.iter_mut() {
                if matches!(x, Expr::Fn(_)) {
                    f(Ev::Enter);
                    let mut me = "self".to_string();
                    f(Ev::Bind(&mut me, Kind::SelfVar));
                    expr(x, f);
                    f(Ev::Exit);
                } else {
                    expr(x, f);
                }
            }
        }
        Expr::Variant(_, _, Some(x)) => expr(x, f),
        Expr::If(bs, el) => {
            for (c, b) in bs.iter_mut() {
                expr(c, f);
                block(b, f);
            }
            if let Some(b) = el {
                block(b, f);
            }
        }
        Expr::Case(sc, arms, el) => {
            expr(sc, f);
            for a in arms.iter_mut() {
                f(Ev::Enter);
                if let Some(b) = a.bind.as_mut() {
                    f(Ev::Bind(b, Kind::CaseBinding));
                }
                for s in a.body.iter_mut() {
                    stmt(s, f);
                }
                f(Ev::Exit);
            }
            if let Some(b) = el {
                block(b, f);
            }
        }
        Expr::Fn(l) => {
            let l = Arc::make_mut(l);
            f(Ev::Enter);
            f(Ev::EnterFn);
            for (n, _) in l.params.iter_mut() {
                f(Ev::Bind(n, Kind::Param));
            }
            for s in l.body.iter_mut() {
                stmt(s, f);
            }
            f(Ev::Exit);
        }
        _ => {}
    }
}

#[derive(Clone, Debug, PartialEq)]
pub struct Resolution {
    /// per binder (visit order): name and kind
    pub binders: Vec<(String, Kind)>,
    /// per use (visit order): the binder it denotes, or None when unbound
    pub uses: Vec<Option<usize>>,
    pub use_names: Vec<String>,
    /// two globals of the file share a name
    pub duplicate_globals: bool,
    /// two parameters of one function share a name
    pub duplicate_params: bool,
}

pub fn resolve(p: &Program) -> Resolution {
    let mut p = p.clone();
    let mut binders: Vec<(String, Kind)> = Vec::new();
    let mut uses = Vec::new();
    let mut use_names = Vec::new();
    let mut globals: Vec<(String, usize)> = Vec::new();
    let mut stack: Vec<(String, usize)> = Vec::new();
    let mut marks: Vec<usize> = Vec::new();
    let mut fn_marks: Vec<usize> = Vec::new();
    let mut duplicate_globals = false;
    let mut duplicate_params = false;
    visit(&mut p, &mut |ev| match ev {
        Ev::Enter => marks.push(stack.len()),
        Ev::EnterFn => fn_marks.push(stack.len()),
        Ev::Exit => {
            let m = marks.pop().unwrap();
            stack.truncate(m);
            while fn_marks.last().map(|f| *f > m).unwrap_or(false) {
                fn_marks.pop();
            }
            if fn_marks.last() == Some(&m) {
                fn_marks.pop();
            }
        }
        Ev::Bind(name, kind) => {
            let id = binders.len();
            binders.push((name.clone(), kind));
            match kind {
                Kind::Global => {
                    if globals.iter().any(|g| g.0 == *name) {
                        duplicate_globals = true;
                    }
                    globals.push((name.clone(), id));
                }
                Kind::Param => {
                    let start = *fn_marks.last().unwrap_or(&0);
                    if stack[start..].iter().any(|s| s.0 == *name) {
                        duplicate_params = true;
                    }
                    stack.push((name.clone(), id));
                }
                _ => stack.push((name.clone(), id)),
            }
        }
        Ev::Use(name) => {
            let r = stack.iter().rev().find(|s| s.0 == *name).map(|s| s.1).or_else(|| globals.iter().find(|g| g.0 == *name).map(|g| g.1));
            uses.push(r);
            use_names.push(name.clone());
        }
    });
    Resolution { binders, uses, use_names, duplicate_globals, duplicate_params }
}

/// renames binder i to names[i] (None = keep) and every use that denoted it in `base`
pub fn rename(p: &Program, base: &Resolution, names: &[Option<String>]) -> Program {
    let mut q = p.clone();
    let mut bi = 0usize;
    let mut ui = 0usize;
    visit(&mut q, &mut |ev| match ev {
        Ev::Bind(name, kind) => {
            if kind != Kind::SelfVar {
                if let Some(Some(n)) = names.get(bi) {
                    *name = n.clone();
                }
            }
            bi += 1;
        }
        Ev::Use(name) => {
            if let Some(Some(b)) = base.uses.get(ui) {
                if base.binders[*b].1 != Kind::SelfVar {
                    if let Some(Some(n)) = names.get(*b) {
                        *name = n.clone();
                    }
                }
            }
            ui += 1;
        }
        _ => {}
    });
    q
}

/// number of statement insertion points (every index of every block, function body included)
pub fn insertion_points(p: &Program) -> usize {
    let mut q = p.clone();
    let mut n = 0;
    insert_walk(&mut q, usize::MAX, &Stmt::Break, &mut n);
    n
}

pub fn insert_at(p: &Program, k: usize, s: &Stmt) -> Program {
    let mut q = p.clone();
    let mut n = 0;
    insert_walk(&mut q, k, s, &mut n);
    q
}

fn insert_walk(p: &mut Program, k: usize, s: &Stmt, n: &mut usize) {
    fn bl(b: &mut Vec<Stmt>, k: usize, s: &Stmt, n: &mut usize) {
        let mut i = 0;
        while i <= b.len() {
            if *n == k {
                b.insert(i, s.clone());
                *n += 1;
                return;
            }
            *n += 1;
            if i < b.len() {
                st(&mut b[i], k, s, n);
                if *n > k && k != usize::MAX {
                    return;
                }
            }
            i += 1;
        }
    }
    fn st(x: &mut Stmt, k: usize, s: &Stmt, n: &mut usize) {
        match x {
            Stmt::Def { value, .. } => ex(value, k, s, n),
            Stmt::Assign { value, .. } => ex(value, k, s, n),
            Stmt::Expr(e) | Stmt::Ret(Some(e)) => ex(e, k, s, n),
            Stmt::Loop(_, b) | Stmt::Block(b) => bl(b, k, s, n),
            _ => {}
        }
    }
    fn ex(e: &mut Expr, k: usize, s: &Stmt, n: &mut usize) {
        match e {
            Expr::Fn(l) => bl(&mut Arc::make_mut(l).body, k, s, n),
            Expr::If(bs, el) => {
                for (_, b) in bs.iter_mut() {
                    bl(b, k, s, n);
                }
                if let Some(b) = el {
                    bl(b, k, s, n);
                }
            }
            Expr::Case(_, arms, el) => {
                for a in arms.iter_mut() {
                    bl(&mut a.body, k, s, n);
                }
                if let Some(b) = el {
                    bl(b, k, s, n);
                }
            }
            Expr::Bin(_, a, b) => {
                ex(a, k, s, n);
                ex(b, k, s, n);
            }
            Expr::Call(c, args, _) => {
                ex(c, k, s, n);
                for a in args.iter_mut() {
                    ex(a, k, s, n);
                }
            }
            Expr::Blob(_, fs) => fs.iter_mut().for_each(|(_, x)| ex(x, k, s, n)),
            _ => {}
        }
    }
    for t in p.tops.iter_mut() {
        if let Top::Def { value, .. } = t {
            ex(value, k, s, n);
            if *n > k && k != usize::MAX {
                return;
            }
        }
    }
}
