//! Tiny work pool: dynamic distribution of index ranges over big-stack worker threads,
//! one accumulator per worker, merged by the caller.

use std::sync::atomic::{AtomicBool, AtomicU64, Ordering};

pub fn threads() -> usize {
    std::env::var("VERIF_THREADS")
        .ok()
        .and_then(|s| s.parse().ok())
        .unwrap_or_else(|| std::thread::available_parallelism().map(|n| n.get()).unwrap_or(8))
}

pub const STACK: usize = 256 << 20;

/// Calls `f(acc, i)` for every i in 0..total, split in chunks handed out dynamically.
/// `stop` lets a worker end the whole run early (caps); the caller sees how far it got via the accs.
pub fn par_range<A: Send>(
    total: u64,
    chunk: u64,
    init: impl Fn(usize) -> A + Sync,
    f: impl Fn(&mut A, u64) + Sync,
    stop: &AtomicBool,
) -> Vec<A> {
    let next = AtomicU64::new(0);
    let n = threads().max(1);
    let chunk = chunk.max(1);
    let mut out = Vec::new();
    std::thread::scope(|s| {
        let mut hs = Vec::new();
        for t in 0..n {
            let next = &next;
            let init = &init;
            let f = &f;
            let h = std::thread::Builder::new()
                .stack_size(STACK)
                .spawn_scoped(s, move || {
                    crate::harness::set_thread_seed(0x5eed_0000 + t as u64);
                    let mut acc = init(t);
                    loop {
                        if stop.load(Ordering::Relaxed) {
                            break;
                        }
                        let start = next.fetch_add(chunk, Ordering::Relaxed);
                        if start >= total {
                            break;
                        }
                        let end = (start + chunk).min(total);
                        for i in start..end {
                            f(&mut acc, i);
                        }
                    }
                    acc
                })
                .expect("spawn worker");
            hs.push(h);
        }
        for h in hs {
            match h.join() {
                Ok(a) => out.push(a),
                Err(p) => {
                    eprintln!("MACHINERY: worker panicked: {}", crate::harness::panic_text(&p));
                    std::process::exit(2);
                }
            }
        }
    });
    out
}

/// Convenience: iterate a slice in parallel.
pub fn par_items<T: Sync, A: Send>(
    items: &[T],
    chunk: u64,
    init: impl Fn(usize) -> A + Sync,
    f: impl Fn(&mut A, usize, &T) + Sync,
) -> Vec<A> {
    let stop = AtomicBool::new(false);
    par_range(
        items.len() as u64,
        chunk,
        init,
        |acc, i| f(acc, i as usize, &items[i as usize]),
        &stop,
    )
}

/// Run a closure on a fresh big-stack thread with a chosen hash seed (one execution = one thread).
pub fn on_fresh_thread<R: Send>(seed: u64, f: impl FnOnce() -> R + Send) -> R {
    std::thread::scope(|s| {
        std::thread::Builder::new()
            .stack_size(STACK)
            .spawn_scoped(s, move || {
                crate::harness::set_thread_seed(seed);
                f()
            })
            .expect("spawn")
            .join()
            .unwrap_or_else(|p| {
                eprintln!("MACHINERY: thread panicked: {}", crate::harness::panic_text(&p));
                std::process::exit(2);
            })
    })
}
