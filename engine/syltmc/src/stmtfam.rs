//! Statement-level program families (loops, closures, recursion, blobs, enums, globals):
//! every sequence of actions over a themed menu, after a fixed prologue.

use crate::ast::*;
use std::sync::Arc;

fn ext_print() -> Top {
    Top::External { name: "print".into(), ty: "fn *X -> void".into() }
}
fn blob_p() -> Top {
    Top::Blob { name: "P".into(), fields: vec![("x".into(), Ty::Int), ("y".into(), Ty::Int)] }
}
fn enum_e() -> Top {
    Top::Enum { name: "E".into(), variants: vec![("A".into(), Some(Ty::Int)), ("B".into(), None)] }
}
fn raw(s: &str) -> Stmt {
    Stmt::Raw(s.to_string())
}
fn lam(params: Vec<(&str, Option<Ty>)>, ret: RetAnn, body: Vec<Stmt>) -> Expr {
    lambda(params, ret, body)
}
fn pa(p: &str, f: &str) -> Expr {
    field(var(p), f)
}
fn fa(p: &str, f: &str, op: Option<BinOp>, v: Expr) -> Stmt {
    Stmt::Assign { target: pa(p, f), op, value: v }
}
fn n1(e: Expr) -> Expr {
    bin(BinOp::Sub, e, int(1))
}
fn add(a: Expr, b: Expr) -> Expr {
    bin(BinOp::Add, a, b)
}
fn mul(a: Expr, b: Expr) -> Expr {
    bin(BinOp::Mul, a, b)
}
fn if_s(c: Expr, t: Vec<Stmt>) -> Stmt {
    Stmt::Expr(if_e(c, t, None))
}
fn variant_a(e: Expr) -> Expr {
    Expr::Variant("E".into(), "A".into(), Some(Box::new(e)))
}

pub struct ActionFamily {
    pub name: &'static str,
    pub tops: Vec<Top>,
    pub prologue: Vec<Stmt>,
    pub actions: Vec<Vec<Stmt>>,
    pub epilogue: Vec<Stmt>,
    pub max_len: usize,
    /// wrap the sequence: None = statements of start; Some(f) = custom builder
    pub wrap: Option<fn(Vec<Stmt>) -> Vec<Stmt>>,
}

impl ActionFamily {
    pub fn programs(&self, out: &mut Vec<(String, Program)>) {
        let n = self.actions.len();
        for len in 1..=self.max_len {
            let total = n.pow(len as u32);
            for mut i in 0..total {
                let mut body = self.prologue.clone();
                let mut seq = Vec::new();
                for _ in 0..len {
                    seq.extend(self.actions[i % n].iter().cloned());
                    i /= n;
                }
                let seq = match self.wrap {
                    Some(w) => w(seq),
                    None => seq,
                };
                body.extend(seq);
                body.extend(self.epilogue.iter().cloned());
                let mut tops = self.tops.clone();
                tops.push(start_fn(body));
                out.push((self.name.to_string(), Program { tops }));
            }
        }
    }
}

fn loops_family(thorough: bool) -> Vec<ActionFamily> {
    let simple: Vec<Vec<Stmt>> = vec![
        vec![op_assign("i", BinOp::Add, int(1))],
        vec![op_assign("n", BinOp::Add, var("i"))],
        vec![print_of(var("i"))],
        vec![if_s(bin(BinOp::Eq, var("i"), int(1)), vec![Stmt::Continue])],
        vec![if_s(bin(BinOp::Eq, var("i"), int(2)), vec![Stmt::Break])],
        vec![if_s(bin(BinOp::Gt, var("n"), int(2)), vec![Stmt::Ret(None)])],
        vec![def("j", mul(var("i"), int(2))), print_of(var("j"))],
        vec![Stmt::Expr(if_e(bin(BinOp::Lt, var("i"), int(2)), vec![print_of(int(7))], Some(vec![print_of(int(8)), Stmt::Break])))],
        vec![def("m", int(0)), Stmt::Loop(Some(bin(BinOp::Lt, var("m"), int(2))), vec![op_assign("m", BinOp::Add, int(1)), if_s(bin(BinOp::Eq, var("m"), int(1)), vec![Stmt::Continue]), print_of(add(mul(var("i"), int(10)), var("m")))])],
        vec![def("m", int(0)), Stmt::Loop(None, vec![op_assign("m", BinOp::Add, int(1)), if_s(bin(BinOp::Gt, var("m"), int(1)), vec![Stmt::Break]), op_assign("n", BinOp::Add, int(100))])],
        vec![cdef("w", lam(vec![], RetAnn::Ty(Ty::Int), vec![Stmt::Expr(mul(var("i"), int(3)))])), print_of(callv("w", vec![]))],
    ];
    let mk = |name: &'static str, cond: Option<Expr>, first_inc: bool| ActionFamily {
        name,
        tops: vec![ext_print()],
        prologue: vec![def("i", int(0)), def("n", int(0))],
        actions: simple.clone(),
        epilogue: vec![print_of(var("i")), print_of(var("n"))],
        max_len: if thorough { 4 } else { 3 },
        wrap: match (cond.is_some(), first_inc) {
            (true, true) => Some(|mut s| {
                let mut b = vec![op_assign("i", BinOp::Add, int(1))];
                b.append(&mut s);
                vec![Stmt::Loop(Some(bin(BinOp::Lt, var("i"), int(3))), b)]
            }),
            (true, false) => Some(|mut s| {
                s.push(op_assign("i", BinOp::Add, int(1)));
                vec![Stmt::Loop(Some(bin(BinOp::Lt, var("i"), int(3))), s)]
            }),
            (false, _) => Some(|mut s| {
                let mut b = vec![op_assign("i", BinOp::Add, int(1)), if_s(bin(BinOp::Gt, var("i"), int(3)), vec![Stmt::Break])];
                b.append(&mut s);
                vec![Stmt::Loop(None, b)]
            }),
        },
    };
    vec![mk("loops:cond-inc-first", Some(int(0)), true), mk("loops:cond-inc-last", Some(int(0)), false), mk("loops:uncond", None, true)]
}

fn closures_family(thorough: bool) -> ActionFamily {
    // mk :: fn -> fn -> int   (a fresh counter per call)
    let mk = top_fn(
        "mk",
        vec![],
        RetAnn::Implied,
        vec![def("cn", int(0)), Stmt::Expr(lam(vec![], RetAnn::Ty(Ty::Int), vec![op_assign("cn", BinOp::Add, int(1)), Stmt::Expr(var("cn"))]))],
    );
    // addn :: fn d: int -> fn -> int   (captures its parameter and the global g)
    let addn = top_fn("addn", vec![("d", Some(Ty::Int))], RetAnn::Implied, vec![Stmt::Expr(lam(vec![], RetAnn::Ty(Ty::Int), vec![Stmt::Expr(add(var("d"), var("g")))]))]);
    ActionFamily {
        name: "closures",
        tops: vec![ext_print(), Top::Def { name: "g".into(), mutable: true, ty: None, value: int(0) }, mk, addn],
        prologue: vec![
            def("n", int(0)),
            cdef("inc", lam(vec![], RetAnn::Void, vec![op_assign("n", BinOp::Add, int(1))])),
            cdef("get", lam(vec![], RetAnn::Ty(Ty::Int), vec![Stmt::Expr(var("n"))])),
            cdef("c1", callv("mk", vec![])),
            cdef("c2", callv("mk", vec![])),
            def("h", callv("addn", vec![int(5)])),
        ],
        actions: vec![
            vec![Stmt::Expr(callv("inc", vec![]))],
            vec![print_of(callv("get", vec![]))],
            vec![assign("n", mul(var("n"), int(2)))],
            vec![print_of(callv("c1", vec![]))],
            vec![print_of(callv("c2", vec![]))],
            vec![print_of(callv("h", vec![]))],
            vec![op_assign("g", BinOp::Add, int(10))],
            vec![assign("h", callv("addn", vec![var("n")]))],
            vec![Stmt::Block(vec![def("n", int(100)), Stmt::Expr(callv("inc", vec![])), print_of(var("n")), print_of(callv("get", vec![]))])],
            vec![def("k0", int(0)), Stmt::Loop(Some(bin(BinOp::Lt, var("k0"), int(2))), vec![def("v0", mul(var("k0"), int(7))), assign("h", lam(vec![], RetAnn::Ty(Ty::Int), vec![Stmt::Expr(add(var("v0"), var("n")))])), op_assign("k0", BinOp::Add, int(1))])],
        ],
        epilogue: vec![print_of(var("n")), print_of(callv("h", vec![]))],
        max_len: if thorough { 4 } else { 3 },
        wrap: None,
    }
}

fn blobs_family(thorough: bool) -> ActionFamily {
    let cblob = Top::Blob { name: "C".into(), fields: vec![("n".into(), Ty::Int), ("bump".into(), Ty::Fn(vec![], Box::new(Ty::Void))), ("get".into(), Ty::Fn(vec![], Box::new(Ty::Int))), ("inc".into(), Ty::Fn(vec![], Box::new(Ty::Int)))] };
    ActionFamily {
        name: "blobs",
        tops: vec![ext_print(), blob_p(), cblob],
        prologue: vec![
            def("p1", Expr::Blob("P".into(), vec![("x".into(), int(1)), ("y".into(), int(2))])),
            def("p2", var("p1")),
            def("p3", Expr::Blob("P".into(), vec![("x".into(), int(1)), ("y".into(), int(2))])),
            def(
                "cnt",
                Expr::Blob(
                    "C".into(),
                    vec![
                        ("n".into(), int(0)),
                        ("bump".into(), lam(vec![], RetAnn::Void, vec![fa("self", "n", Some(BinOp::Add), int(1))])),
                        ("get".into(), lam(vec![], RetAnn::Ty(Ty::Int), vec![Stmt::Expr(pa("self", "n"))])),
                        ("inc".into(), lam(vec![], RetAnn::Ty(Ty::Int), vec![fa("self", "n", Some(BinOp::Add), int(1)), Stmt::Expr(pa("self", "n"))])),
                    ],
                ),
            ),
            def("c2", var("cnt")),
        ],
        actions: vec![
            vec![fa("p1", "x", None, int(5))],
            vec![fa("p2", "y", Some(BinOp::Add), int(1))],
            vec![print_of(add(mul(pa("p1", "x"), int(10)), pa("p1", "y")))],
            vec![print_of(bin(BinOp::Eq, var("p1"), var("p3")))],
            vec![print_of(bin(BinOp::Ne, var("p1"), var("p2")))],
            vec![fa("p3", "x", None, pa("p2", "x"))],
            vec![assign("p2", Expr::Blob("P".into(), vec![("x".into(), pa("p1", "y")), ("y".into(), pa("p1", "x"))]))],
            vec![Stmt::Expr(call(pa("cnt", "bump"), vec![]))],
            vec![print_of(call(pa("c2", "get"), vec![]))],
            vec![fa("cnt", "n", Some(BinOp::Mul), int(3))],
            vec![fa("p1", "x", Some(BinOp::Sub), pa("p2", "y"))],
            vec![print_of(add(mul(pa("cnt", "n"), int(100)), call(pa("cnt", "inc"), vec![])))],
            vec![print_of(add(mul(call(pa("cnt", "inc"), vec![]), int(100)), pa("c2", "n")))],
        ],
        epilogue: vec![print_of(Expr::Tuple(vec![pa("p1", "x"), pa("p1", "y"), pa("p2", "x"), pa("p2", "y"), pa("p3", "x"), pa("cnt", "n")]))],
        max_len: if thorough { 4 } else { 3 },
        wrap: None,
    }
}

fn lists_family(thorough: bool) -> ActionFamily {
    ActionFamily {
        name: "lists",
        tops: vec![
            ext_print(),
            Top::External { name: "list_push".into(), ty: "fn [*ITEM], *ITEM -> void".into() },
            Top::External { name: "xx_len".into(), ty: "fn [*ITEM] -> int".into() },
        ],
        prologue: vec![def("l1", Expr::List(vec![int(1), int(2)])), def("l2", var("l1")), def("l3", Expr::List(vec![int(1), int(2)])), def("ll", Expr::List(vec![var("l1")]))],
        actions: vec![
            vec![Stmt::Expr(callv("list_push", vec![var("l1"), int(3)]))],
            vec![Stmt::Expr(callv("list_push", vec![var("l2"), callv("xx_len", vec![var("l1")])]))],
            vec![Stmt::Expr(callv("list_push", vec![var("l3"), int(3)]))],
            vec![print_of(var("l2"))],
            vec![print_of(bin(BinOp::Eq, var("l1"), var("l3")))],
            vec![print_of(bin(BinOp::Ne, var("l2"), var("l1")))],
            vec![assign("l2", Expr::List(vec![int(1), int(2)]))],
            vec![print_of(callv("xx_len", vec![var("l1")]))],
            vec![Stmt::Expr(callv("list_push", vec![var("ll"), var("l3")]))],
            vec![print_of(var("ll"))],
            vec![print_of(bin(BinOp::Eq, var("ll"), Expr::List(vec![var("l3")])))],
        ],
        epilogue: vec![print_of(Expr::Tuple(vec![var("l1"), var("l2"), var("l3")])), print_of(var("ll"))],
        max_len: if thorough { 4 } else { 3 },
        wrap: None,
    }
}

fn enums_family(thorough: bool) -> ActionFamily {
    let describe = top_fn(
        "describe",
        vec![("e", Some(Ty::User("E".into())))],
        RetAnn::Ty(Ty::Int),
        vec![Stmt::Expr(Expr::Case(
            Box::new(var("e")),
            vec![
                CaseArm { variant: "A".into(), bind: Some("q".into()), body: vec![Stmt::Expr(add(var("q"), int(100)))] },
                CaseArm { variant: "B".into(), bind: None, body: vec![Stmt::Expr(int(7))] },
            ],
            None,
        ))],
    );
    ActionFamily {
        name: "enums",
        tops: vec![ext_print(), enum_e(), describe],
        prologue: vec![def("e1", variant_a(int(1))), def("e2", Expr::Variant("E".into(), "B".into(), None)), def("n", int(0))],
        actions: vec![
            vec![print_of(var("e1"))],
            vec![print_of(callv("describe", vec![var("e1")]))],
            vec![print_of(callv("describe", vec![var("e2")]))],
            vec![assign("e1", variant_a(add(var("n"), int(2))))],
            vec![assign("e2", var("e1"))],
            vec![assign("e1", Expr::Variant("E".into(), "B".into(), None))],
            vec![print_of(bin(BinOp::Eq, var("e1"), var("e2")))],
            vec![print_of(bin(BinOp::Eq, var("e1"), variant_a(int(1))))],
            vec![Stmt::Expr(Expr::Case(
                Box::new(var("e1")),
                vec![CaseArm { variant: "A".into(), bind: Some("q".into()), body: vec![op_assign("n", BinOp::Add, var("q")), print_of(var("q"))] }],
                Some(vec![op_assign("n", BinOp::Add, int(50))]),
            ))],
            vec![def(
                "w",
                Expr::Case(
                    Box::new(var("e2")),
                    vec![CaseArm { variant: "A".into(), bind: Some("q".into()), body: vec![Stmt::Expr(lam(vec![], RetAnn::Ty(Ty::Int), vec![Stmt::Expr(mul(var("q"), int(2)))]))] }],
                    Some(vec![Stmt::Expr(lam(vec![], RetAnn::Ty(Ty::Int), vec![Stmt::Expr(int(0))]))]),
                ),
            ), assign("e2", variant_a(int(9))), print_of(callv("w", vec![]))],
        ],
        epilogue: vec![print_of(var("e1")), print_of(var("e2")), print_of(var("n"))],
        max_len: if thorough { 4 } else { 3 },
        wrap: None,
    }
}

/// if- and case-expressions used as values whose branches start with statements of every block kind (a `do` block,
/// a loop, a nested if statement, a definition) - in a definition, an argument, an operand and a loop condition
fn value_blocks_family(thorough: bool) -> ActionFamily {
    let lead: Vec<(&str, fn() -> Vec<Stmt>)> = vec![
        ("do-block", || vec![Stmt::Block(vec![op_assign("n", BinOp::Add, int(1)), print_of(var("n"))])]),
        ("loop", || vec![Stmt::Loop(None, vec![op_assign("n", BinOp::Add, int(10)), Stmt::Break])]),
        ("if-statement", || vec![if_s(bin(BinOp::Gt, var("n"), int(0)), vec![op_assign("n", BinOp::Add, int(100))])]),
        ("definition", || vec![def("tmp", mul(var("n"), int(2))), op_assign("n", BinOp::Add, var("tmp"))]),
        ("nested-do-blocks", || vec![Stmt::Block(vec![Stmt::Block(vec![op_assign("n", BinOp::Add, int(3))])]), Stmt::Block(vec![print_of(var("n"))])]),
    ];
    let mut actions: Vec<Vec<Stmt>> = Vec::new();
    for (_, l) in &lead {
        let branch = |l: &fn() -> Vec<Stmt>, v: i64| {
            let mut b = l();
            b.push(Stmt::Expr(add(var("n"), int(v))));
            b
        };
        // definition value (then-branch), definition value (else-branch taken), argument, operand, case value, loop condition
        actions.push(vec![def("x", if_e(bin(BinOp::Ge, var("n"), int(0)), branch(l, 1), Some(vec![Stmt::Expr(int(0))]))), print_of(var("x"))]);
        actions.push(vec![def("x", if_e(bin(BinOp::Lt, var("n"), int(0)), vec![Stmt::Expr(int(0))], Some(branch(l, 2)))), print_of(var("x"))]);
        actions.push(vec![print_of(if_e(bin(BinOp::Ge, var("n"), int(0)), branch(l, 3), Some(vec![Stmt::Expr(int(0))])))]);
        actions.push(vec![print_of(add(int(1000), if_e(bin(BinOp::Ge, var("n"), int(0)), branch(l, 4), Some(vec![Stmt::Expr(int(0))]))))]);
        actions.push(vec![def("y", Expr::Case(Box::new(variant_a(var("n"))), vec![CaseArm { variant: "A".into(), bind: Some("q".into()), body: { let mut b = l(); b.push(Stmt::Expr(add(var("q"), var("n")))); b } }], Some(vec![Stmt::Expr(int(0))]))), print_of(var("y"))]);
        actions.push(vec![def("i", int(0)), Stmt::Loop(Some(if_e(bin(BinOp::Lt, var("i"), int(2)), { let mut b = l(); b.push(Stmt::Expr(Expr::Bool(true))); b }, Some(vec![Stmt::Expr(Expr::Bool(false))]))), vec![op_assign("i", BinOp::Add, int(1))]), print_of(var("i"))]);
    }
    ActionFamily {
        name: "value-blocks",
        tops: vec![ext_print(), blob_p(), enum_e()],
        prologue: vec![def("n", int(1))],
        actions,
        epilogue: vec![print_of(var("n"))],
        max_len: if thorough { 2 } else { 1 },
        wrap: None,
    }
}

fn globals_family(thorough: bool) -> ActionFamily {
    ActionFamily {
        name: "globals",
        tops: vec![
            ext_print(),
            Top::Def { name: "g".into(), mutable: true, ty: None, value: int(1) },
            Top::Def { name: "k".into(), mutable: false, ty: None, value: int(3) },
            Top::Def { name: "t".into(), mutable: true, ty: None, value: Expr::Tuple(vec![int(1), int(2)]) },
            top_fn("bump", vec![], RetAnn::Void, vec![op_assign("g", BinOp::Add, var("k"))]),
            top_fn("setg", vec![("q", Some(Ty::Int))], RetAnn::Ty(Ty::Int), vec![def("old", var("g")), assign("g", var("q")), Stmt::Expr(var("old"))]),
            top_fn("twice", vec![("f", Some(Ty::Fn(vec![], Box::new(Ty::Void))))], RetAnn::Void, vec![Stmt::Expr(callv("f", vec![])), Stmt::Expr(callv("f", vec![]))]),
        ],
        prologue: vec![],
        actions: vec![
            vec![Stmt::Expr(callv("bump", vec![]))],
            vec![print_of(var("g"))],
            vec![assign("g", mul(var("g"), int(2)))],
            vec![print_of(callv("setg", vec![int(5)]))],
            vec![print_of(add(var("g"), callv("setg", vec![int(7)])))],
            vec![print_of(add(callv("setg", vec![int(8)]), var("g")))],
            vec![Stmt::Expr(callv("twice", vec![var("bump")]))],
            vec![Stmt::Block(vec![def("g", int(100)), Stmt::Expr(callv("bump", vec![])), print_of(var("g"))])],
            vec![op_assign("t", BinOp::Add, Expr::Tuple(vec![var("g"), var("k")])), print_of(var("t"))],
            vec![op_assign("g", BinOp::Add, callv("setg", vec![int(2)]))],
        ],
        epilogue: vec![print_of(var("g")), print_of(var("t"))],
        max_len: if thorough { 4 } else { 3 },
        wrap: None,
    }
}

/// recursion family: a value held across the recursive call at every expression position
pub fn recursion_programs(out: &mut Vec<(String, Program)>) {
    let h = || mul(var("n"), int(10));
    let r = || callv("rec", vec![n1(var("n"))]);
    let sum2 = top_fn("sum2", vec![("a", Some(Ty::Int)), ("b", Some(Ty::Int))], RetAnn::Ty(Ty::Int), vec![Stmt::Expr(add(var("a"), var("b")))]);
    let apply = top_fn("apply", vec![("f", Some(Ty::Fn(vec![Ty::Int], Box::new(Ty::Int)))), ("x", Some(Ty::Int))], RetAnn::Ty(Ty::Int), vec![Stmt::Expr(callv("f", vec![var("x")]))]);
    let ifv = |c: Expr, a: Expr, b: Expr| if_e(c, vec![Stmt::Expr(a)], Some(vec![Stmt::Expr(b)]));
    let casev = |sc: Expr, arm: Vec<Stmt>, el: Expr| Expr::Case(Box::new(sc), vec![CaseArm { variant: "A".into(), bind: Some("q".into()), body: arm }], Some(vec![Stmt::Expr(el)]));
    // (name, body statements after the base case; last is the result expression)
    let bodies: Vec<(&str, Vec<Stmt>)> = vec![
        ("held-left", vec![Stmt::Expr(add(h(), r()))]),
        ("held-right", vec![Stmt::Expr(add(r(), h()))]),
        ("held-sub", vec![Stmt::Expr(bin(BinOp::Sub, h(), r()))]),
        ("held-param", vec![Stmt::Expr(add(var("n"), r()))]),
        ("if-value-left", vec![Stmt::Expr(add(ifv(bin(BinOp::Gt, var("n"), int(1)), h(), int(7)), r()))]),
        ("if-value-right", vec![Stmt::Expr(add(r(), ifv(bin(BinOp::Gt, var("n"), int(1)), h(), int(7))))]),
        ("if-cond-calls", vec![Stmt::Expr(ifv(bin(BinOp::Ge, r(), int(0)), add(h(), r()), int(5)))]),
        ("if-branch-calls", vec![Stmt::Expr(add(h(), ifv(bin(BinOp::Gt, var("n"), int(1)), r(), int(3))))]),
        ("case-value-left", vec![Stmt::Expr(add(casev(variant_a(var("n")), vec![Stmt::Expr(mul(var("q"), int(10)))], int(7)), r()))]),
        ("case-binding-after-call", vec![Stmt::Expr(casev(variant_a(var("n")), vec![def("rr", r()), Stmt::Expr(add(mul(var("q"), int(10)), var("rr")))], int(7)))]),
        ("case-binding-in-operand", vec![Stmt::Expr(casev(variant_a(h()), vec![Stmt::Expr(add(r(), var("q")))], int(7)))]),
        ("case-scrutinee-calls", vec![Stmt::Expr(add(h(), casev(variant_a(r()), vec![Stmt::Expr(var("q"))], int(7))))]),
        ("tuple-elements", vec![def("tt", Expr::Tuple(vec![h(), r()])), Stmt::Expr(add(Expr::Index(Box::new(var("tt")), 0), Expr::Index(Box::new(var("tt")), 1)))]),
        ("tuple-index-inline", vec![Stmt::Expr(add(Expr::Index(Box::new(Expr::Tuple(vec![h(), int(1)])), 0), r()))]),
        ("list-elements", vec![print_of(Expr::List(vec![h(), r()])), Stmt::Expr(h())]),
        ("blob-fields", vec![def("bb", Expr::Blob("P".into(), vec![("x".into(), h()), ("y".into(), r())])), Stmt::Expr(add(pa("bb", "x"), pa("bb", "y")))]),
        ("blob-field-read-then-call", vec![def("bb", Expr::Blob("P".into(), vec![("x".into(), h()), ("y".into(), int(0))])), Stmt::Expr(add(pa("bb", "x"), r()))]),
        ("argument-slots", vec![Stmt::Expr(callv("sum2", vec![h(), r()]))]),
        ("argument-slots-rev", vec![Stmt::Expr(callv("sum2", vec![r(), h()]))]),
        ("and-operand", vec![Stmt::Expr(ifv(bin(BinOp::And, bin(BinOp::Gt, var("n"), int(0)), bin(BinOp::Ge, r(), int(0))), h(), int(5)))]),
        ("or-operand", vec![Stmt::Expr(ifv(bin(BinOp::Or, bin(BinOp::Lt, var("n"), int(0)), bin(BinOp::Ge, r(), int(0))), add(h(), r()), int(5)))]),
        ("and-value-held", vec![def("ok", bin(BinOp::And, bin(BinOp::Gt, var("n"), int(1)), bin(BinOp::Gt, r(), int(-1)))), def("rr", r()), Stmt::Expr(ifv(var("ok"), add(h(), var("rr")), var("rr")))]),
        ("compound-assign", vec![def("x", h()), op_assign("x", BinOp::Add, r()), Stmt::Expr(var("x"))]),
        ("field-compound-assign", vec![def("bb", Expr::Blob("P".into(), vec![("x".into(), h()), ("y".into(), int(0))])), fa("bb", "x", Some(BinOp::Add), r()), Stmt::Expr(pa("bb", "x"))]),
        ("plain-assign", vec![def("x", int(0)), assign("x", add(h(), r())), Stmt::Expr(var("x"))]),
        ("local-held", vec![def("x", h()), def("rr", r()), Stmt::Expr(add(var("x"), var("rr")))]),
        ("closure-per-activation", vec![cdef("f", lam(vec![], RetAnn::Ty(Ty::Int), vec![Stmt::Expr(h())])), def("rr", r()), Stmt::Expr(add(callv("f", vec![]), var("rr")))]),
        ("closure-mutates-own-local", vec![def("x", h()), cdef("f", lam(vec![], RetAnn::Void, vec![op_assign("x", BinOp::Add, int(1))])), def("rr", r()), Stmt::Expr(callv("f", vec![])), Stmt::Expr(add(var("x"), var("rr")))]),
        ("loop-accumulate", vec![def("i", int(0)), def("acc", int(0)), Stmt::Loop(Some(bin(BinOp::Lt, var("i"), int(2))), vec![op_assign("acc", BinOp::Add, add(r(), mul(var("i"), var("n")))), op_assign("i", BinOp::Add, int(1))]), Stmt::Expr(var("acc"))]),
        ("higher-order", vec![Stmt::Expr(add(h(), callv("apply", vec![var("rec"), n1(var("n"))])))]),
        ("global-interplay", vec![op_assign("g", BinOp::Add, var("n")), def("rr", r()), Stmt::Expr(add(add(var("g"), h()), var("rr")))]),
        ("neg-and-not", vec![Stmt::Expr(ifv(un(UnOp::Not, bin(BinOp::Lt, r(), int(0))), un(UnOp::Neg, bin(BinOp::Sub, un(UnOp::Neg, h()), r())), int(5)))]),
        ("comparison-held", vec![Stmt::Expr(ifv(bin(BinOp::Lt, h(), add(r(), int(1000))), add(h(), int(1)), int(5)))]),
        ("string-held", vec![def("st", add(s("<"), s(">"))), def("rr", r()), print_of(var("st")), Stmt::Expr(add(h(), var("rr")))]),
        ("two-calls", vec![Stmt::Expr(add(add(r(), h()), r()))]),
        ("if-value-with-ret-branch", vec![Stmt::Expr(add(if_e(bin(BinOp::Gt, var("n"), int(5)), vec![Stmt::Ret(Some(int(0)))], Some(vec![Stmt::Expr(h())])), r()))]),
        ("if-value-with-ret-branch-right", vec![Stmt::Expr(add(r(), if_e(bin(BinOp::Gt, var("n"), int(5)), vec![Stmt::Ret(Some(int(0)))], Some(vec![Stmt::Expr(h())]))))]),
        ("if-value-with-unreachable-branch", vec![Stmt::Expr(add(if_e(bin(BinOp::Gt, var("n"), int(5)), vec![Stmt::Unreachable(0)], Some(vec![Stmt::Expr(h())])), r()))]),
        ("if-value-ret-in-else", vec![Stmt::Expr(add(if_e(bin(BinOp::Le, var("n"), int(5)), vec![Stmt::Expr(h())], Some(vec![Stmt::Ret(Some(int(0)))])), r()))]),
        ("case-value-with-ret-arm", vec![Stmt::Expr(add(Expr::Case(Box::new(variant_a(var("n"))), vec![CaseArm { variant: "A".into(), bind: Some("q".into()), body: vec![Stmt::Expr(mul(var("q"), int(10)))] }], Some(vec![Stmt::Ret(Some(int(0)))])), r()))]),
        ("case-value-ret-in-arm", vec![Stmt::Expr(add(Expr::Case(Box::new(Expr::Variant("E".into(), "B".into(), None)), vec![CaseArm { variant: "A".into(), bind: Some("q".into()), body: vec![Stmt::Ret(Some(var("q")))] }], Some(vec![Stmt::Expr(h())])), r()))]),
        ("nested-if-values", vec![Stmt::Expr(add(ifv(bin(BinOp::Gt, var("n"), int(1)), ifv(bin(BinOp::Gt, var("n"), int(2)), h(), int(5)), int(7)), r()))]),
        ("if-value-in-argument", vec![Stmt::Expr(callv("sum2", vec![ifv(bin(BinOp::Gt, var("n"), int(1)), h(), int(7)), r()]))]),
        ("elif-value", vec![Stmt::Expr(add(Expr::If(vec![(bin(BinOp::Gt, var("n"), int(2)), vec![Stmt::Expr(h())]), (bin(BinOp::Gt, var("n"), int(1)), vec![Stmt::Expr(int(6))])], Some(vec![Stmt::Expr(int(7))])), r()))]),
        ("loop-local-held", vec![def("i", int(0)), def("acc", int(0)), Stmt::Loop(Some(bin(BinOp::Lt, var("i"), int(2))), vec![def("hh", add(h(), var("i"))), op_assign("acc", BinOp::Add, add(var("hh"), r())), op_assign("i", BinOp::Add, int(1))]), Stmt::Expr(var("acc"))]),
        ("variable-read-then-mutating-call", vec![def("x", h()), cdef("bumpx", lam(vec![], RetAnn::Ty(Ty::Int), vec![op_assign("x", BinOp::Add, int(1)), Stmt::Expr(r())])), Stmt::Expr(add(var("x"), callv("bumpx", vec![])))]),
        ("callee-variable-reassigned-by-its-argument", vec![
            def("fv", lam(vec![("q", Some(Ty::Int))], RetAnn::Ty(Ty::Int), vec![Stmt::Expr(mul(var("q"), int(10)))])),
            cdef("swap", lam(vec![], RetAnn::Ty(Ty::Int), vec![assign("fv", lam(vec![("q", Some(Ty::Int))], RetAnn::Ty(Ty::Int), vec![Stmt::Expr(mul(var("q"), int(1000)))])), Stmt::Expr(r())])),
            def("first", callv("fv", vec![callv("swap", vec![])])),
            Stmt::Expr(add(var("first"), callv("fv", vec![int(1)]))),
        ]),
        ("callee-variable-reassigned-by-second-argument", vec![
            def("fv", lam(vec![("p", Some(Ty::Int)), ("q", Some(Ty::Int))], RetAnn::Ty(Ty::Int), vec![Stmt::Expr(add(var("p"), mul(var("q"), int(10))))])),
            cdef("swap", lam(vec![], RetAnn::Ty(Ty::Int), vec![assign("fv", lam(vec![("p", Some(Ty::Int)), ("q", Some(Ty::Int))], RetAnn::Ty(Ty::Int), vec![Stmt::Expr(add(var("p"), mul(var("q"), int(1000))))])), Stmt::Expr(r())])),
            Stmt::Expr(callv("fv", vec![h(), callv("swap", vec![])])),
        ]),
        ("callee-global-reassigned-by-its-argument", vec![
            cdef("swap", lam(vec![], RetAnn::Ty(Ty::Int), vec![assign("gfn", lam(vec![("q", Some(Ty::Int))], RetAnn::Ty(Ty::Int), vec![Stmt::Expr(add(var("q"), int(7)))])), Stmt::Expr(r())])),
            def("first", callv("gfn", vec![callv("swap", vec![])])),
            assign("gfn", lam(vec![("q", Some(Ty::Int))], RetAnn::Ty(Ty::Int), vec![Stmt::Expr(mul(var("q"), int(3)))])),
            Stmt::Expr(var("first")),
        ]),
        ("early-ret-in-loop", vec![def("i", int(0)), Stmt::Loop(None, vec![op_assign("i", BinOp::Add, int(1)), if_s(bin(BinOp::Gt, var("i"), int(1)), vec![Stmt::Ret(Some(add(h(), r())))])]), Stmt::Expr(int(0))]),
    ];
    for (name, body) in bodies {
        for depth in [1i64, 2, 3] {
            for trace in [false, true] {
                let mut b = vec![if_s(bin(BinOp::Le, var("n"), int(0)), vec![Stmt::Ret(Some(int(0)))])];
                if trace {
                    b.push(print_of(var("n")));
                }
                b.extend(body.iter().cloned());
                let tops = vec![
                    ext_print(),
                    blob_p(),
                    enum_e(),
                    Top::Def { name: "g".into(), mutable: true, ty: None, value: int(0) },
                    Top::Def { name: "gfn".into(), mutable: true, ty: None, value: lam(vec![("q", Some(Ty::Int))], RetAnn::Ty(Ty::Int), vec![Stmt::Expr(mul(var("q"), int(2)))]) },
                    sum2.clone(),
                    apply.clone(),
                    top_fn("rec", vec![("n", Some(Ty::Int))], RetAnn::Ty(Ty::Int), b),
                    start_fn(vec![print_of(callv("rec", vec![int(depth)])), print_of(var("g"))]),
                ];
                out.push((format!("recursion:{}", name), Program { tops }));
            }
        }
    }
    // mutual recursion through a mutable global function variable and a method re-entering through self
    let tops = vec![
        ext_print(),
        Top::Blob { name: "R".into(), fields: vec![("go".into(), Ty::Fn(vec![Ty::Int], Box::new(Ty::Int)))] },
        Top::Def { name: "hook".into(), mutable: true, ty: Some(Ty::Fn(vec![Ty::Int], Box::new(Ty::Int))), value: lam(vec![("q", Some(Ty::Int))], RetAnn::Ty(Ty::Int), vec![Stmt::Expr(var("q"))]) },
        top_fn("even", vec![("n", Some(Ty::Int))], RetAnn::Ty(Ty::Int), vec![if_s(bin(BinOp::Le, var("n"), int(0)), vec![Stmt::Ret(Some(int(1)))]), Stmt::Expr(add(mul(var("n"), int(10)), callv("hook", vec![n1(var("n"))])))]),
        top_fn("odd", vec![("n", Some(Ty::Int))], RetAnn::Ty(Ty::Int), vec![if_s(bin(BinOp::Le, var("n"), int(0)), vec![Stmt::Ret(Some(int(0)))]), Stmt::Expr(add(callv("even", vec![n1(var("n"))]), mul(var("n"), int(100))))]),
        start_fn(vec![
            assign("hook", var("odd")),
            print_of(callv("even", vec![int(4)])),
        ]),
    ];
    out.push(("recursion:mutual-and-method".to_string(), Program { tops }));
    let _ = raw;
    let _: Option<Arc<FnLit>> = None;
}

/// late globals: a global function mentions another global only inside one syntactic construct (loop body, loop
/// condition, branch, case arm / else, nested block, closure, argument, dead code ...); the global is a constant, a
/// mutable variable or a function; every order of the three top-level definitions. The emitted program must
/// initialise the global before the function body runs, whatever the construct and the order.
pub fn late_globals_programs(out: &mut Vec<(String, Program)>) {
    type Build = fn(Expr) -> Vec<Stmt>;
    let ifv = |c: Expr, a: Expr, b: Expr| if_e(c, vec![Stmt::Expr(a)], Some(vec![Stmt::Expr(b)]));
    let _ = &ifv;
    let constructs: Vec<(&str, Build)> = vec![
        ("plain", |u| vec![Stmt::Expr(u)]),
        ("loop-body", |u| vec![def("acc", int(0)), Stmt::Loop(Some(bin(BinOp::Lt, var("acc"), int(1))), vec![op_assign("acc", BinOp::Add, add(u, int(1000)))]), Stmt::Expr(var("acc"))]),
        ("loop-condition", |u| vec![def("acc", int(0)), Stmt::Loop(Some(bin(BinOp::Lt, var("acc"), u)), vec![op_assign("acc", BinOp::Add, int(1000))]), Stmt::Expr(var("acc"))]),
        ("then", |u| vec![Stmt::Expr(if_e(Expr::Bool(true), vec![Stmt::Expr(u)], Some(vec![Stmt::Expr(int(0))])))]),
        ("else", |u| vec![Stmt::Expr(if_e(Expr::Bool(false), vec![Stmt::Expr(int(0))], Some(vec![Stmt::Expr(u)])))]),
        ("elif-condition", |u| vec![Stmt::Expr(Expr::If(vec![(Expr::Bool(false), vec![Stmt::Expr(int(0))]), (bin(BinOp::Gt, u, int(-5)), vec![Stmt::Expr(int(20))])], Some(vec![Stmt::Expr(int(30))])))]),
        ("elif-body", |u| vec![Stmt::Expr(Expr::If(vec![(Expr::Bool(false), vec![Stmt::Expr(int(0))]), (Expr::Bool(true), vec![Stmt::Expr(u)])], Some(vec![Stmt::Expr(int(30))])))]),
        ("if-statement-without-else", |u| vec![def("acc", int(0)), if_s(Expr::Bool(true), vec![assign("acc", u)]), Stmt::Expr(var("acc"))]),
        ("case-arm", |u| vec![Stmt::Expr(Expr::Case(Box::new(variant_a(int(1))), vec![CaseArm { variant: "A".into(), bind: Some("q".into()), body: vec![Stmt::Expr(add(var("q"), u))] }], Some(vec![Stmt::Expr(int(0))])))]),
        ("case-else", |u| vec![Stmt::Expr(Expr::Case(Box::new(Expr::Variant("E".into(), "B".into(), None)), vec![CaseArm { variant: "A".into(), bind: Some("q".into()), body: vec![Stmt::Expr(var("q"))] }], Some(vec![Stmt::Expr(u)])))]),
        ("case-scrutinee", |u| vec![Stmt::Expr(Expr::Case(Box::new(variant_a(u)), vec![CaseArm { variant: "A".into(), bind: Some("q".into()), body: vec![Stmt::Expr(var("q"))] }], Some(vec![Stmt::Expr(int(0))])))]),
        ("nested-block", |u| vec![def("acc", int(0)), Stmt::Block(vec![Stmt::Block(vec![assign("acc", u)])]), Stmt::Expr(var("acc"))]),
        ("closure", |u| vec![cdef("inner", lam(vec![], RetAnn::Ty(Ty::Int), vec![Stmt::Expr(u)])), Stmt::Expr(callv("inner", vec![]))]),
        ("lambda-called-at-once", |u| vec![Stmt::Expr(call(Expr::Paren(Box::new(lam(vec![], RetAnn::Ty(Ty::Int), vec![Stmt::Expr(u)]))), vec![]))]),
        ("call-argument", |u| vec![Stmt::Expr(callv("idf", vec![u]))]),
        ("if-value-as-call-argument", |u| vec![Stmt::Expr(add(callv("idf", vec![if_e(Expr::Bool(true), vec![Stmt::Expr(u)], Some(vec![Stmt::Expr(int(0))]))]), int(1)))]),
        ("case-value-as-call-argument", |u| vec![Stmt::Expr(add(callv("idf", vec![Expr::Case(Box::new(Expr::Variant("E".into(), "B".into(), None)), vec![CaseArm { variant: "A".into(), bind: Some("q".into()), body: vec![Stmt::Expr(var("q"))] }], Some(vec![Stmt::Expr(u)]))]), int(1)))]),
        ("tuple-element", |u| vec![Stmt::Expr(Expr::Index(Box::new(Expr::Tuple(vec![int(0), u])), 1))]),
        ("list-element", |u| vec![print_of(Expr::List(vec![u])), Stmt::Expr(int(4))]),
        ("blob-field", |u| vec![Stmt::Expr(field(Expr::Blob("P".into(), vec![("x".into(), u), ("y".into(), int(0))]), "x"))]),
        ("variant-payload", |u| vec![print_of(variant_a(u)), Stmt::Expr(int(4))]),
        ("unary", |u| vec![Stmt::Expr(un(UnOp::Neg, u))]),
        ("and-operand", |u| vec![Stmt::Expr(if_e(bin(BinOp::And, Expr::Bool(true), bin(BinOp::Gt, u, int(-5))), vec![Stmt::Expr(int(50))], Some(vec![Stmt::Expr(int(60))])))]),
        ("early-ret", |u| vec![if_s(Expr::Bool(true), vec![Stmt::Ret(Some(u))]), Stmt::Expr(int(0))]),
        ("dead-code-after-ret", |u| vec![Stmt::Ret(Some(int(3))), print_of(u), Stmt::Expr(int(0))]),
        ("unused-expression-statement", |u| vec![Stmt::Expr(add(u, int(1))), Stmt::Expr(int(5))]),
        ("assignment-rhs", |u| vec![def("acc", int(0)), assign("acc", u), Stmt::Expr(var("acc"))]),
        ("compound-assignment-rhs", |u| vec![def("acc", int(1)), op_assign("acc", BinOp::Add, u), Stmt::Expr(var("acc"))]),
        ("typed-definition", |u| vec![Stmt::Def { name: "acc".into(), mutable: false, ty: Some(Ty::Int), value: u }, Stmt::Expr(var("acc"))]),
    ];
    for (cname, build) in &constructs {
        for gkind in 0..4 {
            // 0 constant, 1 mutable, 2 function, 3 mutable assigned (not read) inside the construct
            let (gtop, usee): (Top, Expr) = match gkind {
                0 => (Top::Def { name: "late".into(), mutable: false, ty: None, value: int(60) }, var("late")),
                1 | 3 => (Top::Def { name: "late".into(), mutable: true, ty: None, value: int(60) }, var("late")),
                _ => (top_fn("late", vec![], RetAnn::Ty(Ty::Int), vec![Stmt::Expr(int(60))]), callv("late", vec![])),
            };
            let mut body = build(usee);
            if gkind == 3 {
                // write before the construct reads: the function assigns the late global first
                body.insert(0, assign("late", int(61)));
            }
            let user = top_fn("user", vec![], RetAnn::Ty(Ty::Int), body);
            let startf = start_fn(vec![print_of(callv("user", vec![])), print_of(add(callv("user", vec![]), int(1)))]);
            let items = [user, gtop, startf];
            for (pi, perm) in [[0usize, 1, 2], [0, 2, 1], [1, 0, 2], [1, 2, 0], [2, 0, 1], [2, 1, 0]].into_iter().enumerate() {
                let mut tops = vec![ext_print(), blob_p(), enum_e(), top_fn("idf", vec![("q", Some(Ty::Int))], RetAnn::Ty(Ty::Int), vec![Stmt::Expr(var("q"))])];
                for k in perm {
                    tops.push(items[k].clone());
                }
                out.push((format!("late-globals:{}:g{}:o{}", cname, gkind, pi), Program { tops }));
            }
        }
    }
}

/// assignment targets that are chains of fields, held across a call made by the right-hand side that re-points
/// links of that chain: `root.q.x = swap()` where swap() assigns a new blob to `root.q`, to `root`, to both, ...
/// Every subset of the links (and of rebinding the root variable) x chain depth 1-3 x plain / compound assignment
/// x root a global or a captured local x the call bare or inside an arithmetic expression. Aliases taken before the
/// assignment show afterwards which object was written. The language does not fix whether the target is read before
/// or after the right-hand side, but it is read wholly before or wholly after it (see RefSylt's order masks).
pub fn target_chain_programs(out: &mut Vec<(String, Program)>) {
    let lname = |l: usize| format!("L{}", l);
    fn make(level: usize, seed: i64) -> Expr {
        if level == 0 {
            Expr::Blob("L0".into(), vec![("x".into(), int(seed))])
        } else {
            Expr::Blob(format!("L{}", level), vec![("q".into(), make(level - 1, seed))])
        }
    }
    let hops = |root: &str, n: usize| -> Expr {
        let mut e = var(root);
        for _ in 0..n {
            e = field(e, "q");
        }
        e
    };
    for depth in 1..=3usize {
        let top_level = depth - 1;
        for mask in 0..(1u32 << depth) {
            for compound in [false, true] {
                for global_root in [false, true] {
                    for arith in [false, true] {
                        let mut tops = vec![ext_print()];
                        for l in 0..=top_level {
                            let fields = if l == 0 { vec![("x".to_string(), Ty::Int)] } else { vec![("q".to_string(), Ty::User(lname(l - 1)))] };
                            tops.push(Top::Blob { name: lname(l), fields });
                        }
                        // swap: deepest link first, the root variable last
                        let mut swap_body = Vec::new();
                        for i in (0..top_level).rev() {
                            if mask & (1 << i) != 0 {
                                swap_body.push(Stmt::Assign { target: field(hops("root", i), "q"), op: None, value: make(top_level - 1 - i, 100 * (i as i64 + 1)) });
                            }
                        }
                        if mask & (1 << top_level) != 0 {
                            swap_body.push(assign("root", make(top_level, 900)));
                        }
                        swap_body.push(Stmt::Ret(Some(int(7))));
                        let swap = lam(vec![], RetAnn::Ty(Ty::Int), swap_body);
                        let mut body = Vec::new();
                        if global_root {
                            tops.push(Top::Def { name: "root".into(), mutable: true, ty: None, value: make(top_level, 1) });
                            tops.push(Top::Def { name: "swap".into(), mutable: false, ty: None, value: swap });
                        } else {
                            body.push(def("root", make(top_level, 1)));
                            body.push(cdef("swap", swap));
                        }
                        for l in 0..=top_level {
                            body.push(cdef(&format!("a{}", l), hops("root", l)));
                        }
                        let rhs = if arith { add(int(10), callv("swap", vec![])) } else { callv("swap", vec![]) };
                        body.push(Stmt::Assign { target: field(hops("root", top_level), "x"), op: if compound { Some(BinOp::Add) } else { None }, value: rhs });
                        // what every alias reaches now, and what the root reaches now
                        for l in 0..=top_level {
                            body.push(print_of(field(hops(&format!("a{}", l), top_level - l), "x")));
                        }
                        body.push(print_of(field(hops("root", top_level), "x")));
                        tops.push(start_fn(body));
                        out.push((format!("blobs-target-chain:depth{}:links{:b}:{}:{}:{}", depth, mask, if compound { "compound" } else { "plain" }, if global_root { "global" } else { "captured-local" }, if arith { "in-arithmetic" } else { "bare-call" }), Program { tops }));
                    }
                }
            }
        }
    }
}

/// counts, magnitudes and lengths beyond what the other families reach: one shape per program, parametrised by N
/// over a ladder that brackets the usual thresholds (8/9, 16/17, 32/33, 64/65, 128/129, 256/257). Every item carries
/// a different value and enters a position-weighted sum, so an item that is dropped, repeated or swapped changes
/// what is printed.
const CALL_HEAVY_MAX: usize = 90;

/// the N of a scale-family name (`scale:<shape>:n<N>`)
pub fn scale_n(fam: &str) -> usize {
    fam.rsplit(":n").next().and_then(|x| x.parse().ok()).unwrap_or(0)
}

pub fn scale_programs(thorough: bool, out: &mut Vec<(String, Program)>) {
    let ladder: Vec<usize> = if thorough {
        vec![1, 2, 3, 4, 5, 6, 7, 8, 9, 10, 11, 12, 13, 15, 16, 17, 18, 20, 24, 31, 32, 33, 40, 50, 63, 64, 65, 66, 80, 90, 100, 127, 128, 129, 130, 150, 199, 200, 201, 255, 256, 257, 300]
    } else {
        vec![1, 2, 5, 8, 9, 16, 17, 32, 33, 64, 65, 80, 100, 128, 129, 256, 257]
    };
    let val = |i: usize| -> i64 { (i * i + 3 * i + 1) as i64 };
    let w = |i: usize| -> Expr { int(i as i64 + 1) };
    // `acc += (i + 1) * e_i` for every i
    let weighted = |items: Vec<Expr>| -> Vec<Stmt> {
        let mut b = vec![def("acc", int(0))];
        for (i, e) in items.into_iter().enumerate() {
            b.push(op_assign("acc", BinOp::Add, mul(w(i), e)));
        }
        b
    };
    let mut push = |out: &mut Vec<(String, Program)>, shape: &str, n: usize, mut tops: Vec<Top>, body: Vec<Stmt>| {
        let mut all = vec![ext_print()];
        all.append(&mut tops);
        all.push(start_fn(body));
        out.push((format!("scale:{}:n{}", shape, n), Program { tops: all }));
    };
    for &n in &ladder {
        // ---- parameters. Shapes that spend Lua locals stop at 65 items, wide literals at 150: beyond that the emitted
        // function exceeds Lua's 200 locals (known finding F-06d) and a long elif / case chain its 200 nesting levels
        if n <= 65 {
            let names: Vec<String> = (0..n).map(|i| format!("p{}", i)).collect();
            let params: Vec<(&str, Option<Ty>)> = names.iter().map(|x| (x.as_str(), Some(Ty::Int))).collect();
            let mut fb = weighted(names.iter().map(|x| var(x)).collect());
            fb.push(Stmt::Expr(var("acc")));
            let f = top_fn("f", params, RetAnn::Ty(Ty::Int), fb);
            push(out, "parameters", n, vec![f], vec![print_of(callv("f", (0..n).map(|i| int(val(i))).collect())), print_of(callv("f", (0..n).map(|i| int(val(n - 1 - i))).collect()))]);
        }
        // ---- blob fields: literal, reads, assignments to the first / last / middle field
        if n <= 150 {
            let fields: Vec<(String, Ty)> = (0..n).map(|i| (format!("f{}", i), Ty::Int)).collect();
            let lit = Expr::Blob("Big".into(), (0..n).map(|i| (format!("f{}", i), int(val(i)))).collect());
            let mut body = vec![def("b", lit)];
            body.extend(weighted((0..n).map(|i| pa("b", &format!("f{}", i))).collect()));
            body.push(print_of(var("acc")));
            for k in [0, n / 2, n - 1] {
                body.push(fa("b", &format!("f{}", k), None, int(7 + k as i64)));
            }
            body.push(print_of(add(add(pa("b", "f0"), pa("b", &format!("f{}", n / 2))), pa("b", &format!("f{}", n - 1)))));
            push(out, "blob-fields", n, vec![Top::Blob { name: "Big".into(), fields }], body);
        }
        // ---- tuple elements
        if n <= 150 {
            let mut body = vec![def("t", Expr::Tuple((0..n).map(|i| int(val(i))).collect()))];
            body.extend(weighted((0..n).map(|i| Expr::Index(Box::new(var("t")), i as i64)).collect()));
            body.push(print_of(var("acc")));
            body.push(print_of(bin(BinOp::Eq, var("t"), Expr::Tuple((0..n).map(|i| int(val(i))).collect()))));
            push(out, "tuple-elements", n, vec![], body);
        }
        // ---- list elements (printed, compared)
        {
            let l = |delta: i64| Expr::List((0..n).map(|i| int(val(i) + if i + 1 == n { delta } else { 0 })).collect());
            let body = vec![def("l", l(0)), print_of(var("l")), print_of(bin(BinOp::Eq, var("l"), l(0))), print_of(bin(BinOp::Eq, var("l"), l(1)))];
            push(out, "list-elements", n, vec![], body);
        }
        // ---- locals of one function, the first and the last captured by a closure
        if n <= 80 {
            let mut body: Vec<Stmt> = (0..n).map(|i| def(&format!("x{}", i), int(val(i)))).collect();
            body.push(cdef("peek", lam(vec![], RetAnn::Ty(Ty::Int), vec![Stmt::Expr(add(var("x0"), var(&format!("x{}", n - 1))))])));
            // a value held across a call that changes the variable it was read from, with all those locals alive
            body.push(cdef("bump", lam(vec![], RetAnn::Ty(Ty::Int), vec![assign("x0", int(1000)), Stmt::Expr(int(1))])));
            body.push(print_of(add(var("x0"), callv("bump", vec![]))));
            body.push(print_of(Expr::Tuple(vec![var("x0"), callv("bump", vec![]), var("x0")])));
            body.push(assign("x0", int(val(0))));
            body.extend(weighted((0..n).map(|i| var(&format!("x{}", i))).collect()));
            body.push(print_of(var("acc")));
            body.push(assign(&format!("x{}", n - 1), int(5)));
            body.push(print_of(callv("peek", vec![])));
            push(out, "locals", n, vec![], body);
        }
        // ---- enum variants, a case that lists all of them
        if n <= 150 {
            let variants: Vec<(String, Option<Ty>)> = (0..n).map(|i| (format!("V{}", i), if i % 2 == 0 { Some(Ty::Int) } else { None })).collect();
            let arms: Vec<CaseArm> = (0..n)
                .map(|i| CaseArm { variant: format!("V{}", i), bind: if i % 2 == 0 { Some("q".into()) } else { None }, body: vec![Stmt::Expr(if i % 2 == 0 { add(var("q"), int(1000 * i as i64)) } else { int(1000 * i as i64 + 1) })] })
                .collect();
            let which = top_fn("which", vec![("e", Some(Ty::User("Wide".into())))], RetAnn::Ty(Ty::Int), vec![Stmt::Expr(Expr::Case(Box::new(var("e")), arms, None))]);
            let mk = |i: usize| Expr::Variant("Wide".into(), format!("V{}", i), if i % 2 == 0 { Some(Box::new(int(val(i)))) } else { None });
            let mut picks = vec![0, n / 2, n.saturating_sub(2), n - 1];
            picks.dedup();
            let mut body: Vec<Stmt> = picks.iter().map(|i| print_of(callv("which", vec![mk(*i)]))).collect();
            body.push(print_of(bin(BinOp::Eq, mk(n - 1), mk(n - 1))));
            body.push(print_of(bin(BinOp::Eq, mk(0), mk(n - 1))));
            push(out, "enum-variants", n, vec![Top::Enum { name: "Wide".into(), variants }, which], body);
        }
        // ---- an elif chain
        if n <= 150 {
            let branches: Vec<(Expr, Vec<Stmt>)> = (0..n).map(|i| (bin(BinOp::Eq, var("k"), int(i as i64)), vec![Stmt::Expr(int(val(i)))])).collect();
            let sel = top_fn("sel", vec![("k", Some(Ty::Int))], RetAnn::Ty(Ty::Int), vec![Stmt::Expr(Expr::If(branches, Some(vec![Stmt::Expr(int(-1))])))]);
            let body = [0usize, n / 2, n - 1, n].iter().map(|k| print_of(callv("sel", vec![int(*k as i64)]))).collect();
            push(out, "elif-chain", n, vec![sel], body);
        }
        // ---- the same closure called N times, two instances
        if n <= 65 {
            let mkc = top_fn(
                "counter",
                vec![("step", Some(Ty::Int))],
                RetAnn::Ty(Ty::Fn(vec![], Box::new(Ty::Int))),
                vec![def("c", int(0)), Stmt::Expr(lam(vec![], RetAnn::Ty(Ty::Int), vec![op_assign("c", BinOp::Add, var("step")), Stmt::Expr(var("c"))]))],
            );
            let mut body = vec![cdef("a", callv("counter", vec![int(1)])), cdef("b", callv("counter", vec![int(100)])), def("acc", int(0))];
            for i in 0..n {
                body.push(op_assign("acc", BinOp::Add, mul(w(i), callv(if i % 3 == 2 { "b" } else { "a" }, vec![]))));
            }
            body.push(print_of(var("acc")));
            body.push(print_of(callv("a", vec![])));
            body.push(print_of(callv("b", vec![])));
            push(out, "repeated-calls-of-one-closure", n, vec![mkc], body);
        }
        // ---- nesting: blocks, ifs, closures, parentheses
        if n <= 100 {
            let mut inner = vec![print_of(add(var("x"), int(n as i64)))];
            for i in (0..n).rev() {
                inner = match i % 3 {
                    0 => vec![Stmt::Block(inner)],
                    1 => vec![if_s(bin(BinOp::Gt, var("x"), int(-1)), inner)],
                    _ => vec![Stmt::Loop(Some(bin(BinOp::Lt, var(&format!("i{}", i)), int(1))), { let mut b = vec![op_assign(&format!("i{}", i), BinOp::Add, int(1))]; b.extend(inner); b })],
                };
                if i % 3 == 2 {
                    inner.insert(0, def(&format!("i{}", i), int(0)));
                }
            }
            let mut body = vec![def("x", int(3))];
            body.extend(inner);
            push(out, "nested-statements", n, vec![], body);
            let mut e = add(var("x"), int(1));
            for i in 0..n {
                e = if i % 2 == 0 { Expr::Paren(Box::new(mul(e, int(1)))) } else { Expr::Paren(Box::new(add(int(i as i64 % 5), e))) };
            }
            push(out, "nested-parentheses", n, vec![], vec![def("x", int(3)), print_of(e)]);
            let mut f = lam(vec![], RetAnn::Ty(Ty::Int), vec![Stmt::Expr(add(var("x"), int(n as i64)))]);
            for i in 0..n.min(40) {
                f = lam(vec![], RetAnn::Ty(Ty::Int), vec![cdef(&format!("g{}", i), f), Stmt::Expr(add(callv(&format!("g{}", i), vec![]), int(1)))]);
            }
            push(out, "nested-closures", n.min(40), vec![], vec![def("x", int(3)), cdef("outer", f), print_of(callv("outer", vec![]))]);
        }
        // ---- one expression with N operands: sums, products of small factors, and / or chains, string concatenation
        if n <= 65 {
            let mut e = int(val(0));
            let mut conj = bin(BinOp::Lt, var("x"), int(1000));
            let mut disj = bin(BinOp::Eq, var("x"), int(-1));
            let mut cat = s("s0");
            for i in 1..n {
                e = if i % 4 == 3 { bin(BinOp::Sub, e, mul(var("x"), int(i as i64))) } else { add(e, int(val(i))) };
                conj = bin(BinOp::And, conj, bin(BinOp::Lt, var("x"), int(1000 + i as i64)));
                disj = bin(BinOp::Or, disj, bin(BinOp::Eq, var("x"), int(if i + 1 == n { 3 } else { -1 - i as i64 })));
                cat = add(cat, s(&format!("s{}", i)));
            }
            push(out, "operands-of-one-expression", n, vec![], vec![def("x", int(3)), print_of(e), print_of(conj), print_of(disj), print_of(cat)]);
        }
        // ---- global functions and global constants that build on each other (two chunk-level locals each at most)
        if n <= 80 {
            let mut tops: Vec<Top> = Vec::new();
            for i in 0..n {
                tops.push(Top::Def { name: format!("k{}", i), mutable: false, ty: None, value: if i == 0 { int(1) } else { add(var(&format!("k{}", i - 1)), int(i as i64)) } });
            }
            push(out, "chained-global-constants", n, tops, vec![print_of(var(&format!("k{}", n - 1))), print_of(var("k0"))]);
        }
        // ---- closures over one variable
        if n <= 65 {
            let mut body = vec![def("v", int(0))];
            for i in 0..n {
                body.push(cdef(&format!("c{}", i), lam(vec![], RetAnn::Void, vec![op_assign("v", BinOp::Add, int(val(i)))])));
            }
            for i in 0..n {
                body.push(Stmt::Expr(callv(&format!("c{}", i), vec![])));
            }
            body.push(print_of(var("v")));
            push(out, "closures-over-one-variable", n, vec![], body);
        }
        // ---- a chain of N index / field accesses on a parameter without annotation (deferred constraints)
        if n <= 65 {
            let mut acc_e = var("a");
            let mut nested = int(5);
            for _ in 0..n {
                acc_e = Expr::Index(Box::new(acc_e), 0);
                nested = Expr::Tuple(vec![nested, int(2)]);
            }
            let deep = top_fn("deep", vec![("a", None)], RetAnn::Implied, vec![Stmt::Expr(add(acc_e, int(1)))]);
            push(out, "index-chain-on-untyped-parameter", n, vec![deep], vec![print_of(callv("deep", vec![nested]))]);
            let mut tops: Vec<Top> = Vec::new();
            for i in 0..n {
                tops.push(Top::Blob { name: format!("B{}", i), fields: vec![("inner".to_string(), if i + 1 == n { Ty::Int } else { Ty::User(format!("B{}", i + 1)) })] });
            }
            let mut acc_f = var("b");
            let mut lit = int(5);
            for i in (0..n).rev() {
                lit = Expr::Blob(format!("B{}", i), vec![("inner".into(), lit)]);
            }
            for _ in 0..n {
                acc_f = field(acc_f, "inner");
            }
            tops.push(top_fn("deepf", vec![("b", None)], RetAnn::Implied, vec![Stmt::Expr(add(acc_f, int(1)))]));
            push(out, "field-chain-on-untyped-parameter", n, tops, vec![print_of(callv("deepf", vec![lit]))]);
        }
        // ---- two variables of different types, each used in N operators, then used once more
        if n <= 40 {
            let mut body = vec![def("x", int(3)), def("sv", s("s")), def("acc", int(0)), def("cat", s(""))];
            for i in 0..n {
                body.push(op_assign("acc", BinOp::Add, mul(var("x"), int(i as i64 + 1))));
                body.push(assign("cat", add(var("cat"), add(var("sv"), s(&format!("{}", i))))));
            }
            body.push(print_of(var("acc")));
            body.push(print_of(var("cat")));
            body.push(print_of(add(var("sv"), s("!"))));
            body.push(print_of(mul(var("x"), int(2))));
            push(out, "operator-uses-of-two-variables", n, vec![], body);
        }
        // ---- statements: a long straight-line body with a value live from the first statement to the last
        {
            let mut body = vec![def("first", int(41)), def("acc", int(0))];
            for i in 0..n {
                body.push(op_assign("acc", BinOp::Add, mul(w(i), int(val(i)))));
            }
            body.push(print_of(add(var("acc"), var("first"))));
            push(out, "statements", n, vec![], body);
        }
    }
    // ---- functions whose number of live Lua locals approaches Lua's limit of 200 (every call result is one): a value
    // held across a call that changes the variable it was read from, after N call statements. Dense in N because the
    // interesting region (an emitter running short of locals) is narrow; the cap is where the unchanged emitter
    // stops producing loadable code (known finding F-06d)
    for n in (if thorough { (30..=CALL_HEAVY_MAX).collect::<Vec<usize>>() } else { (30..=CALL_HEAVY_MAX).step_by(4).collect() }) {
        let idf = top_fn("idf", vec![("q", Some(Ty::Int))], RetAnn::Ty(Ty::Int), vec![Stmt::Expr(var("q"))]);
        let mut body = vec![def("seen", int(5)), cdef("note", lam(vec![], RetAnn::Ty(Ty::Int), vec![op_assign("seen", BinOp::Add, int(100)), Stmt::Expr(int(1))])), def("acc", int(0))];
        for i in 0..n {
            body.push(op_assign("acc", BinOp::Add, callv("idf", vec![int(val(i))])));
        }
        body.push(print_of(var("acc")));
        body.push(print_of(add(var("seen"), callv("note", vec![]))));
        body.push(print_of(Expr::Tuple(vec![var("seen"), callv("note", vec![]), var("seen")])));
        body.push(print_of(var("seen")));
        push(out, "call-heavy-function", n, vec![idf], body);
    }
    // ---- magnitudes: integer and float literals, printed, doubled, halved, compared with their neighbours
    let ints: Vec<i64> = vec![
        255, 256, 65535, 65536, 2147483647, 2147483648, 2147483649, 4294967295, 4294967296, 4294967297, 9007199254740991, 9007199254740992, 9007199254740993, 4611686018427387904, 9223372036854775806, 9223372036854775807, 1000000000000000000, 999999999999999,
        1000000000000000, 99999999999999, 94906265, 94906266, 94906267, 3037000499, 3037000500, 2097151, 2097152, 2097153, 46340, 46341, 65537,
    ];
    for (k, v) in ints.iter().enumerate() {
        let mut body = vec![def("x", int(*v)), print_of(var("x")), print_of(add(var("x"), int(1))), print_of(bin(BinOp::Sub, var("x"), int(1))), print_of(mul(var("x"), int(2))), print_of(bin(BinOp::Div, var("x"), int(2)))];
        body.push(print_of(bin(BinOp::Lt, var("x"), add(var("x"), int(1)))));
        body.push(print_of(bin(BinOp::Eq, var("x"), int(*v))));
        body.push(print_of(bin(BinOp::Eq, bin(BinOp::Sub, var("x"), int(1)), int(*v))));
        body.push(print_of(un(UnOp::Neg, var("x"))));
        body.push(print_of(Expr::Tuple(vec![var("x"), un(UnOp::Neg, int(*v))])));
        body.push(print_of(bin(BinOp::Lt, var("x"), Expr::Float(*v as f64 * 1.5))));
        // between literals (what a constant folder would see)
        body.push(print_of(add(int(*v), int(1))));
        body.push(print_of(bin(BinOp::Sub, int(*v), int(1))));
        body.push(print_of(mul(int(*v), int(3))));
        body.push(print_of(mul(int(*v), int(*v))));
        body.push(print_of(add(int(*v), int(*v))));
        body.push(print_of(bin(BinOp::Sub, un(UnOp::Neg, int(*v)), int(2))));
        push(out, "integer-magnitude", k, vec![], body);
    }
    let floats: Vec<f64> = vec![
        0.1, 0.2, 0.3, 1.5e15, 1e15, 1e16, 123456789012345.0, 1234567890123456.0, 9007199254740992.0, 9007199254740993.0, 1e-5, 1.5e-7, 1e100, 1.7976931348623157e308, 5e-324, 0.000001, 100000.0, 1e21, 1e22, 3.0, 2147483648.0, 4294967296.5, 0.30000000000000004, 1.0000000000000002,
    ];
    for (k, v) in floats.iter().enumerate() {
        let body = vec![
            def("y", Expr::Float(*v)),
            print_of(var("y")),
            print_of(add(var("y"), Expr::Float(0.5))),
            print_of(mul(var("y"), Expr::Float(2.0))),
            print_of(bin(BinOp::Div, var("y"), int(4))),
            print_of(bin(BinOp::Eq, var("y"), Expr::Float(*v))),
            print_of(bin(BinOp::Lt, var("y"), mul(Expr::Float(*v), Expr::Float(1.5)))),
            print_of(bin(BinOp::Gt, var("y"), int(2))),
            print_of(Expr::Tuple(vec![var("y"), un(UnOp::Neg, Expr::Float(*v))])),
        ];
        push(out, "float-magnitude", k, vec![], body);
    }
    // ---- long strings and long identifiers
    for &n in &[31usize, 32, 33, 63, 64, 65, 127, 128, 129, 255, 256, 257, 1000, 4095, 4096, 4097, 65535, 65536, 65537, 100000] {
        let text: String = (0..n).map(|i| (b'a' + ((i * 7 + i / 26) % 26) as u8) as char).collect();
        let mut other = text.clone();
        other.pop();
        other.push('#');
        let body = vec![def("t", s(&text)), print_of(bin(BinOp::Eq, var("t"), s(&text))), print_of(bin(BinOp::Eq, var("t"), s(&other))), print_of(bin(BinOp::Lt, var("t"), s(&other))), print_of(bin(BinOp::Eq, add(var("t"), s("!")), add(s(&text), s("!")))), print_of(var("t"))];
        push(out, "string-length", n, vec![], body);
        if n <= 4097 {
            let stem: String = (0..n - 1).map(|i| (b'a' + ((i * 5) % 26) as u8) as char).collect();
            let (a, b) = (format!("{}a", stem), format!("{}b", stem));
            let getter = top_fn(&a, vec![], RetAnn::Ty(Ty::Int), vec![Stmt::Expr(int(11))]);
            let body = vec![def(&b, int(22)), print_of(add(callv(&a, vec![]), var(&b))), assign(&b, int(33)), print_of(var(&b)), print_of(callv(&a, vec![]))];
            push(out, "identifier-length", n, vec![getter], body);
        }
    }
}

pub fn all_programs(thorough: bool) -> Vec<(String, Program)> {
    let mut out = all_programs_len(if thorough { 4 } else { 3 });
    scale_programs(thorough, &mut out);
    out
}

/// string literals: every content of length <= 2 over an alphabet with escapes-to-be, control
/// characters, digits and non-ASCII; printed, compared, concatenated and stored in composites
pub fn string_programs(out: &mut Vec<(String, Program)>) {
    let alphabet = ["a", "\\", "n", "0", "7", "'", "%", " ", "\t", "\n", "\r", "\u{1b}", "\u{7f}", "é", "[", "]"];
    let mut contents: Vec<String> = vec![String::new()];
    for a in alphabet {
        contents.push(a.to_string());
        for b in alphabet {
            contents.push(format!("{}{}", a, b));
        }
    }
    for chunk in contents.chunks(6) {
        let mut body = Vec::new();
        for c in chunk {
            body.push(print_of(add(add(s("<"), s(c)), s(">"))));
            body.push(def("x", s(c)));
            body.push(print_of(bin(BinOp::Eq, var("x"), s(c))));
            body.push(print_of(Expr::Tuple(vec![var("x"), int(1)])));
        }
        out.push(("strings".to_string(), Program { tops: vec![ext_print(), start_fn(body)] }));
    }
}

pub fn all_programs_len(max_len: usize) -> Vec<(String, Program)> {
    let mut out = Vec::new();
    string_programs(&mut out);
    let mut fams = loops_family(false);
    fams.push(closures_family(false));
    fams.push(blobs_family(false));
    fams.push(enums_family(false));
    fams.push(lists_family(false));
    fams.push(globals_family(false));
    for mut f in fams {
        f.max_len = max_len;
        f.programs(&mut out);
    }
    {
        // 30 actions: sequences of at most two
        let mut f = value_blocks_family(false);
        f.max_len = max_len.min(2);
        f.programs(&mut out);
    }
    recursion_programs(&mut out);
    late_globals_programs(&mut out);
    target_chain_programs(&mut out);
    out
}
