//! Statement-level program families (loops, closures, recursion, blobs, enums, globals).

use crate::ast::*;

pub fn all_programs(_thorough: bool) -> Vec<(String, Program)> {
    Vec::new()
}
