//! Failures, per-run statistics, evidence files, known findings, verdict + replay artefacts.

use serde_json::{json, Value};
use std::collections::{BTreeMap, BTreeSet};
use std::path::PathBuf;
use std::time::Instant;

#[derive(Clone, Debug)]
pub struct Failure {
    /// oracle-side failure signature, e.g. "accepted-fault", "trace-mismatch", "load-error: ..."
    pub sig: String,
    /// structural predicates (names) that hold for the failing input; used by known-finding matchers
    pub preds: Vec<String>,
    /// human readable explanation (expected / actual)
    pub detail: String,
    /// everything needed to re-run this one case: {"engine": "...", ...}
    pub case: Value,
    /// size used to order counterexamples (smallest reported first)
    pub size: usize,
}

#[derive(Default)]
pub struct Stats {
    pub evaluations: u64,
    pub nontrivial_hashes: Vec<u64>,
    /// non-trivial cases that are pairwise distinct by construction of the enumeration
    pub nontrivial_by_construction: u64,
    pub states: u64,
    pub transitions: u64,
    pub traces_validated: u64,
    pub programs: u64,
    pub outcomes: BTreeMap<String, u64>,
    pub counters: BTreeMap<String, u64>,
    pub failures: Vec<Failure>,
    pub failure_keys: Vec<u64>,
    pub failures_dropped: u64,
    pub samples: Vec<Value>,
}

pub const MAX_FAILS_PER_CLASS: usize = 25;

impl Stats {
    pub fn new() -> Self {
        Self::default()
    }
    pub fn outcome(&mut self, k: &str) {
        *self.outcomes.entry(k.to_string()).or_insert(0) += 1;
    }
    pub fn count(&mut self, k: &str, n: u64) {
        *self.counters.entry(k.to_string()).or_insert(0) += n;
    }
    pub fn nontrivial(&mut self, h: u64) {
        self.nontrivial_hashes.push(h);
    }
    pub fn fail(&mut self, f: Failure) {
        // cap per (signature, predicates) class so that a frequent known class can never crowd
        // out a different failure
        let key = crate::harness::fnv(format!("{}|{:?}", f.sig, f.preds).as_bytes());
        let n = self.failure_keys.iter().filter(|k| **k == key).count();
        if n < MAX_FAILS_PER_CLASS {
            self.failures.push(f);
            self.failure_keys.push(key);
        } else {
            if let Some((i, _)) = self.failures.iter().enumerate().filter(|(i, _)| self.failure_keys[*i] == key).max_by_key(|(_, x)| x.size) {
                if self.failures[i].size > f.size {
                    self.failures[i] = f;
                }
            }
            self.failures_dropped += 1;
        }
    }
    pub fn sample(&mut self, v: Value) {
        if self.samples.len() < 6 {
            self.samples.push(v);
        }
    }
    pub fn merge(&mut self, o: Stats) {
        self.evaluations += o.evaluations;
        self.nontrivial_hashes.extend(o.nontrivial_hashes);
        self.nontrivial_by_construction += o.nontrivial_by_construction;
        self.states += o.states;
        self.transitions += o.transitions;
        self.traces_validated += o.traces_validated;
        self.programs += o.programs;
        for (k, v) in o.outcomes {
            *self.outcomes.entry(k).or_insert(0) += v;
        }
        for (k, v) in o.counters {
            *self.counters.entry(k).or_insert(0) += v;
        }
        self.failures.extend(o.failures);
        self.failure_keys.extend(o.failure_keys);
        self.failures_dropped += o.failures_dropped;
        for s in o.samples {
            if self.samples.len() < 8 {
                self.samples.push(s);
            }
        }
    }
    pub fn merge_all(v: Vec<Stats>) -> Stats {
        let mut s = Stats::new();
        for x in v {
            s.merge(x);
        }
        s
    }
    pub fn distinct_nontrivial(&mut self) -> u64 {
        self.nontrivial_hashes.sort_unstable();
        self.nontrivial_hashes.dedup();
        self.nontrivial_hashes.len() as u64 + self.nontrivial_by_construction
    }
}

pub struct Run {
    pub property: String,
    pub tier: String,
    pub seed: i64,
    pub level: &'static str,
    pub started: Instant,
    pub stats: Stats,
    pub rule: String,
    pub assumptions: Vec<String>,
    pub exhaustive: bool,
    pub bounds: Value,
    pub extra: BTreeMap<String, Value>,
}

impl Run {
    pub fn new(property: &str, tier: &str, level: &'static str) -> Run {
        let seed = std::env::var("VERIF_SEED").ok().and_then(|s| s.parse().ok()).unwrap_or(0);
        Run {
            property: property.to_string(),
            tier: tier.to_string(),
            seed,
            level,
            started: Instant::now(),
            stats: Stats::new(),
            rule: String::new(),
            assumptions: Vec::new(),
            exhaustive: true,
            bounds: json!({}),
            extra: BTreeMap::new(),
        }
    }
    pub fn thorough(&self) -> bool {
        self.tier == "thorough"
    }
}

// ------------------------------------------------------------------------------------------
// known findings
// ------------------------------------------------------------------------------------------
#[derive(Clone, Debug)]
pub struct Finding {
    pub id: String,
    pub property: String,
    pub status: String,
    pub summary: String,
    pub sig_prefix: String,
    pub pred: String,
}

pub fn verif_root() -> PathBuf {
    PathBuf::from(std::env::var("VERIF_ROOT").unwrap_or_else(|_| "/verif".to_string()))
}

pub fn load_findings() -> Vec<Finding> {
    let p = verif_root().join("known_findings.json");
    let text = match std::fs::read_to_string(&p) {
        Ok(t) => t,
        Err(_) => return Vec::new(),
    };
    let v: Value = serde_json::from_str(&text).unwrap_or_else(|e| {
        eprintln!("MACHINERY: known_findings.json does not parse: {}", e);
        std::process::exit(2);
    });
    let mut out = Vec::new();
    for f in v["findings"].as_array().cloned().unwrap_or_default() {
        out.push(Finding {
            id: f["id"].as_str().unwrap_or("").to_string(),
            property: f["property"].as_str().unwrap_or("").to_string(),
            status: f["status"].as_str().unwrap_or("").to_string(),
            summary: f["summary"].as_str().unwrap_or("").to_string(),
            sig_prefix: f["match"]["sig_prefix"].as_str().unwrap_or("\u{0}").to_string(),
            pred: f["match"]["pred"].as_str().unwrap_or("\u{0}").to_string(),
        });
    }
    out
}

fn matches(f: &Finding, fail: &Failure, property: &str) -> bool {
    f.status == "known"
        && f.property == property
        && fail.sig.starts_with(&f.sig_prefix)
        && fail.preds.iter().any(|p| p == &f.pred)
}

// ------------------------------------------------------------------------------------------
// finishing a run: evidence + verdict
// ------------------------------------------------------------------------------------------
pub fn finish(mut run: Run) -> i32 {
    let findings = load_findings();
    let wall = run.started.elapsed().as_secs_f64();
    let mut failures = std::mem::take(&mut run.stats.failures);
    failures.sort_by(|a, b| a.size.cmp(&b.size).then(a.sig.cmp(&b.sig)));

    let mut known_hits: BTreeMap<String, (String, u64)> = BTreeMap::new();
    let mut unknown: Vec<Failure> = Vec::new();
    for f in failures {
        if let Some(k) = findings.iter().find(|k| matches(k, &f, &run.property)) {
            let e = known_hits.entry(k.id.clone()).or_insert((k.summary.clone(), 0));
            e.1 += 1;
            if let Ok(filter) = std::env::var("VERIF_DUMP_KNOWN") {
                if f.detail.contains(&filter) || f.case.to_string().contains(&filter) {
                    eprintln!("DUMP-KNOWN {} sig={} preds={:?}\n{}", k.id, f.sig, f.preds, f.detail);
                }
            }
        } else {
            unknown.push(f);
        }
    }

    if std::env::var("VERIF_DUMP").is_ok() {
        for f in &unknown {
            eprintln!("DUMP sig={} preds={:?} :: {}", f.sig, f.preds, f.detail.replace('\n', " | "));
        }
    }
    // replay artefacts for unknown failures (smallest few, one per distinct signature+pred set first)
    let mut written = Vec::new();
    let mut seen_sig = BTreeSet::new();
    let mut ordered: Vec<&Failure> = Vec::new();
    for f in &unknown {
        if seen_sig.insert((f.sig.clone(), f.preds.clone())) {
            ordered.push(f);
        }
    }
    for f in &unknown {
        if ordered.len() >= 12 {
            break;
        }
        if !ordered.iter().any(|o| std::ptr::eq(*o, f)) {
            ordered.push(f);
        }
    }
    let _ = std::fs::remove_dir_all(verif_root().join("replays").join(&run.property));
    for (i, f) in ordered.iter().take(12).enumerate() {
        let dir = verif_root().join("replays").join(&run.property).join(format!(
            "{:02}-{:016x}",
            i,
            crate::harness::fnv(f.case.to_string().as_bytes())
        ));
        let _ = std::fs::create_dir_all(&dir);
        let doc = json!({
            "property": run.property,
            "sig": f.sig,
            "preds": f.preds,
            "detail": f.detail,
            "case": f.case,
        });
        let _ = std::fs::write(dir.join("case.json"), serde_json::to_string_pretty(&doc).unwrap());
        if let Some(files) = f.case.get("files").and_then(|x| x.as_object()) {
            for (name, content) in files {
                let rel = name.trim_start_matches('/');
                let p = dir.join("files").join(rel);
                if let Some(par) = p.parent() {
                    let _ = std::fs::create_dir_all(par);
                }
                let _ = std::fs::write(p, content.as_str().unwrap_or(""));
            }
        }
        let _ = std::fs::write(dir.join("detail.txt"), &f.detail);
        written.push((dir, f.sig.clone()));
    }

    let distinct = run.stats.distinct_nontrivial();
    let violations = unknown.len() as u64;
    let mut cov = serde_json::Map::new();
    cov.insert("evaluations".into(), json!(run.stats.evaluations));
    cov.insert("distinct_nontrivial".into(), json!(distinct));
    cov.insert("rule".into(), json!(run.rule));
    cov.insert("samples".into(), json!(run.stats.samples));
    cov.insert("exhaustive".into(), json!(run.exhaustive));
    cov.insert("bounds".into(), run.bounds.clone());
    cov.insert("outcomes".into(), json!(run.stats.outcomes));
    cov.insert("counters".into(), json!(run.stats.counters));
    cov.insert("distinct_outcomes".into(), json!(run.stats.outcomes.len()));
    if run.level == "model_checking" {
        cov.insert("states".into(), json!(run.stats.states.max(1)));
        cov.insert("transitions".into(), json!(run.stats.transitions.max(1)));
        cov.insert("traces_validated_against_impl".into(), json!(run.stats.traces_validated));
    }
    if run.stats.programs > 0 {
        cov.insert("programs".into(), json!(run.stats.programs));
    }
    cov.insert(
        "known_findings_observed".into(),
        json!(known_hits.iter().map(|(k, v)| json!({"id": k, "cases": v.1})).collect::<Vec<_>>()),
    );
    for (k, v) in &run.extra {
        cov.insert(k.clone(), v.clone());
    }
    let ev = json!({
        "property_id": run.property,
        "tier": run.tier,
        "seed": run.seed,
        "level": run.level,
        "coverage": Value::Object(cov),
        "assumptions": run.assumptions,
        "wall_s": wall,
        "violations": violations,
    });
    let evdir = verif_root().join("evidence");
    let _ = std::fs::create_dir_all(&evdir);
    let evpath = evdir.join(format!("{}.json", run.property));
    if let Err(e) = std::fs::write(&evpath, serde_json::to_string_pretty(&ev).unwrap()) {
        eprintln!("MACHINERY: cannot write evidence {}: {}", evpath.display(), e);
        return 2;
    }

    println!(
        "{} {}: evaluations={} distinct_nontrivial={} outcomes={} wall={:.1}s exhaustive={}",
        run.property,
        run.tier,
        run.stats.evaluations,
        distinct,
        run.stats.outcomes.len(),
        wall,
        run.exhaustive
    );
    for (k, v) in &run.stats.outcomes {
        println!("  outcome {:<40} {}", k, v);
    }
    for (k, v) in &run.stats.counters {
        println!("  counter {:<40} {}", k, v);
    }
    for (id, (summary, n)) in &known_hits {
        println!("KNOWN-FINDING: property={} {} {} ({} cases)", run.property, id, summary, n);
    }
    if unknown.is_empty() {
        0
    } else {
        for (dir, sig) in &written {
            println!("VIOLATION property={} replay={}", run.property, dir.display());
            println!("  sig={}", sig);
        }
        println!(
            "  {} unlisted failing cases in total ({} not retained)",
            unknown.len(),
            run.stats.failures_dropped
        );
        1
    }
}
