fn main() { println!("syltmc"); }
