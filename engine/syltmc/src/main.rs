mod ast;
mod compose;
mod engines;
mod families;
mod stmtfam;
mod harness;
mod luarun;
mod refsylt;
mod scope;
mod selftest;
mod pool;
mod report;
mod util;

use report::Run;

fn usage() -> ! {
    eprintln!("usage: syltmc <C01..C20> [--tier quick|thorough] | syltmc replay <dir>");
    std::process::exit(2)
}

fn main() {
    std::env::set_var("NO_COLOR", "1");
    harness::install_quiet_panic_hook();
    let args: Vec<String> = std::env::args().skip(1).collect();
    if args.is_empty() {
        usage();
    }
    if args[0] == "selftest" {
        std::process::exit(pool::on_fresh_thread(1, || selftest::run()));
    }
    if args[0] == "c07-worker" {
        let rest: Vec<String> = args[1..].to_vec();
        std::process::exit(pool::on_fresh_thread(1, move || engines::c07::worker(&rest)));
    }
    if args[0] == "c07-case" {
        let thorough = args[1] == "thorough";
        let i: u64 = args[2].parse().unwrap();
        let sp = engines::c07::Space::new(thorough);
        let (desc, files, no_std) = sp.case(i);
        println!("{} no_std={}", desc, no_std);
        for (k, v) in &files {
            println!("--- {}\n{}", k, v);
        }
        return;
    }
    if args[0] == "dump-family" {
        let want = args[1].clone();
        let code = pool::on_fresh_thread(1, move || {
            for (f, p) in stmtfam::all_programs(false) {
                if f == want {
                    let t = ast::print_program(&p).text;
                    println!("{}", t);
                    println!("=> {}", harness::compile_src(&t).short());
                    if let harness::Outcome::Err { errs, .. } = harness::compile_src(&t) {
                        for e in errs { println!("{}", e.dbg); }
                    }
                    break;
                }
            }
            0
        });
        std::process::exit(code);
    }
    if args[0] == "show-c14" {
        let code = pool::on_fresh_thread(1, move || {
            let (_, p) = stmtfam::all_programs(false).into_iter().find(|(f, _)| f.starts_with("recursion:argument-slots")).unwrap();
            let mut v = p.clone();
            ast::restyle(&mut v, &[ast::CallStyle::Prime, ast::CallStyle::Arrow, ast::CallStyle::ArrowPrime, ast::CallStyle::Arrow]);
            let t = ast::print_with(&v, ast::PrintOpts { explicit_ret: true, loop_true: true, ..Default::default() }).text;
            println!("{}\n=> {}", t, harness::compile_src(&t).short());
            0
        });
        std::process::exit(code);
    }
    if args[0] == "show-family" {
        // debugging aid: print every program of the statement families whose name starts with the given prefix,
        // with C01's verdict on it
        let prefix = args.get(1).cloned().unwrap_or_default();
        let code = pool::on_fresh_thread(1, move || {
            for (fam, mut p) in stmtfam::all_programs(std::env::var("VERIF_TIER").map(|t| t == "thorough").unwrap_or(false)).into_iter().filter(|(f, _)| f.starts_with(&prefix)) {
                let c = engines::c01::check_semantics(&mut p);
                let v = match &c.verdict {
                    engines::c01::Verdict::Ok { .. } => "ok".to_string(),
                    engines::c01::Verdict::Skip(w) => format!("skip {}", w),
                    engines::c01::Verdict::Fail { sig, detail, .. } => format!("FAIL {}\n{}", sig, detail),
                };
                println!("== {} => {}", fam, v);
                if std::env::var("VERIF_VERBOSE").is_ok() {
                    println!("{}", c.text);
                }
            }
            0
        });
        std::process::exit(code);
    }
    if args[0] == "corpus" {
        std::process::exit(pool::on_fresh_thread(1, || selftest::corpus()));
    }
    if args[0] == "replay" {
        let dir = args.get(1).unwrap_or_else(|| usage());
        std::process::exit(replay(dir));
    }
    let prop = args[0].clone();
    let mut tier = std::env::var("VERIF_TIER").unwrap_or_else(|_| "quick".to_string());
    let mut i = 1;
    while i < args.len() {
        if args[i] == "--tier" && i + 1 < args.len() {
            tier = args[i + 1].clone();
            i += 1;
        } else if args[i] == "quick" || args[i] == "thorough" {
            tier = args[i].clone();
        }
        i += 1;
    }
    let code = pool::on_fresh_thread(1, move || {
        let mut run;
        match prop.as_str() {
            "C17" => {
                run = Run::new("C17", &tier, "model_checking");
                engines::c17::run(&mut run);
            }
            "C01" => {
                run = Run::new("C01", &tier, "model_checking");
                engines::c01::run(&mut run);
            }
            "C06" => {
                run = Run::new("C06", &tier, "exploration");
                engines::c06::run(&mut run);
            }
            "C03" => {
                run = Run::new("C03", &tier, "fault_enumeration");
                engines::faults::run_c03(&mut run);
            }
            "C04" => {
                run = Run::new("C04", &tier, "fault_enumeration");
                engines::faults::run_c04(&mut run);
            }
            "C05" => {
                run = Run::new("C05", &tier, "fault_enumeration");
                engines::faults::run_c05(&mut run);
            }
            "C15" => {
                run = Run::new("C15", &tier, "fault_enumeration");
                engines::c15::run(&mut run);
            }
            "C16" => {
                run = Run::new("C16", &tier, "exploration");
                engines::c16::run(&mut run);
            }
            "C07" => {
                run = Run::new("C07", &tier, "fault_enumeration");
                engines::c07::run(&mut run);
            }
            "C08" => {
                run = Run::new("C08", &tier, "exploration");
                engines::c08::run(&mut run);
            }
            "C14" => {
                run = Run::new("C14", &tier, "exploration");
                engines::c14::run(&mut run);
            }
            "C09" => {
                run = Run::new("C09", &tier, "exploration");
                engines::c09::run(&mut run);
            }
            "C19" => {
                run = Run::new("C19", &tier, "model_checking");
                engines::c19::run(&mut run);
            }
            "C18" => {
                run = Run::new("C18", &tier, "model_checking");
                engines::c18::run(&mut run);
            }
            "C20" => {
                run = Run::new("C20", &tier, "model_checking");
                engines::c20::run(&mut run);
            }
            "C11" => {
                run = Run::new("C11", &tier, "model_checking");
                engines::c11::run(&mut run);
            }
            "C12" => {
                run = Run::new("C12", &tier, "model_checking");
                engines::c12::run(&mut run);
            }
            "C02" => {
                run = Run::new("C02", &tier, "model_checking");
                engines::c02::run(&mut run);
            }
            "C10" => {
                run = Run::new("C10", &tier, "model_checking");
                engines::c10::run(&mut run);
            }
            "C13" => {
                run = Run::new("C13", &tier, "model_checking");
                engines::c13::run(&mut run);
            }
            _ => {
                eprintln!("MACHINERY: no engine for {}", prop);
                return 2;
            }
        }
        report::finish(run)
    });
    std::process::exit(code);
}

fn replay(dir: &str) -> i32 {
    let p = std::path::Path::new(dir).join("case.json");
    let text = match std::fs::read_to_string(&p) {
        Ok(t) => t,
        Err(e) => {
            eprintln!("MACHINERY: cannot read {}: {}", p.display(), e);
            return 2;
        }
    };
    let doc: serde_json::Value = serde_json::from_str(&text).expect("case.json");
    let case = &doc["case"];
    let prop = doc["property"].as_str().unwrap_or("?").to_string();
    let res = pool::on_fresh_thread(1, || match case["engine"].as_str().unwrap_or("") {
        "c17" | "c17-e2e" => engines::c17::replay(case),
        "c13" | "c13-values" => engines::c13::replay(case),
        "faults" => engines::faults::replay(case),
        "c02" => engines::c02::replay(case),
        "c12" => engines::c12::replay(case),
        "c11" | "c11-types" => engines::c11::replay(case),
        "c20" => engines::c20::replay(case),
        "c18" => engines::c18::replay(case),
        "c19" | "c19-law" => engines::c19::replay(case),
        "c09" | "c09-plant" => engines::c09::replay(case),
        "c14" => engines::c14::replay(case),
        "c08" => engines::c08::replay(case),
        "c06" | "c06-driver" => engines::c06::replay(case),
        "c01" => engines::c01::replay(case),
        "c07" => engines::c07::replay(case),
        "c16" | "c16-disk" => engines::c16::replay(case),
        "c15" => engines::c15::replay(case),
        "faults-files" => engines::faults::replay_files(case),
        other => {
            eprintln!("MACHINERY: unknown engine {}", other);
            std::process::exit(2);
        }
    });
    match res {
        Some((sig, detail)) => {
            println!("{}", detail);
            println!("VIOLATION property={} replay={} sig={}", prop, dir, sig);
            1
        }
        None => {
            println!("replay: property {} holds on this case", prop);
            0
        }
    }
}
