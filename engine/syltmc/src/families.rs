//! Program families: finite, completely enumerated sets of well-typed core-Sylt programs.
//! Expressions are generated type-directed by exact operator count; statement-level families
//! enumerate sequences over themed menus. Every program prints what it computes.

use crate::ast::*;
use std::collections::HashMap;
use std::sync::Arc;

#[derive(Clone, Copy, PartialEq, Eq, Hash, Debug)]
pub enum T {
    Int,
    Float,
    Bool,
    Str,
    Tup,
    Blob,
    Enum,
    List,
}

pub const TYPES: [T; 8] = [T::Int, T::Float, T::Bool, T::Str, T::Tup, T::Blob, T::Enum, T::List];

impl T {
    pub fn ty(self) -> Ty {
        match self {
            T::Int => Ty::Int,
            T::Float => Ty::Float,
            T::Bool => Ty::Bool,
            T::Str => Ty::Str,
            T::Tup => Ty::Tuple(vec![Ty::Int, Ty::Int]),
            T::Blob => Ty::User("P".into()),
            T::Enum => Ty::User("E".into()),
            T::List => Ty::List(Box::new(Ty::Int)),
        }
    }
    pub fn default(self) -> Expr {
        match self {
            T::Int => int(9),
            T::Float => Expr::Float(9.5),
            T::Bool => Expr::Bool(false),
            T::Str => s("z"),
            T::Tup => Expr::Tuple(vec![int(9), int(9)]),
            T::Blob => Expr::Blob("P".into(), vec![("x".into(), int(9)), ("y".into(), int(9))]),
            T::Enum => Expr::Variant("E".into(), "B".into(), None),
            T::List => Expr::List(vec![int(9)]),
        }
    }
}

pub fn prelude() -> Vec<Top> {
    let gdef = |n: &str, e: Expr| Top::Def { name: n.into(), mutable: true, ty: None, value: e };
    vec![
        Top::External { name: "print".into(), ty: "fn *X -> void".into() },
        Top::Blob { name: "P".into(), fields: vec![("x".into(), Ty::Int), ("y".into(), Ty::Int)] },
        Top::Enum { name: "E".into(), variants: vec![("A".into(), Some(Ty::Int)), ("B".into(), None)] },
        gdef("g", int(0)),
        Top::Def { name: "k".into(), mutable: false, ty: None, value: int(3) },
        gdef("a", int(1)),
        gdef("h", Expr::Float(0.5)),
        gdef("s", s("a")),
        gdef("c", Expr::Bool(true)),
        gdef("t", Expr::Tuple(vec![int(1), int(2)])),
        gdef("p", Expr::Blob("P".into(), vec![("x".into(), int(1)), ("y".into(), int(2))])),
        gdef("v", Expr::Variant("E".into(), "A".into(), Some(Box::new(int(1))))),
        gdef("l", Expr::List(vec![int(1), int(2)])),
        top_fn("tick", vec![], RetAnn::Ty(Ty::Int), vec![op_assign("g", BinOp::Add, int(1)), print_of(var("g")), Stmt::Expr(var("g"))]),
        top_fn("idi", vec![("q", Some(Ty::Int))], RetAnn::Ty(Ty::Int), vec![print_of(var("q")), Stmt::Expr(var("q"))]),
        top_fn("idb", vec![("q", Some(Ty::Bool))], RetAnn::Ty(Ty::Bool), vec![print_of(var("q")), Stmt::Expr(var("q"))]),
    ]
}

pub fn leaves(t: T) -> Vec<Expr> {
    match t {
        T::Int => vec![int(0), int(1), int(2), var("a"), var("k"), callv("tick", vec![])],
        T::Float => vec![Expr::Float(0.5), Expr::Float(2.0), var("h")],
        T::Bool => vec![Expr::Bool(true), Expr::Bool(false), var("c")],
        T::Str => vec![s("a"), s("b"), var("s")],
        T::Tup => vec![Expr::Tuple(vec![int(1), int(2)]), var("t")],
        T::Blob => vec![var("p"), Expr::Blob("P".into(), vec![("x".into(), int(2)), ("y".into(), int(1))])],
        T::Enum => vec![var("v"), Expr::Variant("E".into(), "B".into(), None), Expr::Variant("E".into(), "A".into(), Some(Box::new(int(2))))],
        T::List => vec![var("l"), Expr::List(vec![int(1)])],
    }
}

#[derive(Clone, Copy, Debug)]
enum Rule {
    Bin(BinOp, T, T),
    Un(UnOp, T),
    Call1(&'static str, T),
    Field(&'static str),
    Index(i64),
    If(T),
    CaseA,
    MkTuple,
    MkBlob,
    MkVariant,
    MkList,
}

fn rules(t: T) -> Vec<Rule> {
    use BinOp::*;
    match t {
        T::Int => vec![
            Rule::Bin(Add, T::Int, T::Int), Rule::Bin(Sub, T::Int, T::Int), Rule::Bin(Mul, T::Int, T::Int), Rule::Un(UnOp::Neg, T::Int),
            Rule::Call1("idi", T::Int), Rule::Field("x"), Rule::Field("y"), Rule::Index(0), Rule::Index(1), Rule::If(T::Int), Rule::CaseA,
        ],
        T::Float => vec![
            Rule::Bin(Div, T::Int, T::Int), Rule::Bin(Div, T::Float, T::Float), Rule::Bin(Div, T::Int, T::Float), Rule::Bin(Div, T::Float, T::Int),
            Rule::Bin(Add, T::Float, T::Float), Rule::Bin(Sub, T::Float, T::Float), Rule::Bin(Mul, T::Float, T::Float), Rule::Un(UnOp::Neg, T::Float), Rule::If(T::Float),
        ],
        T::Bool => vec![
            Rule::Bin(Eq, T::Int, T::Int), Rule::Bin(Ne, T::Int, T::Int), Rule::Bin(Lt, T::Int, T::Int), Rule::Bin(Le, T::Int, T::Int),
            Rule::Bin(Gt, T::Int, T::Int), Rule::Bin(Ge, T::Int, T::Int), Rule::Bin(Eq, T::Str, T::Str), Rule::Bin(Lt, T::Str, T::Str), Rule::Bin(Ge, T::Str, T::Str),
            Rule::Bin(Eq, T::Tup, T::Tup), Rule::Bin(Ne, T::Tup, T::Tup), Rule::Bin(Lt, T::Tup, T::Tup), Rule::Bin(Le, T::Tup, T::Tup), Rule::Bin(Gt, T::Tup, T::Tup),
            Rule::Bin(Eq, T::Float, T::Float), Rule::Bin(Lt, T::Float, T::Float), Rule::Bin(Lt, T::Int, T::Float), Rule::Bin(Gt, T::Float, T::Int),
            Rule::Bin(Eq, T::Bool, T::Bool), Rule::Bin(Eq, T::Blob, T::Blob), Rule::Bin(Ne, T::Blob, T::Blob), Rule::Bin(Eq, T::Enum, T::Enum), Rule::Bin(Ne, T::Enum, T::Enum),
            Rule::Bin(Eq, T::List, T::List), Rule::Bin(And, T::Bool, T::Bool), Rule::Bin(Or, T::Bool, T::Bool), Rule::Un(UnOp::Not, T::Bool), Rule::Call1("idb", T::Bool),
        ],
        T::Str => vec![Rule::Bin(Add, T::Str, T::Str), Rule::If(T::Str)],
        T::Tup => vec![Rule::MkTuple, Rule::Bin(Add, T::Tup, T::Tup), Rule::Bin(Sub, T::Tup, T::Tup), Rule::Bin(Mul, T::Tup, T::Tup), Rule::Un(UnOp::Neg, T::Tup), Rule::If(T::Tup)],
        T::Blob => vec![Rule::MkBlob],
        T::Enum => vec![Rule::MkVariant, Rule::If(T::Enum)],
        T::List => vec![Rule::MkList],
    }
}

pub struct Gen {
    memo: HashMap<(T, usize), Arc<Vec<Expr>>>,
}

impl Gen {
    pub fn new() -> Self {
        Gen { memo: HashMap::new() }
    }

    /// all expressions of type t with exactly `size` operator nodes
    pub fn exact(&mut self, t: T, size: usize) -> Arc<Vec<Expr>> {
        if let Some(v) = self.memo.get(&(t, size)) {
            return v.clone();
        }
        let mut out = Vec::new();
        if size == 0 {
            out = leaves(t);
        } else {
            for r in rules(t) {
                match r {
                    Rule::Bin(op, ta, tb) => {
                        for sa in 0..size {
                            let sb = size - 1 - sa;
                            let xs = self.exact(ta, sa);
                            let ys = self.exact(tb, sb);
                            for x in xs.iter() {
                                for y in ys.iter() {
                                    out.push(bin(op, x.clone(), y.clone()));
                                }
                            }
                        }
                    }
                    Rule::Un(op, ta) => {
                        for x in self.exact(ta, size - 1).iter() {
                            out.push(un(op, x.clone()));
                        }
                    }
                    Rule::Call1(f, ta) => {
                        for x in self.exact(ta, size - 1).iter() {
                            out.push(callv(f, vec![x.clone()]));
                        }
                    }
                    Rule::Field(f) => {
                        for x in self.exact(T::Blob, size - 1).iter() {
                            out.push(field(x.clone(), f));
                        }
                    }
                    Rule::Index(i) => {
                        for x in self.exact(T::Tup, size - 1).iter() {
                            out.push(Expr::Index(Box::new(x.clone()), i));
                        }
                    }
                    Rule::If(tt) => {
                        // sizes split over condition and the two branches
                        for sc in 0..size {
                            for sa in 0..(size - sc) {
                                let sb = size - 1 - sc - sa;
                                let cs = self.exact(T::Bool, sc);
                                let xs = self.exact(tt, sa);
                                let ys = self.exact(tt, sb);
                                for c in cs.iter() {
                                    for x in xs.iter() {
                                        for y in ys.iter() {
                                            out.push(if_e(c.clone(), vec![Stmt::Expr(x.clone())], Some(vec![Stmt::Expr(y.clone())])));
                                        }
                                    }
                                }
                            }
                        }
                    }
                    Rule::CaseA => {
                        for ss in 0..size {
                            let se = size - 1 - ss;
                            let scs = self.exact(T::Enum, ss);
                            let els = self.exact(T::Int, se);
                            for sc in scs.iter() {
                                for el in els.iter() {
                                    out.push(Expr::Case(
                                        Box::new(sc.clone()),
                                        vec![CaseArm { variant: "A".into(), bind: Some("q".into()), body: vec![Stmt::Expr(bin(BinOp::Add, var("q"), int(10)))] }],
                                        Some(vec![Stmt::Expr(el.clone())]),
                                    ));
                                }
                            }
                        }
                    }
                    Rule::MkTuple | Rule::MkBlob | Rule::MkList => {
                        for sa in 0..size {
                            let sb = size - 1 - sa;
                            let xs = self.exact(T::Int, sa);
                            let ys = self.exact(T::Int, sb);
                            for x in xs.iter() {
                                for y in ys.iter() {
                                    out.push(match r {
                                        Rule::MkTuple => Expr::Tuple(vec![x.clone(), y.clone()]),
                                        Rule::MkBlob => Expr::Blob("P".into(), vec![("x".into(), x.clone()), ("y".into(), y.clone())]),
                                        _ => Expr::List(vec![x.clone(), y.clone()]),
                                    });
                                }
                            }
                        }
                    }
                    Rule::MkVariant => {
                        for x in self.exact(T::Int, size - 1).iter() {
                            out.push(Expr::Variant("E".into(), "A".into(), Some(Box::new(x.clone()))));
                        }
                    }
                }
            }
        }
        let v = Arc::new(out);
        self.memo.insert((t, size), v.clone());
        v
    }
}

// -----------------------------------------------------------------------------------------
// contexts: place an expression of type t into a complete program
// -----------------------------------------------------------------------------------------
pub const N_CONTEXTS: usize = 24;

pub fn context_name(c: usize) -> &'static str {
    [
        "print", "local-then-print", "global-init", "fn-result", "fn-param-shadows-global", "closure-sees-later-assignment",
        "if-then", "if-else", "loop-twice", "unused-then-print-g", "tuple-element", "list-element", "assign-rhs", "held-across",
        "case-arm-value", "early-ret", "method-result", "compound-assign", "blob-field", "variant-payload", "closure-per-iteration",
        "and-rhs", "ret-in-loop", "argument-after-tick",
    ][c]
}

fn showable(t: T, e: Expr) -> Expr {
    // multi-field blobs are not printed as a whole (hash order): print a tuple of the fields
    match t {
        T::Blob => Expr::Tuple(vec![field(e.clone(), "x"), field(e, "y")]),
        _ => e,
    }
}

fn pr(t: T, e: Expr) -> Stmt {
    match t {
        // evaluate once, then show both fields
        T::Blob => Stmt::Block(vec![def("zb", e), print_of(showable(T::Blob, var("zb")))]),
        _ => print_of(e),
    }
}

pub fn place(c: usize, t: T, e: Expr) -> Option<Program> {
    let mut tops = prelude();
    let body: Vec<Stmt> = match c {
        0 => vec![pr(t, e)],
        1 => vec![def("x", e), pr(t, var("x")), pr(t, var("x"))],
        2 => {
            tops.push(Top::Def { name: "gg".into(), mutable: false, ty: None, value: e });
            vec![pr(t, var("gg")), print_of(var("g"))]
        }
        3 => {
            tops.push(top_fn("w", vec![], RetAnn::Implied, vec![Stmt::Expr(e)]));
            vec![pr(t, callv("w", vec![])), pr(t, callv("w", vec![]))]
        }
        4 => {
            tops.push(top_fn("w", vec![("a", Some(Ty::Int)), ("c", Some(Ty::Bool))], RetAnn::Implied, vec![Stmt::Expr(e)]));
            vec![pr(t, callv("w", vec![int(5), Expr::Bool(false)]))]
        }
        5 => vec![
            def("a", int(7)),
            cdef("w", lambda(vec![], RetAnn::Implied, vec![Stmt::Expr(e)])),
            assign("a", int(8)),
            pr(t, callv("w", vec![])),
            print_of(var("a")),
        ],
        6 => vec![Stmt::Expr(if_e(Expr::Bool(true), vec![pr(t, e)], None)), print_of(var("g"))],
        7 => vec![Stmt::Expr(if_e(var("c"), vec![print_of(int(7))], Some(vec![pr(t, e)]))), assign("c", Expr::Bool(false)), print_of(var("g"))],
        8 => vec![def("i", int(0)), Stmt::Loop(Some(bin(BinOp::Lt, var("i"), int(2))), vec![pr(t, e), op_assign("i", BinOp::Add, int(1)), op_assign("a", BinOp::Add, int(1))])],
        9 => vec![Stmt::Expr(e), print_of(var("g"))],
        10 => vec![print_of(Expr::Tuple(vec![showable(t, e), int(1)]))],
        11 => {
            if t == T::Blob {
                return None;
            }
            vec![print_of(Expr::List(vec![e.clone(), e]))]
        }
        12 => vec![def("x", t.default()), assign("x", e), pr(t, var("x"))],
        13 => match t {
            T::Int => vec![print_of(bin(BinOp::Add, callv("tick", vec![]), e.clone())), print_of(bin(BinOp::Sub, e, callv("tick", vec![])))],
            T::Bool => vec![print_of(bin(BinOp::And, callv("idb", vec![Expr::Bool(true)]), e.clone())), print_of(bin(BinOp::Or, e, callv("idb", vec![Expr::Bool(false)])))],
            T::Str => vec![print_of(bin(BinOp::Add, s("<"), bin(BinOp::Add, e, s(">"))))],
            _ => return None,
        },
        14 => vec![pr(
            t,
            Expr::Case(
                Box::new(var("v")),
                vec![CaseArm { variant: "A".into(), bind: Some("q".into()), body: vec![print_of(var("q")), Stmt::Expr(e)] }],
                Some(vec![Stmt::Expr(t.default())]),
            ),
        )],
        15 => {
            tops.push(top_fn(
                "w",
                vec![("n", Some(Ty::Int))],
                RetAnn::Implied,
                vec![Stmt::Expr(if_e(bin(BinOp::Gt, var("n"), int(0)), vec![Stmt::Ret(Some(e))], None)), Stmt::Expr(t.default())],
            ));
            vec![pr(t, callv("w", vec![int(1)])), pr(t, callv("w", vec![int(0)]))]
        }
        16 => {
            if t != T::Int {
                return None;
            }
            tops.push(Top::Blob { name: "M".into(), fields: vec![("n".into(), Ty::Int), ("go".into(), Ty::Fn(vec![], Box::new(Ty::Int)))] });
            vec![
                def("mm", Expr::Blob("M".into(), vec![("n".into(), int(5)), ("go".into(), lambda(vec![], RetAnn::Ty(Ty::Int), vec![Stmt::Assign { target: field(var("self"), "n"), op: Some(BinOp::Add), value: e }, Stmt::Expr(field(var("self"), "n"))]))])),
                print_of(call(field(var("mm"), "go"), vec![])),
                print_of(call(field(var("mm"), "go"), vec![])),
                print_of(field(var("mm"), "n")),
            ]
        }
        17 => match t {
            T::Int => vec![def("x", int(5)), op_assign("x", BinOp::Add, e.clone()), print_of(var("x")), op_assign("x", BinOp::Mul, e.clone()), print_of(var("x")), op_assign("x", BinOp::Sub, e), print_of(var("x"))],
            T::Str => vec![def("x", s("<")), op_assign("x", BinOp::Add, e), print_of(var("x"))],
            T::Tup => vec![def("x", Expr::Tuple(vec![int(5), int(6)])), op_assign("x", BinOp::Add, e.clone()), print_of(var("x")), op_assign("x", BinOp::Mul, e), print_of(var("x"))],
            T::Float => vec![def("x", Expr::Float(1.5)), op_assign("x", BinOp::Mul, e.clone()), print_of(var("x")), op_assign("x", BinOp::Div, e), print_of(var("x"))],
            _ => return None,
        },
        18 => {
            if t != T::Int {
                return None;
            }
            vec![def("x", Expr::Blob("P".into(), vec![("x".into(), e.clone()), ("y".into(), e.clone())])), Stmt::Assign { target: field(var("x"), "y"), op: None, value: e.clone() }, Stmt::Assign { target: field(var("x"), "x"), op: Some(BinOp::Add), value: e }, print_of(showable(T::Blob, var("x")))]
        }
        19 => {
            // a variant carrying a value of the type under test: built, compared, taken apart by a case binding
            tops.push(Top::Enum { name: "W".into(), variants: vec![("Some".into(), Some(t.ty())), ("Non".into(), None)] });
            let some = |x: Expr| Expr::Variant("W".into(), "Some".into(), Some(Box::new(x)));
            let mut arm = vec![pr(t, var("q"))];
            if t == T::Bool {
                arm.push(Stmt::Expr(if_e(var("q"), vec![print_of(int(1))], Some(vec![print_of(int(2))]))));
                arm.push(print_of(bin(BinOp::Eq, var("q"), Expr::Bool(false))));
            }
            let mut b = vec![
                def("w", some(e.clone())),
                Stmt::Expr(Expr::Case(Box::new(var("w")), vec![CaseArm { variant: "Some".into(), bind: Some("q".into()), body: arm.clone() }], Some(vec![print_of(int(0))]))),
                Stmt::Expr(Expr::Case(Box::new(Expr::Variant("W".into(), "Non".into(), None)), vec![CaseArm { variant: "Some".into(), bind: Some("q".into()), body: arm }], Some(vec![print_of(int(7))]))),
                print_of(bin(BinOp::Eq, var("w"), some(t.default()))),
                print_of(bin(BinOp::Ne, var("w"), Expr::Variant("W".into(), "Non".into(), None))),
            ];
            if t == T::Int {
                b.push(print_of(Expr::Variant("E".into(), "A".into(), Some(Box::new(e.clone())))));
                b.push(print_of(bin(BinOp::Eq, Expr::Variant("E".into(), "A".into(), Some(Box::new(e))), var("v"))));
            }
            b
        }
        20 => vec![
            def("i", int(0)),
            def("w0", lambda(vec![], RetAnn::Implied, vec![Stmt::Expr(t.default())])),
            Stmt::Loop(
                Some(bin(BinOp::Lt, var("i"), int(2))),
                vec![
                    def("a", bin(BinOp::Add, var("i"), int(10))),
                    Stmt::Expr(if_e(bin(BinOp::Eq, var("i"), int(0)), vec![assign("w0", lambda(vec![], RetAnn::Implied, vec![Stmt::Expr(e)]))], None)),
                    op_assign("i", BinOp::Add, int(1)),
                ],
            ),
            pr(t, callv("w0", vec![])),
        ],
        21 => {
            if t != T::Bool {
                return None;
            }
            vec![print_of(bin(BinOp::And, var("c"), e.clone())), print_of(bin(BinOp::Or, var("c"), e.clone())), assign("c", Expr::Bool(false)), print_of(bin(BinOp::And, var("c"), e.clone())), print_of(bin(BinOp::Or, var("c"), e))]
        }
        22 => {
            tops.push(top_fn(
                "w",
                vec![],
                RetAnn::Implied,
                vec![def("i", int(0)), Stmt::Loop(None, vec![op_assign("i", BinOp::Add, int(1)), Stmt::Expr(if_e(bin(BinOp::Gt, var("i"), int(1)), vec![Stmt::Ret(Some(e))], None))]), Stmt::Expr(t.default())],
            ));
            vec![pr(t, callv("w", vec![]))]
        }
        23 => {
            tops.push(top_fn("two", vec![("m", Some(Ty::Int)), ("n", None)], RetAnn::Void, vec![print_of(var("m")), print_of(showable(t, var("n")))]));
            vec![Stmt::Expr(callv("two", vec![callv("tick", vec![]), e]))]
        }
        _ => return None,
    };
    tops.push(start_fn(body));
    Some(Program { tops })
}
