//! Library functions called with hostile argument combinations must produce
//! Lua errors (or results), never panics.

struct Rng(u64);
impl Rng {
    fn next(&mut self) -> u64 {
        self.0 ^= self.0 << 13;
        self.0 ^= self.0 >> 7;
        self.0 ^= self.0 << 17;
        self.0
    }
    fn pick<'a>(&mut self, xs: &'a [&'a str]) -> &'a str {
        xs[(self.next() % xs.len() as u64) as usize]
    }
}

const FUNCS: &[&str] = &[
    "assert", "error", "getmetatable", "ipairs", "load", "next", "pairs", "pcall", "print", "rawequal", "rawget",
    "rawlen", "rawset", "select", "setmetatable", "tonumber", "tostring", "type", "xpcall", "collectgarbage",
    "string.byte", "string.char", "string.find", "string.format", "string.gmatch", "string.gsub", "string.len",
    "string.lower", "string.match", "string.rep", "string.reverse", "string.sub", "string.upper", "table.concat",
    "table.insert", "table.pack", "table.remove", "table.sort", "table.unpack", "math.abs", "math.acos", "math.asin",
    "math.atan", "math.ceil", "math.cos", "math.exp", "math.floor", "math.fmod", "math.log", "math.max", "math.min",
    "math.modf", "math.random", "math.randomseed", "math.sin", "math.sqrt", "math.tan", "math.tointeger", "math.type",
    "math.ult", "os.clock", "os.getenv", "os.time", "io.write", "io.read", "require",
];

const ARGS: &[&str] = &[
    "nil", "true", "false", "0", "1", "-1", "2", "3", "64", "255", "256", "-256", "math.maxinteger", "math.mininteger",
    "math.maxinteger - 1", "math.mininteger + 1", "0.5", "-0.5", "1e308", "-1e308", "0/0", "1/0", "-1/0", "2^53", "2^63",
    "-2^63", "1e15", "''", "'a'", "'abc'", "'%'", "'%d'", "'%s%s'", "'%5.2f'", "'%99.99f'", "'%q'", "'%c'", "'%x'",
    "'%-5s|'", "'[a'", "'(a'", "'a)'", "'%1'", "'%b'", "'%bxy'", "'%f[a]'", "'%f'", "'[%a-]'", "'[^%s]+'", "'.-'",
    "'(.)(.)'", "'()'", "'^a*$'", "'a-b'", "'\\0'", "'10'", "'0x10'", "' 5 '", "'1e5'", "'#'", "'n'", "'count'",
    "('x'):rep(100)", "('ab'):rep(1000)", "{}", "{1, 2, 3}", "{3, 1, 2}", "{'b', 'a'}", "{1, 'x', {}}", "{n = 1}",
    "{1, nil, 3}", "setmetatable({}, {__index = function() return 1 end})", "setmetatable({}, {__len = function() return 1e9 end})",
    "setmetatable({}, {__len = function() return 'x' end})", "setmetatable({}, {__tostring = function() return {} end})",
    "setmetatable({}, {__lt = function() return true end})", "setmetatable({}, {__metatable = false})", "print", "tostring",
    "function() end", "function(...) return ... end", "function() error('e') end", "function(a, b) return a end",
    "string", "_G", "math.huge", "-math.huge", "math.pi", "'b'", "'t'", "'bt'", "16", "36", "37", "-5",
];

#[test]
fn hostile_arguments_never_panic() {
    std::thread::Builder::new()
        .stack_size(128 << 20)
        .spawn(|| {
            let mut rng = Rng(0xdead_beef_cafe_f00d);
            let mut calls = 0;
            let mut ok = 0;
            for round in 0..2500 {
                let mut src = String::from("local ok = 0\n");
                for _ in 0..40 {
                    let f = rng.pick(FUNCS);
                    let n = rng.next() % 5;
                    let mut args = Vec::new();
                    for _ in 0..n {
                        args.push(rng.pick(ARGS));
                    }
                    let sep = if args.is_empty() { "" } else { ", " };
                    src.push_str(&format!("if pcall({}{}{}) then ok = ok + 1 end\n", f, sep, args.join(", ")));
                    calls += 1;
                }
                src.push_str("return ok");
                let chunk = match minilua::load(src.as_bytes(), "fuzz") {
                    Ok(c) => c,
                    Err(e) => panic!("generated program does not load: {} {}\n{}", e.line, e.msg, src),
                };
                let mut lua = minilua::Lua::new();
                lua.set_budget(5_000_000);
                match lua.run(&chunk) {
                    Ok(()) => ok += 1,
                    Err(e) => assert!(
                        e.kind == minilua::ErrorKind::Budget,
                        "round {}: unexpected {:?}: {}\n{}",
                        round,
                        e.kind,
                        e.msg,
                        src
                    ),
                }
                lua.take_output();
            }
            assert!(ok > 2000, "only {} rounds completed", ok);
            println!("{} library calls with hostile arguments, {} rounds completed", calls, ok);
        })
        .unwrap()
        .join()
        .unwrap();
}

#[test]
fn hostile_operators_never_panic() {
    std::thread::Builder::new()
        .stack_size(128 << 20)
        .spawn(|| {
            let ops = ["+", "-", "*", "/", "//", "%", "^", "..", "&", "|", "~", "<<", ">>", "==", "~=", "<", "<=", ">", ">="];
            let un = ["-", "~", "#", "not "];
            let mut rng = Rng(0x1357_9bdf_0246_8ace);
            for _ in 0..1500 {
                let mut src = String::new();
                for _ in 0..40 {
                    let a = rng.pick(ARGS);
                    let b = rng.pick(ARGS);
                    let op = ops[(rng.next() % ops.len() as u64) as usize];
                    let u = un[(rng.next() % un.len() as u64) as usize];
                    src.push_str(&format!(
                        "pcall(function() local a, b = {}, {} local r = a {} b local s = {}a local t = {{}} t[a] = b local u = t[b] for i = a, b, a do break end return a[b], a(b), a:b() end)\n",
                        a, b, op, u
                    ));
                }
                let chunk = minilua::load(src.as_bytes(), "fuzz").unwrap_or_else(|e| panic!("{} {}\n{}", e.line, e.msg, src));
                let mut lua = minilua::Lua::new();
                lua.set_budget(5_000_000);
                if let Err(e) = lua.run(&chunk) {
                    assert!(e.kind == minilua::ErrorKind::Budget, "{:?} {}\n{}", e.kind, e.msg, src);
                }
            }
        })
        .unwrap()
        .join()
        .unwrap();
}
