//! The `lua` binary.

use std::io::Write;
use std::process::{Command, Stdio};

fn lua() -> Command {
    Command::new(env!("CARGO_BIN_EXE_lua"))
}

fn run_stdin(args: &[&str], src: &[u8]) -> (i32, String, String) {
    let mut child = lua().args(args).stdin(Stdio::piped()).stdout(Stdio::piped()).stderr(Stdio::piped()).spawn().unwrap();
    child.stdin.take().unwrap().write_all(src).unwrap();
    let out = child.wait_with_output().unwrap();
    (
        out.status.code().unwrap_or(-1),
        String::from_utf8_lossy(&out.stdout).into_owned(),
        String::from_utf8_lossy(&out.stderr).into_owned(),
    )
}

#[test]
fn stdin_chunk() {
    let (code, out, err) = run_stdin(&[], b"print('hello') io.write('x')");
    assert_eq!((code, out.as_str(), err.as_str()), (0, "hello\nx", ""));
    let (code, out, err) = run_stdin(&["-"], b"print(1 + 1)");
    assert_eq!((code, out.as_str(), err.as_str()), (0, "2\n", ""));
}

#[test]
fn runtime_error() {
    let (code, out, err) = run_stdin(&[], b"print('before')\nlocal x = nil\nx()\nprint('after')");
    assert_eq!(code, 1);
    assert_eq!(out, "before\n");
    assert_eq!(err, "lua: stdin:3: attempt to call a nil value (local 'x')\nstack traceback:\n\t[C]: in ?\n");
}

#[test]
fn load_error() {
    let (code, out, err) = run_stdin(&[], b"print('never')\nfalse = false\n");
    assert_eq!(code, 1);
    assert_eq!(out, "");
    assert!(err.starts_with("lua: stdin:2: unexpected symbol near 'false'\n"), "{}", err);
}

#[test]
fn file_argument_and_version() {
    let dir = std::env::temp_dir().join(format!("minilua-cli-{}", std::process::id()));
    std::fs::create_dir_all(&dir).unwrap();
    let f = dir.join("prog.lua");
    std::fs::write(&f, "print('from file')\nerror('bad')").unwrap();
    let out = lua().arg(&f).output().unwrap();
    assert_eq!(out.status.code(), Some(1));
    assert_eq!(String::from_utf8_lossy(&out.stdout), "from file\n");
    let err = String::from_utf8_lossy(&out.stderr).into_owned();
    assert!(err.contains("prog.lua:2: bad"), "{}", err);
    let out = lua().arg(dir.join("missing.lua")).output().unwrap();
    assert_eq!(out.status.code(), Some(1));
    assert!(String::from_utf8_lossy(&out.stderr).starts_with("lua: cannot open"));
    let out = lua().arg("-v").output().unwrap();
    assert_eq!(String::from_utf8_lossy(&out.stdout), "Lua 5.3.6 (MiniLua)\n");
    let _ = std::fs::remove_dir_all(&dir);
}

#[test]
fn large_output_is_flushed_in_order() {
    let (code, out, err) = run_stdin(&[], b"for i = 1, 200000 do print(i) end io.write('end')");
    assert_eq!((code, err.as_str()), (0, ""));
    assert_eq!(out.lines().count(), 200001);
    assert!(out.starts_with("1\n2\n3\n"));
    assert!(out.ends_with("199999\n200000\nend"));
}

#[test]
fn exit_and_deep_recursion() {
    let (code, out, _) = run_stdin(&[], b"print('a') os.exit(7) print('b')");
    assert_eq!((code, out.as_str()), (7, "a\n"));
    let (code, out, _) = run_stdin(&[], b"io.write('z') os.exit(true)");
    assert_eq!((code, out.as_str()), (0, "z"));
    // deep (non-tail) recursion works like in the real interpreter ...
    let (code, out, err) = run_stdin(&[], b"local function f(n) if n == 0 then return 0 end return 1 + f(n - 1) end print(f(100000))");
    assert_eq!((code, out.as_str(), err.as_str()), (0, "100000\n", ""));
    // ... and unbounded recursion is a Lua error, not a crash
    let (code, _, err) = run_stdin(&[], b"local function f(n) return 1 + f(n + 1) end f(1)");
    assert_eq!(code, 1);
    assert!(err.contains("stack overflow"), "{}", err);
}

#[test]
fn garbage_input_does_not_crash() {
    let (code, _, err) = run_stdin(&[], &[0xff, 0xfe, 0x00, 0x01, b'(', b'(', 0x80]);
    assert_eq!(code, 1);
    assert!(err.starts_with("lua: stdin:1: unexpected symbol near '<\\255>'"), "{}", err);
    let deep = "(".repeat(1_000_000);
    let (code, _, err) = run_stdin(&[], format!("x = {}", deep).as_bytes());
    assert_eq!(code, 1);
    assert!(err.contains("C levels"), "{}", err);
}
