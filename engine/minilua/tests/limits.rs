//! Static limits of the loader, robustness against huge / hostile inputs.

mod common;
use common::*;

fn load_err(src: &str) -> Option<String> {
    minilua::load(src.as_bytes(), "stdin").err().map(|e| format!("stdin:{}: {}", e.line, e.msg))
}

fn on_big_stack<F: FnOnce() + Send + 'static>(f: F) {
    std::thread::Builder::new().stack_size(64 << 20).spawn(f).unwrap().join().unwrap();
}

fn locals(n: usize, first: usize) -> String {
    (0..n).map(|i| format!("local V{} = {}\n", first + i, i)).collect()
}

#[test]
fn local_variable_limit() {
    // 200 active locals are fine in the main chunk
    assert_eq!(load_err(&locals(200, 0)), None);
    let e = load_err(&locals(201, 0)).unwrap();
    assert!(e.contains("too many local variables (limit is 200) in main function near '='"), "{}", e);
    assert!(e.starts_with("stdin:201:"), "{}", e);
    // one statement declaring many
    let names: Vec<String> = (0..201).map(|i| format!("a{}", i)).collect();
    let e = load_err(&format!("local {}", names.join(", "))).unwrap();
    assert!(e.contains("too many local variables"), "{}", e);
    // inside a function: "function at line N"
    let src = format!("\n\nlocal function f(p1, p2)\n{}end", locals(199, 0));
    let e = load_err(&src).unwrap();
    assert!(e.contains("too many local variables (limit is 200) in function at line 3 near '='"), "{}", e);
    let src = format!("\n\nlocal function f(p1, p2)\n{}end", locals(198, 0));
    assert_eq!(load_err(&src), None);
    // locals of a closed inner block free their slots
    let src = format!("do\n{}end\ndo\n{}end\n{}", locals(150, 0), locals(150, 200), locals(200, 400));
    assert_eq!(load_err(&src), None);
    // nested blocks accumulate
    let src = format!("{}do\n{}end", locals(150, 0), locals(51, 200));
    assert!(load_err(&src).unwrap().contains("too many local variables"));
    // the 3 hidden control variables of 'for' count
    let src = format!("{}for i = 1, 2 do end", locals(196, 0));
    assert_eq!(load_err(&src), None);
    let src = format!("{}for i = 1, 2 do end", locals(197, 0));
    assert!(load_err(&src).unwrap().contains("too many local variables"));
    let src = format!("{}for k, v in pairs({{}}) do end", locals(195, 0));
    assert_eq!(load_err(&src), None);
    let src = format!("{}for k, v in pairs({{}}) do end", locals(196, 0));
    assert!(load_err(&src).unwrap().contains("too many local variables"));
    // functions are independent
    let src = format!("{}local function f()\n{}end", locals(199, 0), locals(200, 300));
    assert_eq!(load_err(&src), None);
    // and the chunk actually runs
    let src = format!("{}print(V0 + V199)", locals(200, 0));
    assert_eq!(run(&src).out, "199\n");
    let c = minilua::load(locals(200, 0).as_bytes(), "x").unwrap();
    assert_eq!(c.max_active_locals(), 200);
}

#[test]
fn upvalue_limit() {
    // 199 locals + f in the main chunk, 60 more in f, g references them
    let mk = |n_refs: usize, global: bool| {
        let mut names: Vec<String> = (0..199).map(|i| format!("V{}", i)).collect();
        names.extend((0..60).map(|i| format!("V{}", 200 + i)));
        let mut s = locals(199, 0);
        s.push_str("local function f()\n");
        s.push_str(&locals(60, 200));
        s.push_str("  local function g()\n    return 0");
        for n in names.iter().take(n_refs) {
            s.push_str(&format!(" + {}", n));
        }
        if global {
            s.push_str(" + G");
        }
        s.push_str("\n  end\nend\n");
        s
    };
    assert_eq!(load_err(&mk(255, false)), None);
    let e = load_err(&mk(256, false)).unwrap();
    assert!(e.contains("too many upvalues (limit is 255) in function at line 261"), "{}", e);
    // _ENV is an upvalue too
    assert_eq!(load_err(&mk(254, true)), None);
    assert!(load_err(&mk(255, true)).unwrap().contains("too many upvalues"));
    // running a function with many upvalues works
    let mut src = locals(199, 0);
    src.push_str("local function f() return V0 + V1 + V198 end print(f())");
    assert_eq!(run(&src).out, "199\n");
}

#[test]
fn nesting_limit() {
    on_big_stack(|| {
        let parens = |n: usize| format!("x = {}1{}", "(".repeat(n), ")".repeat(n));
        assert_eq!(load_err(&parens(150)), None);
        assert_eq!(load_err(&parens(197)), None);
        let e = load_err(&parens(198)).unwrap();
        assert!(e.contains("too many C levels (limit is 200) in main function near '1'"), "{}", e);
        assert!(load_err(&parens(100_000)).unwrap().contains("C levels"));
        let dos = |n: usize| format!("{}{}", "do ".repeat(n), "end ".repeat(n));
        assert_eq!(load_err(&dos(199)), None);
        assert!(load_err(&dos(200)).unwrap().contains("too many C levels"));
        assert!(load_err(&"do ".repeat(1_000_000)).unwrap().contains("C levels"));
        let funcs = |n: usize| format!("x = {}{}", "function() return ".repeat(n), " end".repeat(n));
        assert_eq!(load_err(&funcs(60)), None);
        let e = load_err(&funcs(250)).unwrap();
        assert!(e.contains("C levels") && e.contains("in function at line 1"), "{}", e);
        let unary = |n: usize| format!("x = {}1", "- ".repeat(n));
        assert_eq!(load_err(&unary(150)), None);
        assert!(load_err(&unary(250)).unwrap().contains("C levels"));
        assert!(load_err(&format!("x = {}1", "not ".repeat(100_000))).unwrap().contains("C levels"));
        // right-associative operators nest, left-associative ones do not
        let concat = |n: usize| format!("x = 'a'{}", " .. 'a'".repeat(n));
        assert_eq!(load_err(&concat(150)), None);
        assert!(load_err(&concat(250)).unwrap().contains("C levels"));
        let pow = |n: usize| format!("x = 2{}", " ^ 2".repeat(n));
        assert!(load_err(&pow(250)).unwrap().contains("C levels"));
        let add = |n: usize| format!("x = 1{}", " + 1".repeat(n));
        assert_eq!(load_err(&add(50_000)), None);
        let tables = |n: usize| format!("x = {}{}", "{".repeat(n), "}".repeat(n));
        assert_eq!(load_err(&tables(150)), None);
        assert!(load_err(&tables(5000)).unwrap().contains("C levels"));
        let ifs = |n: usize| format!("{}{}", "if x then ".repeat(n), "end ".repeat(n));
        assert!(load_err(&ifs(500)).unwrap().contains("C levels"));
        let calls = |n: usize| format!("x = {}1{}", "f(".repeat(n), ")".repeat(n));
        assert!(load_err(&calls(500)).unwrap().contains("C levels"));
        let idx = format!("x = a{}", ".b".repeat(100_000));
        assert_eq!(load_err(&idx), None);
        let labels = "::a:: ".repeat(1).to_string() + &(0..300).map(|i| format!("::l{}:: ", i)).collect::<String>();
        assert!(load_err(&labels).unwrap().contains("C levels"));
        // many targets in one assignment
        let targets: Vec<String> = (0..300).map(|i| format!("a{}", i)).collect();
        assert!(load_err(&format!("{} = 1", targets.join(", "))).unwrap().contains("C levels"));
        let targets: Vec<String> = (0..150).map(|i| format!("a{}", i)).collect();
        assert_eq!(load_err(&format!("{} = 1", targets.join(", "))), None);
    });
}

#[test]
fn deep_runtime_nesting_is_safe() {
    on_big_stack(|| {
        // deepest legal expression nesting inside a recursive function
        let src = format!(
            "local function f(n) if n == 0 then return 0 end return {}f(n - 1){} end print(f(100))",
            "(".repeat(150),
            ")".repeat(150)
        );
        assert_eq!(run(&src).out, "0\n");
    });
}

#[test]
fn huge_inputs() {
    on_big_stack(|| {
        let mut big = String::new();
        for i in 0..200_000 {
            big.push_str(&format!("x{} = {}\n", i % 1000, i));
        }
        let t = std::time::Instant::now();
        let c = minilua::load(big.as_bytes(), "big").unwrap();
        assert!(t.elapsed().as_secs() < 20);
        assert_eq!(c.function_count(), 1);
        let mut lua = minilua::Lua::new();
        lua.run(&c).unwrap();
        // one very long line / string / comment
        let s = format!("x = \"{}\" print(#x)", "a".repeat(5_000_000));
        assert_eq!(run(&s).out, "5000000\n");
        let s = format!("--[[{}]] print('ok')", "z".repeat(5_000_000));
        assert_eq!(run(&s).out, "ok\n");
        let s = format!("x = {{{}}} print(#x)", "1,".repeat(300_000));
        assert_eq!(run(&s).out, "300000\n");
        let s = format!("print({}nil)", "nil,".repeat(10_000));
        assert!(run(&s).err.is_none());
        // a number with an enormous exponent / digit string
        assert_eq!(run(&format!("print({}.0)", "9".repeat(400))).out, "inf\n");
        assert_eq!(run(&format!("print(0.{}1)", "0".repeat(400))).out, "0.0\n");
        assert_eq!(run(&format!("print(1e{})", "9".repeat(400))).out, "inf\n");
        assert_eq!(run(&format!("print(math.type({}))", "9".repeat(400))).out, "float\n");
    });
}

/// deterministic pseudo random generator for the fuzz-like tests
struct Rng(u64);
impl Rng {
    fn next(&mut self) -> u64 {
        self.0 ^= self.0 << 13;
        self.0 ^= self.0 >> 7;
        self.0 ^= self.0 << 17;
        self.0
    }
}

#[test]
fn random_inputs_never_panic() {
    on_big_stack(|| {
        let toks: &[&str] = &[
            "local", "function", "end", "if", "then", "else", "elseif", "while", "do", "for", "in", "repeat", "until",
            "return", "break", "goto", "::", "x", "y", "f", "t", "1", "2.5", "0x", "1e", "\"s\"", "'", "\"", "[[", "]]",
            "[=[", "--", "--[[", "(", ")", "{", "}", "[", "]", "=", "==", "~=", "<", "<=", "..", "...", ".", ":", ",",
            ";", "+", "-", "*", "/", "//", "%", "^", "#", "&", "|", "~", "<<", ">>", "and", "or", "not", "nil", "true",
            "false", "\n", " ", "\\", "@", "\u{e9}", "\0", "print", "pcall", "error", "setmetatable", "tostring", "t.x",
            "f()", "x = 1", "t = {}", "::l::", "goto l", "\\q", "\\x", "\\u{", "\\z",
        ];
        let mut rng = Rng(0x1234_5678_9abc_def1);
        let mut loaded = 0;
        for _ in 0..30_000 {
            let n = (rng.next() % 12) as usize + 1;
            let mut s = String::new();
            for _ in 0..n {
                s.push_str(toks[(rng.next() % toks.len() as u64) as usize]);
                if rng.next() % 3 != 0 {
                    s.push(' ');
                }
            }
            if let Ok(c) = minilua::load(s.as_bytes(), "fuzz") {
                loaded += 1;
                let mut lua = minilua::Lua::new();
                lua.set_budget(20_000);
                let _ = lua.run(&c);
            }
        }
        assert!(loaded > 100, "only {} random programs loaded", loaded);
        // raw random bytes
        for _ in 0..20_000 {
            let n = (rng.next() % 40) as usize;
            let bytes: Vec<u8> = (0..n).map(|_| (rng.next() >> 24) as u8).collect();
            let _ = minilua::load(&bytes, "bytes");
        }
    });
}

#[test]
fn runtime_resource_limits() {
    on_big_stack(|| {
        let o = run_with("while true do end", 10_000, 180);
        assert_eq!(o.err.as_ref().unwrap().0, minilua::ErrorKind::Budget);
        let o = run_with("::a:: goto a", 10_000, 180);
        assert_eq!(o.err.as_ref().unwrap().0, minilua::ErrorKind::Budget);
        let o = run_with("for i = 10, 1, 0 do end", 10_000, 180);
        assert_eq!(o.err.as_ref().unwrap().0, minilua::ErrorKind::Budget);
        let o = run_with("repeat until false", 10_000, 180);
        assert_eq!(o.err.as_ref().unwrap().0, minilua::ErrorKind::Budget);
        let o = run_with("local function f() return f() end f()", 10_000, 180);
        assert_eq!(o.err.as_ref().unwrap().0, minilua::ErrorKind::Budget);
        // pcall cannot swallow the budget error
        let o = run_with("while true do pcall(function() while true do end end) end", 10_000, 180);
        assert_eq!(o.err.as_ref().unwrap().0, minilua::ErrorKind::Budget);
        let o = run_with("print(pcall(string.rep, 'x', 1e12))", 10_000, 180);
        assert_eq!(o.err.as_ref().unwrap().0, minilua::ErrorKind::Budget);
        let o = run_with("local s = 'x' while true do s = s .. s end", 1_000_000, 180);
        assert_eq!(o.err.as_ref().unwrap().0, minilua::ErrorKind::Budget);
        let o = run_with("string.rep('x', 100):gsub('.', string.rep('y', 1000000)):gsub('.', string.rep('z', 1000))", 10_000_000, 180);
        assert_eq!(o.err.as_ref().unwrap().0, minilua::ErrorKind::Budget);
        // call depth
        let o = run_with("local function f(n) return 1 + f(n + 1) end f(1)", 10_000_000, 180);
        let (k, m) = o.err.unwrap();
        assert_eq!(k, minilua::ErrorKind::StackOverflow);
        assert!(m.contains("stack overflow"), "{}", m);
        let o = run_with("local d = 0 local function f(n) d = n return 1 + f(n + 1) end pcall(f, 1) print(d)", 10_000_000, 50);
        let d: i64 = o.out.trim().parse().unwrap();
        assert!(d > 40 && d < 50, "{}", d);
        // metamethod / native re-entrancy is bounded by the same limit
        for src in [
            "local t = setmetatable({}, {__index = function(t, k) return t[k] end}) return t.x",
            "local t = setmetatable({}, {__tostring = function(t) return tostring(t) end}) print(t)",
            "local t = setmetatable({}, {__add = function(a, b) return a + b end}) return t + 1",
            "local t = setmetatable({}, {__eq = function(a, b) return a == b end}) return t == setmetatable({}, getmetatable(t))",
            "local t = setmetatable({}, {__lt = function(a, b) return a < b end}) return t < t",
            "local t = setmetatable({}, {__concat = function(a, b) return a .. b end}) return t .. 'x'",
            "local t = setmetatable({}, {__call = function(self) return self() end}) t()",
            "local t = setmetatable({}, {__len = function(self) return #self end}) return #t",
            "local t = setmetatable({}, {__newindex = function(t, k, v) t[k] = v end}) t.x = 1",
            "local t = setmetatable({}, {__unm = function(a) return -a end}) return -t",
            "local function f() return select(2, pcall(f)) .. 'x' end f()",
            "local t = {3, 2, 1} table.sort(t, function(a, b) table.sort(t, function() error('x') end) end)",
            "local function f() table.sort({3, 2, 1}, function(a, b) f() return a < b end) end f()",
            "local function f() return ('x'):gsub('x', f) end f()",
            "local function f() for _ in pairs(setmetatable({}, {__pairs = f})) do end end f()",
            "local function f() return load('return ...')(f()) end f()",
            "local co = 0 local function f() return xpcall(f, f) end f()",
        ] {
            let o = run_with(src, 50_000_000, 180);
            match o.err {
                Some((k, m)) => assert!(
                    k == minilua::ErrorKind::StackOverflow || m.contains("stack overflow") || m.contains("x"),
                    "{} -> {:?} {}",
                    src,
                    k,
                    m
                ),
                None => {}
            }
        }
        // __index chains
        let o = run("local t = {} for i = 1, 3000 do t = setmetatable({}, {__index = t}) end return t.x");
        assert!(o.err.unwrap().1.contains("'__index' chain too long; possibly a loop"));
        let o = run("local t = {v = 1} for i = 1, 1000 do t = setmetatable({}, {__index = t}) end print(t.v)");
        assert_eq!(o.out, "1\n");
        // long data structures are torn down without recursion
        let o = run_with("local l for i = 1, 1000000 do l = {next = l} end print('built')", 1_000_000_000, 180);
        assert_eq!(o.out, "built\n");
        let o = run_with("local f for i = 1, 1000000 do local g = f f = function() return g end end print('built')", 1_000_000_000, 180);
        assert_eq!(o.out, "built\n");
        let o = run_with("local t = {} t.t = t local u = setmetatable({}, {__index = t}) t.u = u print('cyc')", 1000, 180);
        assert_eq!(o.out, "cyc\n");
    });
}
