use super::Exp::{self, *};

pub static CASES: &[(&str, Exp)] = &[
    // ----- closures and fresh locals ---------------------------------------------
    (
        "local fs = {}\nfor i = 1, 3 do fs[i] = function() return i end end\nprint(fs[1](), fs[2](), fs[3]())",
        Out("1\t2\t3\n"),
    ),
    (
        "local fs = {}; local i = 1\nwhile i <= 3 do local j = i; fs[i] = function() j = j + 1; return j end; i = i + 1 end\nprint(fs[1](), fs[1](), fs[2]())",
        Out("2\t3\t3\n"),
    ),
    // a backward goto to a label at the top of a while body gives fresh locals
    (
        "local fs = {}; local n = 0
while true do
  ::top::
  local x = n
  n = n + 1
  fs[n] = function() x = x + 10; return x end
  if n < 3 then goto top end
  break
end
print(fs[1](), fs[2](), fs[3](), fs[1]())",
        Out("10\t11\t12\t20\n"),
    ),
    (
        "local fs = {}
for _, v in ipairs({10, 20}) do fs[#fs + 1] = function() return v end end
print(fs[1](), fs[2]())",
        Out("10\t20\n"),
    ),
    (
        "local fs = {}
local i = 0
repeat local k = i * 2; fs[#fs + 1] = function() return k end; i = i + 1 until i == 3
print(fs[1](), fs[2](), fs[3]())",
        Out("0\t2\t4\n"),
    ),
    (
        "local function counter() local c = 0; return function() c = c + 1; return c end, function() return c end end
local inc, get = counter()
inc() inc()
local inc2, get2 = counter()
inc2()
print(get(), get2())",
        Out("2\t1\n"),
    ),
    (
        "local a = 1
local function f() local function g() local function h() a = a + 1; return a end return h end return g end
print(f()()(), f()()(), a)",
        Out("2\t3\t3\n"),
    ),
    ("local function f() return f end print(f() == f)", Out("true\n")),
    ("local f = function() return f end print(f())", Out("nil\n")),
    (
        "local function fact(n) if n <= 1 then return 1 end return n * fact(n - 1) end print(fact(10), fact(20), fact(21))",
        Out("3628800\t2432902008176640000\t-4249290049419214848\n"),
    ),
    (
        "local even, odd
function even(n) if n == 0 then return true end return odd(n - 1) end
function odd(n) if n == 0 then return false end return even(n - 1) end
print(even(10), odd(7), even(7))",
        Out("true\ttrue\tfalse\n"),
    ),
    ("local x = 1; do local x = 2; print(x) end print(x)", Out("2\n1\n")),
    ("local x = 1; local x = x + 1; print(x)", Out("2\n")),
    ("local a <const> = 1", LoadErr("unexpected symbol near '<'")), // 5.4 syntax is an error in 5.3
    ("x = 5; local function f() return x end; local x = 6; print(f(), x)", Out("5\t6\n")),
    // parameters captured
    ("local function mk(a) return function(b) a = a + b; return a end end local f = mk(10) print(f(1), f(2))", Out("11\t13\n")),
    // ----- varargs / multiple results ---------------------------------------------
    ("local function f(...) return select('#', ...), ... end print(f()) print(f(nil, nil)) print(f(1, 2, 3))", Out("0\n2\tnil\tnil\n3\t1\t2\t3\n")),
    ("local function f(...) local a, b = ... return a, b end print(f(1)) print(f(1, 2, 3))", Out("1\tnil\n1\t2\n")),
    ("local function f(...) return {...}, {..., 'x'}, {'x', ...} end local a, b, c = f(1, 2, 3) print(#a, #b, #c)", Out("3\t2\t4\n")),
    ("local function f(...) return (...) end print(f(1, 2, 3)) print((f(1, 2)))", Out("1\n1\n")),
    ("local function f(a, b, ...) local x, y = ... return a, b, x, y end print(f(1))", Out("1\tnil\tnil\tnil\n")),
    ("local function g() return 1, 2, 3 end print(g(), g()) print((g())) print(g(), 10) print({g()}[3], #{g(), g()})", LoadErr("')' expected near '['")),
    ("local function g() return 1, 2, 3 end print(g(), g()) print((g())) print(g(), 10) print(#{g(), g()}, #{(g())})", Out("1\t1\t2\t3\n1\n1\t10\n4\t1\n")),
    ("local function g() return 1, 2, 3 end local a, b, c, d = g() print(a, b, c, d) local e, f = (g()) print(e, f) local h = g() print(h)", Out("1\t2\t3\tnil\n1\tnil\n1\n")),
    ("local function none() end print(none()) print((none())) local a = none() print(a) print(type(none()))", Err("bad argument #1 to 'type' (value expected)")),
    ("print(select('#'), select('#', nil), select(2, 'a', 'b', 'c'), select(-1, 'a', 'b', 'c'))", Out("0\t1\tb\tc\n")),
    ("print(select(4, 1, 2, 3))", Out("\n")),
    ("print(select(0, 1))", Err("bad argument #1 to 'select' (index out of range)")),
    ("print(select(-5, 1))", Err("bad argument #1 to 'select' (index out of range)")),
    ("print((select('#', table.unpack({1, nil, 3}))))", Out("3\n")),
    ("function f() return ... end", LoadErr("cannot use '...' outside a vararg function near '...'")),
    ("print(...)", Out("\n")),
    // ----- assignment ---------------------------------------------------------------------
    ("local a, b = 1 print(a, b) a, b = b, a print(a, b) local c, d = 1, 2, 3 print(c, d)", Out("1\tnil\nnil\t1\n1\t2\n")),
    ("local i = 1; local t = {}; i, t[i] = i + 1, 20; print(i, t[1], t[2])", Out("2\t20\tnil\n")),
    ("local a, b, c = 0, 0, 0; a, b, c = 1, (function() return 2, 3 end)() print(a, b, c)", Out("1\t2\t3\n")),
    ("local x, y = 1, 2; x, y = y, x; print(x, y)", Out("2\t1\n")),
    ("a, b = 1, 2 print(a, b, _G.a, _G[\"b\"]) _G.c = 3 print(c)", Out("1\t2\t1\t2\n3\n")),
    ("local t = {} t.x, t.y = 1, 2 print(t.x, t.y) t.a = {} t.a.b = 5 print(t.a.b, t[\"a\"][\"b\"])", Out("1\t2\n5\t5\n")),
    ("local t = {}; local function f() t.z = 9 return 1 end t.x = f() print(t.x, t.z)", Out("1\t9\n")),
    // local operands are register references: they are read when the instruction executes
    ("local i = 1 local function f() i = 20 return 7 end print(i + f()) i = 1 print(f() + i) i = 1 print(i .. f()) i = 1 print(i < f(), i == f())", Out("27\n27\n17\nfalse\tfalse\n")),
    ("local t = {1} local function g() t = {2} return 1 end print(t[g()])", Out("2\n")),
    ("local t1, t2 = {}, {} local tt = t1 local function h() tt = t2 return 'v' end tt.x = h() print(t1.x, t2.x)", Out("nil\tv\n")),
    ("local k = 'a' local function h() k = 'b' return 1 end local u = {} u[k] = h() print(u.a, u.b)", Out("nil\t1\n")),
    ("local i = 1; local t = {}; t[i], i = 20, i + 1; print(i, t[1], t[2])", Out("2\t20\tnil\n")),
    ("gt = {1} local function g() gt = {2} return 1 end print(gt[g()])", Out("1\n")),
    // ----- numeric for ---------------------------------------------------------------------
    ("for i = 1, 3 do io.write(i, ' ') end for i = 3, 1, -1 do io.write(i, ' ') end for i = 1, 0 do io.write('x') end print()", Out("1 2 3 3 2 1 \n")),
    ("for i = 1, 2, 0.5 do io.write(i, ' ') end for i = 1.0, 3 do io.write(i, ' ') end for i = 1, 3.5 do io.write(i, ' ') end print()", Out("1.0 1.5 2.0 1.0 2.0 3.0 1 2 3 \n")),
    ("for i = 1, 3 do local j = i; i = 10; io.write(j, ' ') end print()", Out("1 2 3 \n")),
    ("for i = \"1\", 2 do io.write(i, ' ') end print()", Out("1.0 2.0 \n")),
    ("for i = 1, \"x\" do end", Err("'for' limit must be a number")),
    ("for i = \"x\", 1 do end", Err("'for' initial value must be a number")),
    ("for i = 1, 2, {} do end", Err("'for' step must be a number")),
    ("for i = 1, nil do end", Err("stdin:1: 'for' limit must be a number")),
    // 5.3 integer loops wrap around at maxinteger (5.4 made them overflow-safe)
    ("local c = 0; for i = math.maxinteger - 1, math.maxinteger do c = c + 1; if c > 5 then break end end print(c)", Out("6\n")),
    ("local c = 0; for i = math.mininteger, math.mininteger + 2 do c = c + 1 end print(c)", Out("3\n")),
    ("local c = 0; for i = 1, math.huge do c = c + 1; if c == 5 then break end end print(c)", Out("5\n")),
    ("local c = 0; for i = 1, -math.huge do c = c + 1 end for i = math.mininteger, -math.huge do c = c + 1 end print(c)", Out("0\n")),
    ("local c = 0; for i = 10, 1, -3 do c = c + i end print(c)", Out("22\n")),
    ("for i = 0.1, 0.35, 0.1 do io.write(i, ' ') end print()", Out("0.1 0.2 0.3 \n")),
    ("for i = 1, 3 do local x = i * 2 if x == 4 then break end io.write(x, ' ') end print()", Out("2 \n")),
    // ----- generic for -------------------------------------------------------------------------
    ("local t = {x=1, 10, y=2, 20}; for k,v in pairs(t) do io.write(tostring(k),'=',tostring(v),' ') end print()", Out("1=10 2=20 x=1 y=2 \n")),
    ("for i,v in ipairs({1,2,nil,4}) do io.write(i,' ') end print()", Out("1 2 \n")),
    ("local function range(n) local i = 0 return function() i = i + 1 if i <= n then return i end end end for v in range(3) do io.write(v, ' ') end print()", Out("1 2 3 \n")),
    ("local function it(s, c) if c < s then return c + 1, c * c end end for a, b in it, 3, 0 do io.write(a, ':', b, ' ') end print()", Out("1:0 2:1 3:4 \n")),
    ("for k, v in next, {5} do print(k, v) end", Out("1\t5\n")),
    ("for a, b, c in (function() return nil end) do print('never') end print('ok')", Out("ok\n")),
    ("for k in pairs(nil) do end", Err("bad argument #1 to 'for iterator' (table expected, got nil)")),
    ("for k in 5 do end", Err("attempt to call a number value")),
    ("local t = {1,2,3,a=1,b=2}; for k in pairs(t) do t[k] = nil end; print(next(t))", Out("nil\n")),
    ("local t = {a=1,b=2,c=3}; for k, v in pairs(t) do t[k] = v * 2 end print(t.a, t.b, t.c)", Out("2\t4\t6\n")),
    ("local t = setmetatable({}, {__call = function(self, s, c) if c < 2 then return c + 1 end end}) for i in t, nil, 0 do io.write(i, ' ') end print()", Out("1 2 \n")),
    // ----- while / repeat / break / goto -----------------------------------------------------------
    ("local i = 0; repeat local d = i >= 3; i = i + 1 until d; print(i)", Out("4\n")),
    ("local i = 0 while i < 10 do i = i + 1 if i == 5 then break end end print(i)", Out("5\n")),
    ("for i = 1, 3 do for j = 1, 3 do if j == 2 then break end io.write(i, j, ' ') end end print()", Out("11 21 31 \n")),
    ("for i = 1, 5 do\n  if i % 2 == 0 then goto continue end\n  io.write(i, ' ')\n  ::continue::\nend print()", Out("1 3 5 \n")),
    // label at the end of the block: locals declared in between are out of scope
    ("for i = 1, 3 do\n  if i == 2 then goto continue end\n  local x = i * 2\n  io.write(x, ' ')\n  ::continue::\nend print()", Out("2 6 \n")),
    ("for i = 1, 3 do\n  if i == 2 then goto continue end\n  local x = i * 2\n  ::continue:: ;;\n  ::other::\nend print('ok')", Out("ok\n")),
    ("for i = 1, 3 do\n  if i == 2 then goto continue end\n  local x = i * 2\n  ::continue::\n  io.write(x)\nend", LoadErr("<goto continue> at line 2 jumps into the scope of local 'x'")),
    ("repeat\n  if c then goto continue end\n  local x = 1\n  ::continue::\nuntil true", LoadErr("jumps into the scope of local 'x'")),
    ("do goto l1 end ::l1:: print('a') do goto l2 end print('skipped') ::l2:: print('b')", Out("a\nb\n")),
    ("local i = 1 ::top:: if i <= 3 then io.write(i, ' ') i = i + 1 goto top end print()", Out("1 2 3 \n")),
    ("for i = 1, 3 do for j = 1, 3 do if i * j == 4 then goto out end end end ::out:: print('out')", Out("out\n")),
    ("goto l; do ::l:: end", LoadErr("no visible label 'l' for <goto> at line 1")),
    ("::l:: local function f() goto l end", LoadErr("no visible label 'l' for <goto> at line 1")),
    ("goto nope", LoadErr("no visible label 'nope' for <goto> at line 1")),
    ("::a:: ::a::", LoadErr("label 'a' already defined on line 1")),
    ("::a::\nprint(1)\n::a::", LoadErr("label 'a' already defined on line 1")),
    // 5.3: a nested block may reuse the name of a visible label (illegal only since 5.4)
    ("::a:: do ::a:: end print('ok')", Out("ok\n")),
    ("do ::a:: end do ::a:: end ::a:: print('ok')", Out("ok\n")),
    ("goto f; local x; ::f:: print(x)", LoadErr("<goto f> at line 1 jumps into the scope of local 'x'")),
    ("do goto f; local x; ::f:: end print('ok')", Out("ok\n")),
    ("break", LoadErr("<break> at line 1 not inside a loop")),
    ("\n\nif x then break end", LoadErr("<break> at line 3 not inside a loop")),
    ("function f() break end", LoadErr("<break> at line 1 not inside a loop")),
    ("while true do local function f() break end end", LoadErr("not inside a loop")),
    ("while true do break end repeat break until true for i=1,2 do break end for k in pairs({}) do break end print('ok')", Out("ok\n")),
    ("while true do if true then break end end print('ok')", Out("ok\n")),
    ("local n = 0 while true do n = n + 1 do do break end end end print(n)", Out("1\n")),
    ("if x then goto done end print('a') ::done:: print('b')", Out("a\nb\n")),
    ("local i = 0 repeat i = i + 1 if i < 3 then goto cont end do break end ::cont:: until false print(i)", Out("3\n")),
    ("if nil then print(1) elseif false then print(2) elseif 0 then print(3) else print(4) end", Out("3\n")),
    ("if false then elseif nil then else print('else') end", Out("else\n")),
    ("do return end print('unreachable')", Out("")),
    ("return 1, 2", Out("")),
    ("local function f() do return 1 end end print(f())", Out("1\n")),
    ("local function f() return end print(f())", Out("\n")),
    // ----- calls -------------------------------------------------------------------------------------
    ("print \"hi\" print [[x]] print(type{}) print(#{1,2,3}) print((\"x\"):rep(2), (\"ab\"):upper())", Out("hi\nx\ntable\n3\nxx\tAB\n")),
    ("local t = {n = 0} function t:inc(d) self.n = self.n + (d or 1) return self end t:inc():inc(5) print(t.n)", Out("6\n")),
    ("local t = {a = {b = {}}} function t.a.b.f(x) return x * 2 end function t.a.b:m(x) return self == t.a.b, x end print(t.a.b.f(4), t.a.b:m(7))", Out("8\ttrue\t7\n")),
    ("local function f(a, b) return a, b end print(f(1, 2, 3)) print(f(1))", Out("1\t2\n1\tnil\n")),
    ("local s = 0 local function add(x) s = s + x return add end add(1)(2)(3) print(s)", Out("6\n")),
    ("print((function(...) return select('#', ...) end)(1, nil, nil))", Out("3\n")),
    // proper tail calls do not consume call depth
    ("local function loop(n) if n == 0 then return 'done' end return loop(n - 1) end print(loop(100000))", Out("done\n")),
    ("local function f(n) if n == 0 then return 0 end return 1 + f(n - 1) end print(f(100))", Out("100\n")),
    ("local function f(n) return 1 + f(n + 1) end f(1)", Err("stack overflow")),
    ("local function f(n) return 1 + f(n + 1) end print(pcall(f, 1))", Out("false\tstdin:1: stack overflow\n")),
    ("local t = setmetatable({}, {__tostring = function(s) return tostring(s) end}) local ok, m = pcall(tostring, t) print(ok, m:find('stack overflow') ~= nil)", Out("false\ttrue\n")),
    ("local t = setmetatable({}, {__index = function(t, k) return t[k] end}) local ok, m = pcall(function() return t.x end) print(ok, m:find('stack overflow') ~= nil)", Out("false\ttrue\n")),
    ("local function f() return pcall(f) end local r = {f()} print(r[1], r[#r - 1], tostring(r[#r]):find('stack overflow') ~= nil)", Out("true\tfalse\ttrue\n")),
    ("local t = {} t.__index = t setmetatable(t, t) print(pcall(function() return t.x end))", Out("false\tstdin:1: '__index' chain too long; possibly a loop\n")),
    ("local t = {} t.__newindex = t setmetatable(t, t) print(pcall(function() t.x = 1 end))", Out("false\tstdin:1: '__newindex' chain too long; possibly a loop\n")),
];
