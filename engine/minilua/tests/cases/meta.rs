use super::Exp::{self, *};

pub static CASES: &[(&str, Exp)] = &[
    // ----- tables -------------------------------------------------------------------------------
    ("local t = {1,2,nil,4}; print(#t)", Out("4\n")),
    ("local t = {1,2,3} table.insert(t, 2, 'x') print(#t, t[1], t[2], t[3], t[4])", Out("4\t1\tx\t2\t3\n")),
    ("local t = {} table.insert(t, 'a') table.insert(t, 'b') print(#t, t[1], t[2], t[#t])", Out("2\ta\tb\tb\n")),
    ("local t = {1,2,3}; table.insert(t, 1, 0); table.insert(t, 5, 9); print(table.concat(t, ','))", Out("0,1,2,3,9\n")),
    ("local t = {1,2,3} table.insert(t, 7, 1)", Err("bad argument #2 to 'insert' (position out of bounds)")),
    ("local t = {1,2,3} table.insert(t, 0, 1)", Err("bad argument #2 to 'insert' (position out of bounds)")),
    ("table.insert({})", Err("wrong number of arguments to 'insert'")),
    ("table.insert({}, 1, 2, 3)", Err("wrong number of arguments to 'insert'")),
    ("table.insert(nil, 1)", Err("bad argument #1 to 'insert' (table expected, got nil)")),
    ("local ins = table.insert ins(nil, 1)", Err("bad argument #1 to 'ins' (table expected, got nil)")),
    ("table.insert({}, 'x', 1)", Err("bad argument #2 to 'insert' (number expected, got string)")),
    ("table.insert({}, 1.5, 1)", Err("bad argument #2 to 'insert' (number has no integer representation)")),
    ("print(table.remove({1,2,3}), table.remove({1,2,3}, 1), table.remove({}), table.remove({}, 0))", Out("3\t1\tnil\tnil\n")),
    ("table.remove({1,2,3}, 5)", Err("position out of bounds")),
    ("local t = {1,2,3,4}; print(table.remove(t, 2), table.concat(t, ','), #t)", Out("2\t1,3,4\t3\n")),
    ("local t = {1,2,3} print(table.remove(t, 4), #t) print(table.remove(t, 3), #t)", Out("nil\t3\n3\t2\n")),
    ("print(table.unpack({1,2,3})) print(table.unpack({1,2,3}, 2)) print(table.unpack({1,2,3}, 2, 5)) print(table.unpack({}, 1, 0))", Out("1\t2\t3\n2\t3\n2\t3\tnil\tnil\n\n")),
    ("local p = table.pack(1,nil,3); print(p.n, p[1], p[2], p[3]) print(table.pack().n)", Out("3\t1\tnil\t3\n0\n")),
    ("print(table.concat({}), table.concat({1,2.5,'x'}, '-'), table.concat({1,2,3}, ',', 2, 3), table.concat({1,2,3}, ',', 3, 2))", Out("\t1-2.5-x\t2,3\t\n")),
    ("table.concat({1,{},3})", Err("invalid value (at index 2) in table for 'concat'")),
    ("local t = {3,1,2}; table.sort(t); print(table.concat(t, ' ')) table.sort(t, function(a,b) return a > b end) print(table.concat(t, ' '))", Out("1 2 3\n3 2 1\n")),
    ("local t = {'b','c','a'} table.sort(t) print(table.concat(t)) local u = {} table.sort(u) print(#u)", Out("abc\n0\n")),
    ("local t = {} for i = 1, 100 do t[i] = (i * 37) % 101 end table.sort(t) local ok = true for i = 2, 100 do ok = ok and t[i-1] <= t[i] end print(ok, t[1], t[100])", Out("true\t1\t100\n")),
    ("table.sort({1,'x'})", Err("attempt to compare")),
    ("table.sort({3,2,1}, 5)", Err("bad argument #2 to 'sort' (function expected, got number)")),
    ("print(next({}), next({10})) print(next({10}, 1))", Out("nil\t1\t10\nnil\n")),
    ("print(next({}, 'x'))", Err("invalid key to 'next'")),
    ("local t = {} t[nil] = 1", Err("table index is nil")),
    ("local t = {} t[0/0] = 1", Err("table index is NaN")),
    ("local t = {[nil] = 1}", Err("table index is nil")),
    ("print(({})[nil], ({})[0/0])", Out("nil\tnil\n")),
    ("local t = {}; t[1.0] = 'a'; t[2] = 'b'; print(t[1], t[2.0], #t, next(t)) t[2^53] = 'c' print(t[9007199254740992], math.type(next(t, 2)))", Out("a\tb\t2\t1\ta\nc\tinteger\n")),
    ("local t = {[1]='x', 'y'}; print(t[1]) local u = {f = 1, ['g h'] = 2, [3] = 3; 4} print(u.f, u['g h'], u[3], u[1], #u)", Out("y\n1\t2\t3\t4\t1\n")),
    ("local function f() return 1,2,3 end print(#{f()}, #{(f())}, #{f(), 10}, #{f(), f()})", Out("3\t1\t2\t4\n")),
    ("local t = {x = 1, x = 2, [1] = 'a', [1] = 'b'} print(t.x, t[1])", Out("2\tb\n")),
    ("local t = {10,20,30} t[#t] = nil print(#t) t[#t + 1] = 'x' print(#t, t[3]) t[5] = 5 print(#t) t[4] = 4 print(#t)", Out("2\n3\tx\n3\n5\n")),
    ("local t = {} t[3] = 3 t[2] = 2 print(#t) t[1] = 1 print(#t)", Out("0\n3\n")),
    ("local t = {1,2,3} t[2] = nil print(#t, t[3]) t[3] = nil print(#t)", Out("3\t3\n1\n")),
    ("print(rawlen({1,2}), rawlen('abc'), rawequal('a', 'a'), rawequal({}, {}), rawget({5}, 1))", Out("2\t3\ttrue\tfalse\t5\n")),
    ("rawlen(5)", Err("table or string expected")),
    ("local t = {} t.a = 1 t.b = 2 t.a = nil t.c = 3 for k in pairs(t) do io.write(k) end print() t.a = 4 for k in pairs(t) do io.write(k) end print()", Out("bc\nabc\n")),
    ("local t = {} for i = 1, 100 do t['k' .. i] = i end for i = 1, 100, 2 do t['k' .. i] = nil end local n, s = 0, 0 for k, v in pairs(t) do n = n + 1 s = s + v end print(n, s, t.k2, t.k1)", Out("50\t2550\t2\tnil\n")),
    ("local t = {true, false, nil, 0} print(#t, t[2], t[4]) local k = {} t[k] = 'tk' t[print] = 'fn' t[true] = 'b' t[1.5] = 'f' print(t[k], t[print], t[true], t[1.5])", Out("4\tfalse\t0\ntk\tfn\tb\tf\n")),
    // ----- __index / __newindex ------------------------------------------------------------------------
    ("local base = {x = 1} local t = setmetatable({}, {__index = base}) print(t.x, t.y, rawget(t, 'x'))", Out("1\tnil\tnil\n")),
    ("local t = setmetatable({}, {__index = function(t, k) return k .. '!' end}) print(t.a, t[1], rawget(t, 'a'))", Out("a!\t1!\tnil\n")),
    ("local a = {v = 'a'} local b = setmetatable({}, {__index = a}) local c = setmetatable({}, {__index = b}) print(c.v)", Out("a\n")),
    ("local log = {} local t = setmetatable({}, {__newindex = function(t, k, v) rawset(t, k, v * 2) end}) t.x = 1 t.x = 5 print(t.x)", Out("5\n")),
    ("local store = {} local t = setmetatable({}, {__newindex = store}) t.x = 1 print(rawget(t, 'x'), store.x)", Out("nil\t1\n")),
    ("local t = setmetatable({x = 0}, {__newindex = function() error('ro') end}) t.x = 1 print(t.x) print(pcall(function() t.y = 1 end))", Out("1\nfalse\tstdin:1: ro\n")),
    ("local t = {} t.__index = t setmetatable(t, t) t.foo = 1 print(t.foo, rawget(t, '__index') == t)", Out("1\ttrue\n")),
    ("Account = {} Account.__index = Account function Account.new(b) return setmetatable({b = b}, Account) end function Account:dep(v) self.b = self.b + v end local a = Account.new(1) a:dep(2) print(a.b, getmetatable(a) == Account)", Out("3\ttrue\n")),
    ("print(getmetatable('x').__index == string, ('x'):len(), getmetatable(1), getmetatable(nil), getmetatable(print))", Out("true\t1\tnil\tnil\tnil\n")),
    // ----- __call ------------------------------------------------------------------------------------------
    ("local c = setmetatable({}, {__call = function(self, a, b) return a + b, self end}) local r, s = c(1, 2) print(r, s == c)", Out("3\ttrue\n")),
    ("setmetatable({}, {__call = 1})()", Err("attempt to call a table value")),
    ("local t = {} t()", Err("attempt to call a table value (local 't')")),
    ("local c = setmetatable({}, {__call = function(self, ...) return select('#', ...) end}) print(c(), c(nil), pcall(c, 1, 2))", Out("0\t1\ttrue\t2\n")),
    // ----- __eq -----------------------------------------------------------------------------------------------
    ("local mt = {__eq = function() return 1 end} local a, b = setmetatable({}, mt), setmetatable({}, mt) print(a == b, a ~= b, a == 1, rawequal(a, b), a == a)", Out("true\tfalse\tfalse\tfalse\ttrue\n")),
    ("local a = setmetatable({}, {__eq = function() return true end}) local b = setmetatable({}, {__eq = function() return false end}) print(a == b, b == a)", Out("true\tfalse\n")),
    ("local a = {} local b = setmetatable({}, {__eq = function(x, y) return rawequal(x, a) or rawequal(y, a) end}) print(a == b, b == a, a == {})", Out("true\ttrue\tfalse\n")),
    ("local n = 0 local mt = {__eq = function() n = n + 1 return nil end} local a, b = setmetatable({}, mt), setmetatable({}, mt) print(a == b, a ~= b, n) print(a == 'x', n)", Out("false\ttrue\t2\nfalse\t2\n")),
    // ----- __lt / __le -------------------------------------------------------------------------------------------------
    ("local mt = {__lt = function(a, b) return a.v < b.v end} local a, b = setmetatable({v=1}, mt), setmetatable({v=2}, mt) print(a < b, a <= b, a > b, a >= b, b <= a)", Out("true\ttrue\tfalse\tfalse\tfalse\n")),
    ("local mt = {__lt = function(a, b) return 'yes' end, __le = function(a, b) return nil end} local a = setmetatable({}, mt) print(a < 1, 1 < a, a <= 1, 1 >= a, a < 'x')", Out("true\ttrue\tfalse\tfalse\ttrue\n")),
    ("local a = setmetatable({}, {__le = function() return true end}) print(a <= a, pcall(function() return a < a end))", Out("true\tfalse\tstdin:1: attempt to compare two table values\n")),
    ("local log = {} local mt = {__lt = function(a, b) log[#log + 1] = (a == 1 and 'n' or 't') .. (b == 1 and 'n' or 't') return true end} local a = setmetatable({}, mt) local _ = a < 1, 1 < a, a > 1, a >= 1 print(table.concat(log, ' '))", Out("tn nt nt tn\n")),
    // ----- arithmetic metamethods --------------------------------------------------------------------------------------------
    (
        "local mt = {} for _, n in ipairs{'add','sub','mul','div','mod','pow','idiv','band','bor','bxor','shl','shr','concat'} do mt['__' .. n] = function(a, b) return n end end
mt.__unm = function(a) return 'unm' end mt.__bnot = function(a) return 'bnot' end mt.__len = function(a) return 'len' end
local o = setmetatable({}, mt)
print(o + 1, o - 1, o * 1, o / 1, o % 1, o ^ 1, o // 1, o & 1, o | 1, o ~ 1, o << 1, o >> 1, o .. 1, -o, ~o, #o)
print(1 + o, 1 - o, 1 * o, 1 / o, 1 % o, 1 ^ o, 1 // o, 1 & o, 1 | o, 1 ~ o, 1 << o, 1 >> o, 1 .. o, 'x' .. o)",
        Out("add\tsub\tmul\tdiv\tmod\tpow\tidiv\tband\tbor\tbxor\tshl\tshr\tconcat\tunm\tbnot\tlen\nadd\tsub\tmul\tdiv\tmod\tpow\tidiv\tband\tbor\tbxor\tshl\tshr\tconcat\tconcat\n"),
    ),
    ("local a = setmetatable({}, {__add = function() return 'a' end}) local b = setmetatable({}, {__add = function() return 'b' end}) print(a + b, b + a, a + 1, 1 + b)", Out("a\tb\ta\tb\n")),
    ("local V = {} V.__index = V V.__add = function(a, b) return setmetatable({x = a.x + b.x}, V) end V.__tostring = function(v) return 'V(' .. v.x .. ')' end local v = setmetatable({x=1}, V) + setmetatable({x=2}, V) print(v, tostring(v), v.x)", Out("V(3)\tV(3)\t3\n")),
    ("local o = setmetatable({}, {__concat = function(a, b) return (type(a) == 'table' and 'T' or a) .. (type(b) == 'table' and 'T' or b) end}) print(o .. 'x', 'x' .. o, 'a' .. 'b' .. o, o .. 'a' .. 'b', 1 .. o)", Out("Tx\txT\tabT\tTab\t1T\n")),
    ("local o = setmetatable({}, {__add = function(a, b) return 1, 2 end}) print(o + o, (o + o))", Out("1\t1\n")),
    ("local o = setmetatable({}, {__sub = function() return 1 end}) print(pcall(function() return o + 1 end))", Out("false\tstdin:1: attempt to perform arithmetic on a table value (upvalue 'o')\n")),
    ("local o = setmetatable({}, {__len = function() return 42 end}) print(#o, rawlen(o))", Out("42\t0\n")),
    ("local o = setmetatable({}, {__index = function(t, i) if i <= 3 then return i * 10 end end}) for i, v in ipairs(o) do io.write(i, '=', v, ' ') end print()", Out("1=10 2=20 3=30 \n")),
    // ----- __tostring / __metatable / __pairs / misc ------------------------------------------------------------------------------------
    ("local o = setmetatable({}, {__tostring = function() return 'OBJ' end}) print(o) print(tostring(o), ('%s'):format(o)) io.write(tostring(o), '\\n')", Out("OBJ\nOBJ\tOBJ\nOBJ\n")),
    ("local o = setmetatable({}, {__tostring = function() return 1 end}) print(pcall(tostring, o)) print(pcall(print, o))", Out("false\t'__tostring' must return a string\nfalse\t'__tostring' must return a string\n")),
    ("local o = setmetatable({}, {__metatable = 'locked'}) print(getmetatable(o)) print(pcall(setmetatable, o, {}))", Out("locked\nfalse\tcannot change a protected metatable\n")),
    ("local o = setmetatable({}, {__pairs = function(t) return function(_, k) if not k then return 1, 'one' end end, t, nil end}) for k, v in pairs(o) do print(k, v) end", Out("1\tone\n")),
    ("local o = setmetatable({}, {__gc = function() end, __mode = 'k', __name = 'My'}) print(type(o), tostring(o):match('^table: ') ~= nil)", Out("table\ttrue\n")),
    ("print(setmetatable({}, nil) ~= nil) print(pcall(setmetatable, {}, 1)) print(pcall(setmetatable, 1, {})) print(pcall(setmetatable, {}))", Out("true\nfalse\tbad argument #2 to 'setmetatable' (nil or table expected)\nfalse\tbad argument #1 to 'setmetatable' (table expected, got number)\nfalse\tbad argument #2 to 'setmetatable' (nil or table expected)\n")),
    ("local t = {} print(setmetatable(t, {}) == t, getmetatable(setmetatable(t, nil)))", Out("true\tnil\n")),
    ("local t = setmetatable({}, {__index = function(t, k) error('no field ' .. k, 2) end}) print(pcall(function() return t.zz end))", Out("false\tstdin:1: no field zz\n")),
    // the Sylt preamble shapes
    ("local M = {_type = 'tuple'} M.__newindex = function() assert(false, 'Tuples are immutable') end M.__eq = function(a, b) for x = 1, #a do if not (a[x] == b[x]) then return false end end return true end
local function T(o) return setmetatable(o, M) end
print(T{1, 2} == T{1, 2}, T{1, 2} == T{1, 3}, T{1, 2} ~= T{1, 2}, T{T{1}, 2} == T{T{1}, 2})
print(pcall(function() local t = T{1} t[2] = 5 end))
local t = T{1, 2} t[1] = 9 print(t[1])",
        Out("true\tfalse\tfalse\ttrue\nfalse\tstdin:1: Tuples are immutable\n9\n")),
];
