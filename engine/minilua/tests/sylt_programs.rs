//! End-to-end: every program of the Sylt repository's own test-suite, compiled
//! by the real compiler, must behave under MiniLua as the repository's harness
//! (`/repo/sylt/src/test.rs`) expects from `lua`.

use std::path::{Path, PathBuf};
use std::process::Command;

const REPO: &str = "/repo";

fn run_repo_program_tests(compat: bool) -> (usize, usize, Vec<String>, String) {
    let lua = PathBuf::from(env!("CARGO_BIN_EXE_lua"));
    let dir = lua.parent().unwrap().to_path_buf();
    let path = format!("{}:{}", dir.display(), std::env::var("PATH").unwrap_or_default());
    let mut cmd = Command::new("cargo");
    cmd.args(["test", "--offline", "-p", "sylt", "program_tests", "--", "--nocapture"])
        .current_dir(REPO)
        .env("PATH", path)
        .env_remove("MINILUA_COMPAT_5_2")
        .env_remove("RUSTFLAGS")
        .env_remove("CARGO_TARGET_DIR");
    if compat {
        cmd.env("MINILUA_COMPAT_5_2", "1");
    }
    let out = cmd.output().expect("cargo must be runnable");
    let text = format!("{}{}", String::from_utf8_lossy(&out.stdout), String::from_utf8_lossy(&out.stderr));
    let mut passed = 0;
    let mut total = 0;
    let mut failed = Vec::new();
    let mut in_failed = false;
    for line in text.lines() {
        let t = line.trim();
        if t.starts_with("SUMMARY") {
            // SUMMARY 313/315      2 failed
            let frac = t.split_whitespace().nth(1).unwrap_or("0/0");
            let mut it = frac.split('/');
            passed = it.next().and_then(|x| x.parse().ok()).unwrap_or(0);
            total = it.next().and_then(|x| x.parse().ok()).unwrap_or(0);
            in_failed = false;
        } else if t.starts_with("Failed tests:") {
            in_failed = true;
        } else if in_failed {
            if t.is_empty() {
                in_failed = false;
            } else {
                failed.push(t.to_string());
            }
        }
    }
    failed.sort();
    (passed, total, failed, text)
}

#[test]
fn repo_program_tests_with_minilua_as_lua() {
    // Plain Lua 5.3 (no LUA_COMPAT_*): exactly the two programs that need the
    // deprecated math.pow / math.atan2 fail, with "attempt to call a nil value".
    let (passed, total, failed, text) = run_repo_program_tests(false);
    assert!(total >= 300, "harness output not understood:\n{}", text);
    assert_eq!(failed, ["tests/sylt_std/angle.sy", "tests/sylt_std/pow.sy"], "\n{}", text);
    assert_eq!(passed + 2, total);
    assert!(text.contains("attempt to call a nil value (local 'V"), "{}", text);
    assert!(text.contains("attempt to call a nil value (field 'atan2')"), "{}", text);
    // With what a stock `make linux` / Debian lua5.3 (-DLUA_COMPAT_5_2) provides, all pass.
    let (passed, total, failed, text) = run_repo_program_tests(true);
    assert!(total >= 300, "harness output not understood:\n{}", text);
    assert!(failed.is_empty(), "{:?}\n{}", failed, text);
    assert_eq!(passed, total);
    println!("repo program_tests: plain 5.3: {}/{}; with LUA_COMPAT_5_2 functions: {}/{}", total - 2, total, passed, total);
}

fn collect(dir: &Path, out: &mut Vec<PathBuf>) {
    let mut entries: Vec<_> = std::fs::read_dir(dir).unwrap().map(|e| e.unwrap().path()).collect();
    entries.sort();
    for p in entries {
        let name = p.file_name().unwrap().to_str().unwrap().to_string();
        if name.starts_with('_') {
            continue;
        }
        if p.is_dir() {
            collect(&p, out);
        } else if name.ends_with(".sy") {
            out.push(p);
        }
    }
}

/// The same programs through the library API (load + run in-process).
#[test]
fn repo_programs_through_the_library() {
    let sylt = Path::new(REPO).join("target/debug/sylt");
    assert!(sylt.exists(), "{} missing: run `cd /repo && cargo build --offline`", sylt.display());
    let mut files = Vec::new();
    collect(&Path::new(REPO).join("tests"), &mut files);
    assert!(files.len() >= 300);
    let files = std::sync::Arc::new(files);
    let next = std::sync::Arc::new(std::sync::atomic::AtomicUsize::new(0));
    let mut handles = Vec::new();
    for _ in 0..8 {
        let files = files.clone();
        let next = next.clone();
        let sylt = sylt.clone();
        handles.push(
            std::thread::Builder::new()
                .stack_size(256 << 20)
                .spawn(move || {
                    let mut report = Vec::new();
                    let mut ran = 0;
                    loop {
                        let i = next.fetch_add(1, std::sync::atomic::Ordering::SeqCst);
                        if i >= files.len() {
                            break;
                        }
                        let f = &files[i];
                        let rel = f.strip_prefix(REPO).unwrap().to_str().unwrap().to_string();
                        let text = std::fs::read_to_string(f).unwrap();
                        let expects: Vec<&str> =
                            text.lines().filter_map(|l| l.strip_prefix("// error:")).map(|l| l.trim()).collect();
                        // `#` = runtime error; any other text is matched against the Debug/Display of
                        // the error (so `// error: Runtime` also means a runtime error)
                        let expect_runtime =
                            expects.iter().any(|e| e.starts_with('#') || (!e.is_empty() && "RuntimeError".contains(e)));
                        let out = Command::new(&sylt).args(["-o", "-", &rel]).current_dir(REPO).output().unwrap();
                        if !out.status.success() {
                            // compile-time failure: nothing to run (must be an expected one)
                            if expects.is_empty() {
                                report.push(format!("{}: unexpected compile failure", rel));
                            }
                            continue;
                        }
                        ran += 1;
                        let chunk = match minilua::load(&out.stdout, "stdin") {
                            Ok(c) => c,
                            Err(e) => {
                                report.push(format!("{}: does not load: stdin:{}: {}", rel, e.line, e.msg));
                                continue;
                            }
                        };
                        let mut lua = minilua::Lua::new();
                        lua.enable_compat_5_2();
                        lua.set_budget(2_000_000_000);
                        let r = lua.run(&chunk);
                        match (r, expect_runtime) {
                            (Ok(()), false) => {}
                            (Err(e), true) if e.kind == minilua::ErrorKind::Runtime => {}
                            (Ok(()), true) => report.push(format!("{}: expected a runtime error", rel)),
                            (Err(e), _) => report.push(format!("{}: {:?}: {}", rel, e.kind, e.msg)),
                        }
                    }
                    (ran, report)
                })
                .unwrap(),
        );
    }
    let mut ran = 0;
    let mut report = Vec::new();
    for h in handles {
        let (r, rep) = h.join().unwrap();
        ran += r;
        report.extend(rep);
    }
    assert!(report.is_empty(), "{}", report.join("\n"));
    assert!(ran >= 200, "only {} programs were run", ran);
    println!("{} compiled programs ran as expected through the library", ran);
}
