//! Micro-benchmark. Run with:
//! cargo test --release --offline -p minilua --test bench -- --ignored --nocapture
use std::process::Command;
use std::time::Instant;

fn compile(path: &str, nostd: bool) -> Option<Vec<u8>> {
    let mut args = vec!["-o", "-"];
    if nostd {
        args.push("--no-std");
    }
    args.push(path);
    let out = Command::new("/repo/target/debug/sylt").args(&args).current_dir("/repo").output().ok()?;
    if !out.status.success() || out.stdout.is_empty() {
        return None;
    }
    Some(out.stdout)
}

#[test]
#[ignore]
fn bench() {
    let handle = std::thread::Builder::new().stack_size(256 << 20).spawn(|| {
        let preamble = std::fs::read("/repo/sylt-compiler/src/preamble.lua").expect("preamble");
        let t = Instant::now();
        let n = 200;
        for _ in 0..n {
            minilua::load(&preamble, "preamble").unwrap();
        }
        println!("load(preamble):                 {:8.1} us", t.elapsed().as_secs_f64() * 1e6 / n as f64);
        let pc = minilua::load(&preamble, "preamble").unwrap();
        let n = 20000;
        let t = Instant::now();
        for _ in 0..n {
            let l = minilua::Lua::new();
            std::hint::black_box(&l);
        }
        println!("Lua::new():                     {:8.1} us", t.elapsed().as_secs_f64() * 1e6 / n as f64);
        let t = Instant::now();
        for _ in 0..n {
            let mut l = minilua::Lua::new();
            l.run(&pc).unwrap();
        }
        println!("Lua::new() + run(preamble):     {:8.1} us", t.elapsed().as_secs_f64() * 1e6 / n as f64);

        for (f, nostd) in [
            ("tests/closures/close_over_mutation.sy", true),
            ("tests/closures/close_over_mutation.sy", false),
            ("tests/looping/nested.sy", false),
            ("tests/bench/fib_iter.sy", false),
            ("tests/bench/fib.sy", false),
        ] {
            let Some(full) = compile(f, nostd) else {
                println!("{}: could not compile", f);
                continue;
            };
            // the compiler emits preamble + program; split them like the harness does
            assert!(full.starts_with(&preamble));
            let prog = &full[preamble.len()..];
            let t = Instant::now();
            let chunk = minilua::load(prog, "stdin").unwrap();
            let tl = t.elapsed().as_secs_f64() * 1e6;
            let big = f.contains("bench/");
            let reps = if big { 5 } else { 5000 };
            let t = Instant::now();
            let mut used = 0;
            for _ in 0..reps {
                let mut l = minilua::Lua::new();
                l.set_budget(2_000_000_000);
                l.run(&pc).unwrap();
                let before = l.instructions_used();
                l.run(&chunk).unwrap();
                used = l.instructions_used() - before;
            }
            let total = t.elapsed().as_secs_f64() * 1e6 / reps as f64;
            println!(
                "{:40}{:8} load(program) {:7.1} us, new+preamble+program {:10.1} us ({} instr in program)",
                f,
                if nostd { "--no-std" } else { "" },
                tl,
                total,
                used
            );
        }
    });
    handle.unwrap().join().unwrap();
}
