#![allow(dead_code)]
//! Shared helpers for the conformance tests.

pub enum Exp {
    /// exact stdout
    Out(&'static str),
    /// runtime error whose message contains the text
    Err(&'static str),
    /// load error whose message contains the text
    LoadErr(&'static str),
    /// loads (not executed)
    Loads,
}

pub struct Outcome {
    pub out: String,
    pub err: Option<(minilua::ErrorKind, String)>,
    pub load_err: Option<String>,
}

pub fn run_with(src: &str, budget: u64, depth: usize) -> Outcome {
    match minilua::load(src.as_bytes(), "stdin") {
        Err(e) => Outcome { out: String::new(), err: None, load_err: Some(format!("stdin:{}: {}", e.line, e.msg)) },
        Ok(chunk) => {
            let mut lua = minilua::Lua::new();
            lua.set_budget(budget);
            lua.set_max_call_depth(depth);
            let r = lua.run(&chunk);
            let out = String::from_utf8_lossy(&lua.take_output()).into_owned();
            Outcome { out, err: r.err().map(|e| (e.kind, e.msg)), load_err: None }
        }
    }
}

pub fn run(src: &str) -> Outcome {
    run_with(src, 50_000_000, 180)
}

/// Runs all cases on a big-stack thread; returns the number of cases.
pub fn check_all(name: &'static str, cases: &'static [(&'static str, Exp)]) -> usize {
    let h = std::thread::Builder::new()
        .stack_size(128 << 20)
        .spawn(move || {
            let mut failures = Vec::new();
            for (i, (src, exp)) in cases.iter().enumerate() {
                let o = run(src);
                let ok = match exp {
                    Exp::Out(want) => o.load_err.is_none() && o.err.is_none() && o.out == *want,
                    Exp::Err(want) => match &o.err {
                        Some((_, m)) => m.contains(want),
                        None => false,
                    },
                    Exp::LoadErr(want) => match &o.load_err {
                        Some(m) => m.contains(want),
                        None => false,
                    },
                    Exp::Loads => o.load_err.is_none(),
                };
                if !ok {
                    let want = match exp {
                        Exp::Out(w) => format!("output {:?}", w),
                        Exp::Err(w) => format!("runtime error containing {:?}", w),
                        Exp::LoadErr(w) => format!("load error containing {:?}", w),
                        Exp::Loads => "successful load".to_string(),
                    };
                    failures.push(format!(
                        "[{} #{}]\n--- source:\n{}\n--- wanted: {}\n--- got: out={:?} err={:?} load_err={:?}\n",
                        name, i, src, want, o.out, o.err, o.load_err
                    ));
                }
            }
            if !failures.is_empty() {
                panic!("{} of {} cases failed:\n{}", failures.len(), cases.len(), failures.join("\n"));
            }
            cases.len()
        })
        .unwrap();
    h.join().unwrap()
}
