//! Conformance corpus: snippets with the output / error text derived from the
//! Lua 5.3 reference manual (and, for wording, the 5.3.6 sources).

mod common;
use common::Exp::{self, *};
use common::*;

#[path = "cases/control.rs"]
mod cases_control;
#[path = "cases/lib.rs"]
mod cases_lib;
#[path = "cases/meta.rs"]
mod cases_meta;
#[path = "cases/syntax.rs"]
mod cases_syntax;

static NUMBERS: &[(&str, Exp)] = &[
    // --- seeds
    (
        "print(1, 1.0, -0.0, 1e15, 1e16, 2^53, 10/2, 7//2, 7.0//2, 7%3, -7%3, 7%-3, 1/0, -1/0)",
        Out("1\t1.0\t-0.0\t1e+15\t1e+16\t9.007199254741e+15\t5.0\t3\t3.0\t1\t2\t-2\tinf\t-inf\n"),
    ),
    (
        "print(math.maxinteger + 1 == math.mininteger, 0.1 + 0.2, 100000000000000, 1e100, 2.0000000000018)",
        Out("true\t0.3\t100000000000000\t1e+100\t2.0000000000018\n"),
    ),
    ("print(9223372036854775807, 9223372036854775808)", Out("9223372036854775807\t9.2233720368548e+18\n")),
    // NOTE: in Lua 5.3 (manual 3.4.1, lvm.c luaV_tonumber_) arithmetic on a numeric
    // *string* converts it to a float: "10" + 1 is 11.0 (it is 11 only since 5.4)
    (
        r#"print(1 == 1.0, 1 < 1.5, "a" < "b", "10" + 1, "10" .. 1, 1.0 .. "")"#,
        Out("true\ttrue\ttrue\t11.0\t101\t1.0\n"),
    ),
    ("print(math.floor(1.5), math.floor(-1.5), math.floor(1e100))", Out("1\t-2\t1e+100\n")),
    ("print(math.modf(3.7))", Out("3.0\t0.7\n")),
    ("print(math.abs(-2))", Out("2\n")),
    ("print(7 // 0)", Err("attempt to perform 'n//0'")),
    ("print(7 % 0)", Err("attempt to perform 'n%0'")),
    // --- integer / float arithmetic
    (
        "print(3 / 2, 3 // 2, 3.0 // 2, -3 // 2, 3 % -2, -3 % 2, 3.5 % 2, -3.5 % 2, 5 % 3.0)",
        Out("1.5\t1\t1.0\t-2\t-1\t1\t1.5\t0.5\t2.0\n"),
    ),
    ("print(2^10, 2^0.5, 10 // 0.0, -10 // 0.0)", Out("1024.0\t1.4142135623731\tinf\t-inf\n")),
    ("print(math.pi, -math.pi)", Out("3.1415926535898\t-3.1415926535898\n")),
    ("print(1e15, 1e14, 1e13, 123456789012345678)", Out("1e+15\t1e+14\t10000000000000.0\t123456789012345678\n")),
    ("print(0.1, 1/3, -1/3, 100/3)", Out("0.1\t0.33333333333333\t-0.33333333333333\t33.333333333333\n")),
    ("print(1e300*1e10, -1e300*1e10)", Out("inf\t-inf\n")),
    ("print(2^63, -2^63, math.tointeger(2^53))", Out("9.2233720368548e+18\t-9.2233720368548e+18\t9007199254740992\n")),
    (
        "print(math.maxinteger // -1, math.mininteger // -1, math.mininteger % -1)",
        Out("-9223372036854775807\t-9223372036854775808\t0\n"),
    ),
    ("print(1 // 1, 1.0 // 1, 2^2, 8 // 3 * 3 + 8 % 3)", Out("1\t1.0\t4.0\t8\n")),
    ("print(math.maxinteger * 2, math.mininteger - 1 == math.maxinteger)", Out("-2\ttrue\n")),
    ("print(1e308 * 10 == math.huge, -0.0 == 0.0, 1/0 > math.maxinteger)", Out("true\ttrue\ttrue\n")),
    ("print(0/0 == 0/0, 0/0 ~= 0/0)", Out("false\ttrue\n")),
    // sign of NaN as printed by glibc printf on x86-64
    ("print(0/0, -(0/0))", Out("-nan\tnan\n")),
    ("local z = 0 print(z/z, math.huge - math.huge, math.huge * 0)", Out("-nan\t-nan\t-nan\n")),
    (
        "print(3 | 4, 7 & 2, 5 ~ 1, ~0, 1 << 62, 1 << 63, 1 << 64, -1 >> 1, 2^53 | 0)",
        Out("7\t2\t4\t-1\t4611686018427387904\t-9223372036854775808\t0\t9223372036854775807\t9007199254740992\n"),
    ),
    ("print(1 << -1, 2 >> -1, 1 >> 64, -1 >> 63, -1 << 63)", Out("0\t4\t0\t1\t-9223372036854775808\n")),
    ("print(1.5 | 0)", Err("number has no integer representation")),
    ("local x = 1.5 print(x | 0)", Err("number (local 'x') has no integer representation")),
    ("print(\"a\" | 0)", Err("attempt to perform bitwise operation on a string value")),
    ("print({} & 1)", Err("attempt to perform bitwise operation on a table value")),
    ("print(\"3\" | 0, \"0x10\" + 0, \"1e1\" + 0, \" 10 \" + 0, \"0x10\" | 0)", Out("3\t16.0\t10.0\t10.0\t16\n")),
    ("print(-\"2\", -\"2.5\", - \"0x10\")", Out("-2.0\t-2.5\t-16.0\n")),
    ("print(10 == \"10\", \"abc\" < \"abd\", \"\" < \"a\", \"a\" < \"A\", \"Z\" < \"a\")", Out("false\ttrue\ttrue\tfalse\ttrue\n")),
    ("print(1 < 2, 2 <= 2, 3 > 2, 3 >= 4, 1 ~= 1.0)", Out("true\ttrue\ttrue\tfalse\tfalse\n")),
    (
        "print(math.maxinteger < math.huge, math.maxinteger + 0.0 == 2^63, math.maxinteger < 2^63, math.mininteger <= -2^63)",
        Out("true\ttrue\ttrue\ttrue\n"),
    ),
    ("print(2^53 == 2^53 + 1, math.tointeger(2^53) + 1 == 2^53 + 1)", Out("true\tfalse\n")),
    ("print(1 < 1.5, 2 > 1.5, 1 <= 1.0, -1 < -0.5, math.mininteger < -2^63, math.mininteger <= -2^63)", Out("true\ttrue\ttrue\ttrue\tfalse\ttrue\n")),
    ("print(0.0, -0.0, 0/1, -0/1)", Out("0.0\t-0.0\t0.0\t0.0\n")),
    ("print(3 == 3.0000000000000001, 1e2 == 100, 255 == 0xff)", Out("true\ttrue\ttrue\n")),
    // --- precedence
    ("print(2 + 3 * 4 ^ 2 / 2)", Out("26.0\n")),
    ("print(-2 ^ 2, 2 ^ 3 ^ 2, 2 ^ -1)", Out("-4.0\t512.0\t0.5\n")),
    ("print(not 1 == 2, not nil, not 0)", Out("false\ttrue\tfalse\n")),
    ("print(1 .. 2 == \"12\", 1 + 2 .. 3 + 4)", Out("true\t37\n")),
    ("print(1 < 2 == true, 1 | 2 ~ 3 & 4, 1 << 2 + 1, 6 & 3 << 1)", Out("true\t3\t8\t6\n")),
    ("print(\"a\" .. \"b\" == \"ab\" and 1 or 2, #\"abc\" + 1, - - 2, 2 * 3 % 4, 7 // 2 * 2)", Out("1\t4\t2\t2\t6\n")),
    ("print(nil or \"d\", false and 1, 1 and 2, nil and nil, false or nil)", Out("d\tfalse\t2\tnil\tnil\n")),
    ("print(1 or error(\"no\"), nil and error(\"no\"))", Out("1\tnil\n")),
    ("print(2^2^3 == 256, (2^2)^3 == 64, -3^2 == -9, 2 - -2, 1 - - - 1)", Out("true\ttrue\ttrue\t4\t0\n")),
    ("print(1 .. 2 .. 3, \"a\" .. 1 + 2)", Out("123\ta3\n")),
    // --- numerals
    (
        "print(0x10, 0xA.8p0, 0x.1p4, 1e2, 1E+2, .5, 5., 3e-2, 0xffffffffffffffff, 0x7fffffffffffffff + 1 == math.mininteger)",
        Out("16\t10.5\t1.0\t100.0\t100.0\t0.5\t5.0\t0.03\t-1\ttrue\n"),
    ),
    ("print(0xA, 0Xa, 0x1p-1, 0x10p1, 1e0, 0e0, 00012, 1e-7, 123456.789e3)", Out("10\t10\t0.5\t32.0\t1.0\t0.0\t12\t1e-07\t123456789.0\n")),
    ("print(0x1ffffffffffffffff)", Out("-1\n")),
    (
        "print(9223372036854775807 + 0, 9223372036854775808 == 2^63, -9223372036854775808 == math.mininteger, math.type(-9223372036854775808))",
        Out("9223372036854775807\ttrue\ttrue\tfloat\n"),
    ),
    (
        "print(math.type(1), math.type(1.0), math.type(\"1\"), math.type(2^31), math.type(1//1), math.type(1/1), math.type(3 % 2.0))",
        Out("integer\tfloat\tnil\tfloat\tinteger\tfloat\tfloat\n"),
    ),
    ("print(1e15 == 10^15, tostring(10^15), 2^31, 2^31 | 0)", Out("true\t1e+15\t2147483648.0\t2147483648\n")),
    ("print(1e308, 1e309, -1e309, 5e-324, 2e-324, 1e-400)", Out("1e+308\tinf\t-inf\t4.9406564584125e-324\t0.0\t0.0\n")),
    ("print(123456789012.0, 12345678901234.0, 123456789012345.0, 0.1 + 0.7, 1 - 0.9)", Out("123456789012.0\t12345678901234.0\t1.2345678901234e+14\t0.8\t0.1\n")),
    ("x = 1e", LoadErr("malformed number near '1e'")),
    ("x = 1..2", LoadErr("malformed number near '1..2'")),
    ("x = 0x", LoadErr("malformed number near '0x'")),
    ("x = 3a", LoadErr("malformed number near '3a'")),
    ("x = 1.2.3", LoadErr("malformed number near '1.2.3'")),
    ("x = 0x1p", LoadErr("malformed number near '0x1p'")),
    ("x = 1e+", LoadErr("malformed number near '1e+'")),
    ("a=1b=2", LoadErr("malformed number near '1b'")),
    // 5.3 lexes `3x` as the numeral 3 followed by the name x (5.4 rejects it as malformed)
    ("x = 3x", LoadErr("syntax error near <eof>")),
    ("x = 3 x = 4 print(x)", Out("4\n")),
    // --- tonumber / tostring
    (
        "print(tonumber(\"10\"), tonumber(\"10.0\"), tonumber(\"0x10\"), tonumber(\"  5  \"), tonumber(\"5x\"), tonumber(\"\"), tonumber(\"1e1\"), tonumber(nil))",
        Out("10\t10.0\t16\t5\tnil\tnil\t10.0\tnil\n"),
    ),
    ("tonumber()", Err("bad argument #1 to 'tonumber' (value expected)")),
    ("print(tonumber(\"ff\", 16), tonumber(\"zz\", 36), tonumber(\"8\", 8), tonumber(\"-101\", 2), tonumber(\"1.0\", 10), tonumber(\" 7 \", 8))", Out("255\t1295\tnil\t-5\tnil\t7\n")),
    ("print(tonumber(\"inf\"), tonumber(\"nan\"), tonumber(\"0x\"), tonumber(\"1 2\"), tonumber(\"1e\"), tonumber({}), tonumber(true))", Out("nil\tnil\tnil\tnil\tnil\tnil\tnil\n")),
    ("print(tonumber(\"10\", 99))", Err("bad argument #2 to 'tonumber' (base out of range)")),
    ("print(tonumber(10, 10))", Err("bad argument #1 to 'tonumber' (string expected, got number)")),
    ("print(tonumber(\"9223372036854775807\"), tonumber(\"9223372036854775808\"), tonumber(\"-9223372036854775808\"))", Out("9223372036854775807\t9.2233720368548e+18\t-9223372036854775808\n")),
    ("print(math.tointeger(3.0), math.tointeger(3.5), math.tointeger(\"8\"), math.tointeger({}))", Out("3\tnil\t8\tnil\n")),
    ("print(tostring(nil), tostring(true), tostring(12), tostring(1.5), tostring(\"s\"), tostring(-0.0), tostring(1e100))", Out("nil\ttrue\t12\t1.5\ts\t-0.0\t1e+100\n")),
    ("print(tostring(print):match(\"^function: \") ~= nil, tostring({}):match(\"^table: \") ~= nil)", Out("true\ttrue\n")),
    ("print(1 .. \"\", 1.0 .. \"\", -0.0 .. \"\", 2^63 .. \"\", 1e15 .. \"|\" .. 10 // 1)", Out("1\t1.0\t-0.0\t9.2233720368548e+18\t1e+15|10\n")),
];

static STRINGS: &[(&str, Exp)] = &[
    (r#"print("\65\066\x43\u{44}")"#, Out("ABCD\n")),
    ("print(\"a\\\nb\")", Out("a\nb\n")),
    ("print(\"x\\z   \n     y\")", Out("xy\n")),
    (r#"print(#"\0ab", ("\0ab"):byte(1), "\a\b\f\n\r\t\v\\\"\'" == "\7\8\12\10\13\9\11\92\34\39")"#, Out("3\t0\ttrue\n")),
    (r#"print("\u{7FF}" == "\xDF\xBF", "\u{10FFFF}" == "\xF4\x8F\xBF\xBF", "\u{0}" == "\0", "\u{20AC}" == "\xE2\x82\xAC")"#, Out("true\ttrue\ttrue\ttrue\n")),
    (r#"x = "\u{110000}""#, LoadErr("UTF-8 value too large")),
    ("print([[a\nb]], [==[x]]y]==])", Out("a\nb\tx]]y\n")),
    ("print([[\nhi]], #[[\n\n]], [[a\\nb]])", Out("hi\t1\ta\\nb\n")),
    ("print([[a\r\nb]] == \"a\\nb\", [[a\rb]] == \"a\\nb\")", Out("true\ttrue\n")),
    (r#"print('single "dq"', "dq 'sq'", 'it\'s')"#, Out("single \"dq\"\tdq 'sq'\tit's\n")),
    ("--[[ long\ncomment ]] print(1) --[==[ ]] ]==] print(2) -- tail", Out("1\n2\n")),
    ("--[ not long\nprint(3) --[=[ x ]=]print(4)", Out("3\n4\n")),
    (r#"print("\q")"#, LoadErr("invalid escape sequence")),
    (r#"print("abc\q")"#, LoadErr("near '\"abc\\q'")),
    ("print(\"abc", LoadErr("unfinished string near <eof>")),
    ("print(\"abc\nx\")", LoadErr("unfinished string near '\"abc'")),
    ("x = 'abc\n'", LoadErr("unfinished string")),
    (r#"x = "\300""#, LoadErr("decimal escape too large")),
    (r#"x = "\xZZ""#, LoadErr("hexadecimal digit expected")),
    (r#"x = "\x4""#, LoadErr("hexadecimal digit expected")),
    (r#"x = "\u{}""#, LoadErr("hexadecimal digit expected")),
    (r#"x = "\u123""#, LoadErr("missing '{' in \\u{xxxx}")),
    (r#"x = "\u{12""#, LoadErr("missing '}' in \\u{xxxx}")),
    ("x = \"a\\", LoadErr("unfinished string near <eof>")),
    ("x = [==[ abc", LoadErr("unfinished long string (starting at line 1) near <eof>")),
    ("\n\nx = [[ abc\n\n", LoadErr("unfinished long string (starting at line 3)")),
    ("--[[ abc", LoadErr("unfinished long comment (starting at line 1) near <eof>")),
    ("x = [=abc", LoadErr("invalid long string delimiter near '[='")),
    (r#"print("\1234" == "\123" .. "4", "\0010" == "\1" .. "0", "\x414" == "A4")"#, Out("true\ttrue\ttrue\n")),
    (r#"print(#"\z", "a\z
         \z
         b")"#, Out("0\tab\n")),
    // raw bytes inside strings are kept
    ("print(#\"\u{e9}\", #\"\t\")", Out("2\t1\n")),
    // string basics
    ("print(#\"abc\", type((\"abc\").len), (\"abc\").x, #\"\")", Out("3\tfunction\tnil\t0\n")),
    ("print(\"abc\" == \"abc\", \"abc\" ~= \"abd\", \"a\" .. \"b\" == \"ab\", \"a\\0b\" == \"a\\0c\", \"a\\0b\" < \"a\\0c\")", Out("true\ttrue\ttrue\tfalse\ttrue\n")),
    ("print((\"x\").y.z)", Err("attempt to index a nil value (field 'y')")),
    ("print((5).x)", Err("attempt to index a number value")),
    ("local n = 5 print(n.x)", Err("attempt to index a number value (local 'n')")),
    ("print(#5)", Err("attempt to get length of a number value")),
    ("print(\"a\" + 1)", Err("attempt to perform arithmetic on a string value")),
    ("local s = \"a\" print(s + 1)", Err("attempt to perform arithmetic on a string value (local 's')")),
    ("local a, b = \"x\", nil print(a + b)", Err("attempt to perform arithmetic on a string value (local 'a')")),
    ("local a, b = 1, nil print(a + b)", Err("attempt to perform arithmetic on a nil value (local 'b')")),
    ("print(1 < \"2\")", Err("attempt to compare number with string")),
    ("print(\"a\" < 1)", Err("attempt to compare string with number")),
    ("print({} < {})", Err("attempt to compare two table values")),
    ("print(nil < 1)", Err("attempt to compare nil with number")),
    ("print({} <= 1)", Err("attempt to compare table with number")),
    ("print(print > print)", Err("attempt to compare two function values")),
    ("print(true >= false)", Err("attempt to compare two boolean values")),
    ("print(\"a\" .. nil)", Err("attempt to concatenate a nil value")),
    ("local x print(\"a\" .. x)", Err("attempt to concatenate a nil value (local 'x')")),
    ("print(\"a\" .. {})", Err("attempt to concatenate a table value")),
    ("print(zz .. \"a\")", Err("attempt to concatenate a nil value (global 'zz')")),
    ("local t = {} print(t.f .. \"a\")", Err("attempt to concatenate a nil value (field 'f')")),
    ("print(true .. \"\")", Err("attempt to concatenate a boolean value")),
    ("print(-{})", Err("attempt to perform arithmetic on a table value")),
    ("print(-nil)", Err("attempt to perform arithmetic on a nil value")),
    ("print(nil + 1)", Err("attempt to perform arithmetic on a nil value")),
    ("print(gg + 1)", Err("attempt to perform arithmetic on a nil value (global 'gg')")),
    ("local t = {} print(t.a.b)", Err("attempt to index a nil value (field 'a')")),
    ("local t = {} print(t[1][2])", Err("attempt to index a nil value (field '?')")),
    ("local t = {} t.x.y = 1", Err("attempt to index a nil value (field 'x')")),
    ("nil()", LoadErr("unexpected symbol near 'nil'")),
    ("local x x()", Err("attempt to call a nil value (local 'x')")),
    ("V12()", Err("stdin:1: attempt to call a nil value (global 'V12')")),
    ("local t = {} t.f()", Err("attempt to call a nil value (field 'f')")),
    ("local t = {} t:m()", Err("attempt to call a nil value (method 'm')")),
    ("local t = {} t[1]()", Err("attempt to call a nil value (field '?')")),
    ("local u local function f() return u.x end f()", Err("attempt to index a nil value (upvalue 'u')")),
    ("local u local function f() u() end f()", Err("attempt to call a nil value (upvalue 'u')")),
    ("local s = \"a\" s()", Err("attempt to call a string value (local 's')")),
    ("(nil).x = 1", Err("attempt to index a nil value")),
    ("local a = nil; a.x = 1", Err("attempt to index a nil value (local 'a')")),
    ("\n\nlocal a\nprint(a.b)", Err("stdin:4: attempt to index a nil value (local 'a')")),
    ("(\"x\"):nope()", Err("attempt to call a nil value (method 'nope')")),
    ("local o o:m()", Err("attempt to index a nil value (local 'o')")),
];

#[test]
fn numbers() {
    check_all("numbers", NUMBERS);
}

#[test]
fn strings() {
    check_all("strings", STRINGS);
}

#[test]
fn control() {
    check_all("control", cases_control::CASES);
}

#[test]
fn meta() {
    check_all("meta", cases_meta::CASES);
}

#[test]
fn lib() {
    check_all("lib", cases_lib::CASES);
}

#[test]
fn syntax() {
    check_all("syntax", cases_syntax::CASES);
}

#[test]
fn corpus_size() {
    let n = NUMBERS.len()
        + STRINGS.len()
        + cases_control::CASES.len()
        + cases_meta::CASES.len()
        + cases_lib::CASES.len()
        + cases_syntax::CASES.len();
    println!("conformance corpus: {} snippets", n);
    assert!(n >= 250, "corpus has only {} snippets", n);
}
