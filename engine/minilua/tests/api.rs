//! Public API behaviour: budget, depth, output, persistence, require, analysis helpers.

use minilua::{load, ErrorKind, Lua};

#[test]
fn output_and_persistence() {
    let mut lua = Lua::new();
    let a = load(b"x = 41 function inc() x = x + 1 return x end print('a')", "a").unwrap();
    let b = load(b"print(inc(), x) io.write('no newline')", "b").unwrap();
    lua.run(&a).unwrap();
    assert_eq!(lua.take_output(), b"a\n");
    assert_eq!(lua.take_output(), b"");
    lua.run(&b).unwrap();
    assert_eq!(lua.take_output(), b"42\t42\nno newline");
    // the same chunk can be run again, in this and in other states
    lua.run(&b).unwrap();
    assert_eq!(lua.take_output(), b"43\t43\nno newline");
    let mut other = Lua::new();
    let e = other.run(&b).unwrap_err();
    assert_eq!(e.kind, ErrorKind::Runtime);
    assert_eq!(e.msg, "b:1: attempt to call a nil value (global 'inc')");
    assert!(e.value_is_string);
    assert!(lua.global_names_assigned().contains(&"inc".to_string()));
    assert!(!other.global_names_assigned().contains(&"inc".to_string()));
}

#[test]
fn output_is_kept_up_to_the_error() {
    let mut lua = Lua::new();
    let c = load(b"print(1) print(2) error('x') print(3)", "stdin").unwrap();
    let e = lua.run(&c).unwrap_err();
    assert_eq!(e.msg, "stdin:1: x");
    assert_eq!(lua.take_output(), b"1\n2\n");
    // the state stays usable
    let c = load(b"print('again')", "stdin").unwrap();
    lua.run(&c).unwrap();
    assert_eq!(lua.take_output(), b"again\n");
}

#[test]
fn error_values() {
    let mut lua = Lua::new();
    let e = lua.run(&load(b"error({})", "s").unwrap()).unwrap_err();
    assert!(!e.value_is_string);
    assert_eq!(e.msg, "(error object is a table value)");
    let e = lua.run(&load(b"error(setmetatable({}, {__tostring = function() return 'TS' end}))", "s").unwrap()).unwrap_err();
    assert!(!e.value_is_string);
    assert_eq!(e.msg, "TS");
    let e = lua.run(&load(b"error()", "s").unwrap()).unwrap_err();
    assert_eq!(e.msg, "(error object is a nil value)");
    let e = lua.run(&load(b"error(12)", "s").unwrap()).unwrap_err();
    assert_eq!(e.msg, "12");
    let e = lua.run(&load(b"\nassert(false, 'Assert failed!')", "stdin").unwrap()).unwrap_err();
    assert!(e.msg.ends_with("Assert failed!"), "{}", e.msg);
    let e = lua.run(&load(b"os.exit(3)", "s").unwrap()).unwrap_err();
    assert_eq!(e.kind, ErrorKind::Exit);
    assert_eq!(e.exit_code, 3);
    let e = lua.run(&load(b"pcall(os.exit, true)", "s").unwrap()).unwrap_err();
    assert_eq!((e.kind, e.exit_code), (ErrorKind::Exit, 0));
}

#[test]
fn budget_and_counting() {
    let mut lua = Lua::new();
    let c = load(b"local s = 0 for i = 1, 100 do s = s + i end", "s").unwrap();
    lua.run(&c).unwrap();
    let used = lua.instructions_used();
    assert!(used > 300 && used < 2000, "{}", used);
    lua.run(&c).unwrap();
    assert_eq!(lua.instructions_used(), 2 * used);
    // the budget is a total over the life of the state
    lua.set_budget(2 * used + used / 2);
    let e = lua.run(&c).unwrap_err();
    assert_eq!(e.kind, ErrorKind::Budget);
    let mut lua = Lua::new();
    lua.set_budget(100_000);
    let e = lua.run(&load(b"while true do end", "s").unwrap()).unwrap_err();
    assert_eq!(e.kind, ErrorKind::Budget);
    assert!(lua.instructions_used() >= 100_000);
}

#[test]
fn depth_limit() {
    std::thread::Builder::new()
        .stack_size(256 << 20)
        .spawn(|| {
            let c = load(b"local function f(n) if n == 0 then return 0 end return 1 + f(n - 1) end print(f(N))", "s").unwrap();
            let mut lua = Lua::new();
            lua.run(&load(b"N = 170", "s").unwrap()).unwrap();
            lua.run(&c).unwrap();
            assert_eq!(lua.take_output(), b"170\n");
            lua.run(&load(b"N = 200", "s").unwrap()).unwrap();
            let e = lua.run(&c).unwrap_err();
            assert_eq!(e.kind, ErrorKind::StackOverflow);
            assert!(e.msg.contains("stack overflow"));
            lua.set_max_call_depth(100_000);
            lua.set_native_stack_limit(200 << 20);
            lua.run(&load(b"N = 50000", "s").unwrap()).unwrap();
            lua.run(&c).unwrap();
            assert_eq!(lua.take_output(), b"50000\n");
            // the native-stack guard turns exhaustion into an error as well
            lua.set_native_stack_limit(8 << 20);
            lua.run(&load(b"N = 90000", "s").unwrap()).unwrap();
            let e = lua.run(&c).unwrap_err();
            assert_eq!(e.kind, ErrorKind::StackOverflow);
        })
        .unwrap()
        .join()
        .unwrap();
}

#[test]
fn require_handler() {
    let mut lua = Lua::new();
    let c = load(b"require \"M\"local function f() end print(require 'M', package.loaded.M)", "stdin").unwrap();
    let e = lua.run(&c).unwrap_err();
    assert!(e.msg.starts_with("stdin:1: module 'M' not found:"), "{}", e.msg);
    let seen = std::rc::Rc::new(std::cell::RefCell::new(Vec::new()));
    let s2 = seen.clone();
    lua.set_require_handler(Box::new(move |name| {
        s2.borrow_mut().push(name.to_string());
        if name == "bad" {
            Err("no such thing".to_string())
        } else {
            Ok(())
        }
    }));
    lua.run(&c).unwrap();
    assert_eq!(lua.take_output(), b"true\ttrue\n");
    assert_eq!(*seen.borrow(), vec!["M".to_string()]);
    let e = lua.run(&load(b"require 'bad'", "stdin").unwrap()).unwrap_err();
    assert_eq!(e.msg, "stdin:1: no such thing");
}

#[test]
fn analysis_helpers() {
    let src = b"local a, b = 1, 2
g1 = a
function g2() local x, y, z; g3 = h1 + h2; return function() g1 = g1 + 1 end end
t.field = 1
for i = 1, 2 do local q end
u, v = v, w
print(g1)";
    let c = load(src, "s").unwrap();
    assert_eq!(c.function_count(), 3);
    let mut w = c.free_names_assigned();
    w.sort();
    assert_eq!(w, ["g1", "g2", "g3", "u", "v"]);
    let mut r = c.free_names_read();
    r.sort();
    assert_eq!(r, ["g1", "h1", "h2", "print", "t", "v", "w"]);
    // a, b + (3 hidden + i) + q
    assert_eq!(c.max_active_locals(), 7);
    assert_eq!(c.name(), "s");
    let c = load(b"V1 = 1 local V2 = V3", "=stdin").unwrap();
    assert_eq!(c.name(), "stdin");
    assert_eq!(c.free_names_assigned(), ["V1"]);
    assert_eq!(c.free_names_read(), ["V3"]);
}

#[test]
fn load_error_shape() {
    let e = load(b"x = 1\ny = = 2", "stdin").err().unwrap();
    assert_eq!(e.line, 2);
    assert_eq!(e.msg, "unexpected symbol near '='");
    let e = load(b"break", "stdin").err().unwrap();
    assert_eq!((e.line, e.msg.as_str()), (1, "<break> at line 1 not inside a loop"));
    let e = load(b"goto L1", "stdin").err().unwrap();
    assert_eq!(e.msg, "no visible label 'L1' for <goto> at line 1");
    let e = load(b"x = \"a\\qb\"", "stdin").err().unwrap();
    assert_eq!(e.msg, "invalid escape sequence near '\"a\\q'");
    let e = load(b"x = \"abc\ndef\"", "stdin").err().unwrap();
    assert_eq!(e.msg, "unfinished string near '\"abc'");
    let e = load(b"x = 1e", "stdin").err().unwrap();
    assert_eq!(e.msg, "malformed number near '1e'");
}

#[test]
fn chunks_are_shareable_between_threads() {
    let c = load(b"local s = 0 for i = 1, 1000 do s = s + i end print(s)", "s").unwrap();
    let hs: Vec<_> = (0..8)
        .map(|_| {
            let c = c.clone();
            std::thread::spawn(move || {
                for _ in 0..50 {
                    let mut lua = Lua::new();
                    lua.run(&c).unwrap();
                    assert_eq!(lua.take_output(), b"500500\n");
                }
            })
        })
        .collect();
    for h in hs {
        h.join().unwrap();
    }
}

#[test]
fn deterministic_between_states() {
    let src = b"local t = {} for i = 1, 20 do t[#t + 1] = math.random(100) end
local d = {z = 1, a = 2, m = 3, [10] = 4, [true] = 5}
for k, v in pairs(d) do t[#t + 1] = tostring(k) .. '=' .. v end
print(table.concat(t, ' '))";
    let c = load(src, "s").unwrap();
    let mut outs = Vec::new();
    for _ in 0..3 {
        let mut lua = Lua::new();
        lua.run(&c).unwrap();
        outs.push(lua.take_output());
    }
    assert_eq!(outs[0], outs[1]);
    assert_eq!(outs[1], outs[2]);
    let s = String::from_utf8(outs[0].clone()).unwrap();
    assert!(s.trim_end().ends_with("z=1 a=2 m=3 10=4 true=5"), "{}", s);
}

#[test]
fn compat_mode() {
    let c = load(b"print(math.pow, math.atan2, unpack)", "s").unwrap();
    let mut lua = Lua::new();
    lua.run(&c).unwrap();
    assert_eq!(lua.take_output(), b"nil\tnil\tnil\n");
    lua.enable_compat_5_2();
    let c = load(b"print(math.pow(2, 10), math.atan2(1, 1) == math.atan(1, 1), unpack, math.log10(1000), math.ldexp(1, 4), (math.frexp(8)), math.cosh(0)) print(math.frexp(8))", "s").unwrap();
    lua.run(&c).unwrap();
    assert_eq!(lua.take_output(), b"1024.0\ttrue\tnil\t3.0\t16.0\t0.5\t1.0\n0.5\t4\n");
}
