//! With default settings on a small (2 MB) thread, deep or pathological
//! recursion must end in a Lua error, not in a native stack overflow.

#[test]
fn small_thread_stack_is_respected() {
    let h = std::thread::Builder::new()
        .stack_size(2 << 20)
        .spawn(|| {
            let mut lua = minilua::Lua::new();
            lua.set_max_call_depth(1_000_000);
            let c = minilua::load(b"local function f(n) return 1 + f(n + 1) end f(1)", "s").unwrap();
            let e = lua.run(&c).unwrap_err();
            assert_eq!(e.kind, minilua::ErrorKind::StackOverflow);
            // heavy frames: 150 nested blocks per call
            let src = format!(
                "local function f(n) {} return 1 + f(n + 1) {} end f(1)",
                "do ".repeat(150),
                "end ".repeat(150)
            );
            let c = minilua::load(src.as_bytes(), "s").unwrap();
            let e = lua.run(&c).unwrap_err();
            assert_eq!(e.kind, minilua::ErrorKind::StackOverflow);
            // ordinary depth-180 recursion still works on 2 MB
            let mut lua = minilua::Lua::new();
            let c = minilua::load(b"local function f(n) if n == 0 then return 0 end return 1 + f(n - 1) end print(f(170))", "s").unwrap();
            lua.run(&c).unwrap();
            assert_eq!(lua.take_output(), b"170\n");
        })
        .unwrap();
    h.join().unwrap();
}
