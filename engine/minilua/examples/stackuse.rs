fn try_depth(src: &str, n: usize, limit: usize) -> bool {
    let c = minilua::load(src.as_bytes(), "s").unwrap();
    let mut lua = minilua::Lua::new();
    lua.set_max_call_depth(10_000_000);
    lua.set_native_stack_limit(limit);
    lua.run(&minilua::load(format!("N = {}", n).as_bytes(), "s").unwrap()).unwrap();
    lua.run(&c).is_ok()
}
fn measure(name: &str, src: &str) {
    let limit = 64 << 20;
    let (mut lo, mut hi) = (1usize, 2_000_000usize);
    while lo + 1 < hi {
        let mid = (lo + hi) / 2;
        if try_depth(src, mid, limit) { lo = mid } else { hi = mid }
    }
    println!("{:40} {:8} levels in 63.5 MB -> {:6.0} bytes/level", name, lo, (limit as f64 - 524288.0) / lo as f64);
}
fn main() {
    std::thread::Builder::new().stack_size(512 << 20).spawn(|| {
        measure("plain recursion (1 + f(n-1))", "local function f(n) if n == 0 then return 0 end return 1 + f(n - 1) end f(N)");
        measure("emitted style (local t = f(n-1))", "local function f(n) if (n == 0) then return 0 else end local a = f local b = n local r = a((b - 1)) return __ADD(r, 1) end __ADD = function(a, b) return a + b end f(N)");
        measure("pcall chain", "local function f(n) if n == 0 then return 0 end local ok, v = pcall(f, n - 1) if not ok then error(v, 0) end return v end f(N)");
        measure("metamethod chain", "local t t = setmetatable({}, {__index = function(_, k) if k == 0 then return 0 end return t[k - 1] end}) local x = t[N]");
        let nest = format!("local function f(n) if n == 0 then return 0 end {} return 1 + {}f(n - 1){} {} end f(N)", "do ".repeat(150), "(".repeat(30), ")".repeat(30), "end ".repeat(150));
        measure("150 nested blocks + 30 parens per call", &nest);
    }).unwrap().join().unwrap();
}
